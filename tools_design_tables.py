#!/usr/bin/env python3
"""Rewrites the table of audited theorems per property in DESIGN.md section 10 from evidence/*.json (run after tools_run_all.sh)."""
import glob
import json
import re


def find(o, k):
    if isinstance(o, dict):
        if k in o:
            return o[k]
        for v in o.values():
            r = find(v, k)
            if r is not None:
                return r
    return None


rows, total = [], 0
for f in sorted(glob.glob("/verif/evidence/C*.json")):
    e = json.load(open(f))
    ax = find(e, "axioms") or {}
    rows.append("| %s | %d | %s |" % (e["property_id"], len(ax), ", ".join(sorted({a for v in ax.values() for a in v}))))
    total += len(ax)
table = "| property | audited theorems | axioms used (union) |\n|---|---|---|\n" + "\n".join(rows) + "\n"
p = "/verif/DESIGN.md"
s = open(p).read()
m = re.search(r"\| property \| audited theorems \| axioms used \(union\) \|\n\|---\|---\|---\|\n(?:\|.*\|\n)+", s)
assert m, "table not found"
s = s[:m.start()] + table + s[m.end():]
s = re.sub(r"\(\d+ audited theorems in all\)", "(%d audited theorems in all)" % total, s)
open(p, "w").write(s)
print("audited theorems:", total)
