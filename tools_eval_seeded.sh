#!/bin/sh
# tools_eval_seeded.sh <id> <PROP> [more PROPs...]: run the quick checks of the given properties against a private scratch copy of
# /repo with seeded/<id>/patch.diff applied (tools_try_mutant.sh, NOLEAN=1: the Lean stage is skipped, extraction and every
# correspondence/oracle run) and record the verdicts in seeded/<id>/meta.json (checks_run). SCRATCHLEAN=" " runs the Lean stage too.
cd /verif
id=$1; shift
for p in "$@"; do
  out=$(NOLEAN=1 ./tools_try_mutant.sh seeded/$id/patch.diff $p)
  case "$out" in
    *no-failing-input-found*) v="caught, no-failing-input-found";;
    *VIOLATION*) v="caught with a failing input (replay)";;
    *"-> ok"*) v="MISSED (exit 0)";;
    *) v="ERROR: $(echo "$out" | cut -c1-120)";;
  esac
  python3 - "$id" "$p" "$v" <<'PY'
import json,sys,fcntl
id_,p,v=sys.argv[1:]
f=f'/verif/seeded/{id_}/meta.json'
with open(f,'r+') as fh:
    fcntl.flock(fh,fcntl.LOCK_EX)
    m=json.load(fh); m.setdefault('checks_run',{})[p]=v
    fh.seek(0); fh.truncate(); json.dump(m,fh,indent=1,ensure_ascii=False)
PY
  echo "$id $p: $v"
done
