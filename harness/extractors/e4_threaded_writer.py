"""
E4: `eliot.logwriter.ThreadedWriter`  ->  lean/Eliot/Generated/Writer.lean

From the current AST of eliot/logwriter.py:
  * `queueIsSimpleQueue` : `__init__` assigns `self._queue = SimpleQueue()` (imported from `queue`) and `_STOP = object()`
  * `start` / `stop`     : the statements of `startService` / `stopService`, in order, each recognised as one of
                           svcStart, mkThread, startThread, register / svcStop, unregister, putStop, deferJoin (else `.unknown`)
  * `readerLoopForever`  : `_reader` is exactly `while True: <body>` (no else, nothing after)
  * `reader`             : the loop body: get, exitIfStop, callSwallow (else `.unknown`)
  * `callIsSinglePut`    : `__call__(self, x)` is exactly `self._queue.put(x)`
Docstrings, comments, names of locals and formatting do not influence the output.
The Lean obligation is `Generated.writer = Writer.assumed` (by `decide`).
"""
import ast
from pathlib import Path


def _strip_doc(body):
    if body and isinstance(body[0], ast.Expr) and isinstance(body[0].value, ast.Constant) and isinstance(body[0].value.value, str):
        return body[1:]
    return body


def _self_attr(n, name=None):
    return (isinstance(n, ast.Attribute) and isinstance(n.value, ast.Name) and n.value.id == "self"
            and (name is None or n.attr == name))


def _call(n, pred, nargs=None):
    return isinstance(n, ast.Call) and pred(n.func) and (nargs is None or (len(n.args) == nargs and not n.keywords))


def _name(n, ident):
    return isinstance(n, ast.Name) and n.id == ident


def _dotted(n, a, b):
    return isinstance(n, ast.Attribute) and n.attr == b and _name(n.value, a)


def _start_op(s):
    if isinstance(s, ast.Expr) and _call(s.value, lambda f: _dotted(f, "Service", "startService"), 1) and _name(s.value.args[0], "self"):
        return "svcStart"
    if (isinstance(s, ast.Assign) and len(s.targets) == 1 and _self_attr(s.targets[0], "_thread") and isinstance(s.value, ast.Call)
            and _dotted(s.value.func, "threading", "Thread") and not s.value.args and len(s.value.keywords) == 1
            and s.value.keywords[0].arg == "target" and _self_attr(s.value.keywords[0].value, "_reader")):
        return "mkThread"
    if isinstance(s, ast.Expr) and _call(s.value, lambda f: isinstance(f, ast.Attribute) and f.attr == "start" and _self_attr(f.value, "_thread"), 0):
        return "startThread"
    if isinstance(s, ast.Expr) and _call(s.value, lambda f: _name(f, "addDestination"), 1) and _name(s.value.args[0], "self"):
        return "register"
    return "unknown"


def _stop_op(s):
    if isinstance(s, ast.Expr) and _call(s.value, lambda f: _dotted(f, "Service", "stopService"), 1) and _name(s.value.args[0], "self"):
        return "svcStop"
    if isinstance(s, ast.Expr) and _call(s.value, lambda f: _name(f, "removeDestination"), 1) and _name(s.value.args[0], "self"):
        return "unregister"
    if (isinstance(s, ast.Expr) and _call(s.value, lambda f: isinstance(f, ast.Attribute) and f.attr == "put" and _self_attr(f.value, "_queue"), 1)
            and _name(s.value.args[0], "_STOP")):
        return "putStop"
    if (isinstance(s, ast.Return) and _call(s.value, lambda f: _name(f, "deferToThreadPool"), 3)
            and isinstance(s.value.args[2], ast.Attribute) and s.value.args[2].attr == "join" and _self_attr(s.value.args[2].value, "_thread")):
        return "deferJoin"
    return "unknown"


def _reader_ops(body):
    ops = []
    var = None
    for s in body:
        if (isinstance(s, ast.Assign) and len(s.targets) == 1 and isinstance(s.targets[0], ast.Name)
                and _call(s.value, lambda f: isinstance(f, ast.Attribute) and f.attr == "get" and _self_attr(f.value, "_queue"), 0)):
            var = s.targets[0].id
            ops.append("get")
        elif (isinstance(s, ast.If) and var and isinstance(s.test, ast.Compare) and _name(s.test.left, var) and len(s.test.ops) == 1
              and isinstance(s.test.ops[0], ast.Is) and _name(s.test.comparators[0], "_STOP") and not s.orelse
              and len(s.body) == 1 and isinstance(s.body[0], ast.Return) and s.body[0].value is None):
            ops.append("exitIfStop")
        elif (isinstance(s, ast.Try) and var and len(s.body) == 1 and isinstance(s.body[0], ast.Expr)
              and _call(s.body[0].value, lambda f: _self_attr(f, "_destination"), 1) and _name(s.body[0].value.args[0], var)
              and len(s.handlers) == 1 and _name(s.handlers[0].type, "Exception") and s.handlers[0].name is None
              and all(isinstance(x, ast.Pass) for x in s.handlers[0].body) and not s.orelse and not s.finalbody):
            ops.append("callSwallow")
        else:
            ops.append("unknown")
    return ops


def skeleton(repo):
    path = Path(repo) / "eliot" / "logwriter.py"
    mod = ast.parse(path.read_text())
    res = dict(path=str(path), queue_ok=False, start=["unknown"], stop=["unknown"], forever=False, reader=["unknown"], call_ok=False,
               problems=[], lines={})
    cls = next((n for n in mod.body if isinstance(n, ast.ClassDef) and n.name == "ThreadedWriter"), None)
    if cls is None:
        res["problems"].append("class ThreadedWriter not found")
        return res
    fns = {n.name: n for n in cls.body if isinstance(n, ast.FunctionDef)}
    sq_import = any(isinstance(n, ast.ImportFrom) and n.module == "queue" and any(a.name == "SimpleQueue" and a.asname is None for a in n.names)
                    for n in mod.body)
    stop_sentinel = sum(1 for n in mod.body if isinstance(n, ast.Assign) and any(_name(t, "_STOP") for t in n.targets)) == 1 and any(
        isinstance(n, ast.Assign) and any(_name(t, "_STOP") for t in n.targets) and _call(n.value, lambda f: _name(f, "object"), 0) for n in mod.body)
    init = fns.get("__init__")
    if init is not None:
        qa = [n for n in ast.walk(init) if isinstance(n, ast.Assign) and any(_self_attr(t, "_queue") for t in n.targets)]
        res["queue_ok"] = bool(sq_import and stop_sentinel and len(qa) == 1 and qa[0] in init.body
                               and _call(qa[0].value, lambda f: _name(f, "SimpleQueue"), 0))
    # the queue must not be reassigned anywhere else
    for name, fn in fns.items():
        if name != "__init__" and any(isinstance(n, (ast.Assign, ast.AugAssign)) and any(_self_attr(t, "_queue") for t in getattr(n, "targets", [getattr(n, "target", None)]))
                                      for n in ast.walk(fn)):
            res["queue_ok"] = False
    if "startService" in fns:
        body = _strip_doc(fns["startService"].body)
        res["start"] = [_start_op(s) for s in body]
        res["lines"]["start"] = [s.lineno for s in body]
    if "stopService" in fns:
        body = _strip_doc(fns["stopService"].body)
        res["stop"] = [_stop_op(s) for s in body]
        res["lines"]["stop"] = [s.lineno for s in body]
    rd = fns.get("_reader")
    if rd is not None:
        body = _strip_doc(rd.body)
        if (len(body) == 1 and isinstance(body[0], ast.While) and isinstance(body[0].test, ast.Constant) and body[0].test.value is True
                and not body[0].orelse):
            res["forever"] = True
            res["reader"] = _reader_ops(body[0].body)
            res["lines"]["reader"] = [s.lineno for s in body[0].body]
            res["lines"]["dest_call"] = [s.body[0].lineno for s in body[0].body if isinstance(s, ast.Try) and s.body]
    call = fns.get("__call__")
    if call is not None:
        body = _strip_doc(call.body)
        a = call.args
        res["call_ok"] = bool(len(a.args) == 2 and not a.vararg and not a.kwarg and len(body) == 1 and isinstance(body[0], ast.Expr)
                              and _call(body[0].value, lambda f: isinstance(f, ast.Attribute) and f.attr == "put" and _self_attr(f.value, "_queue"), 1)
                              and _name(body[0].value.args[0], a.args[1].arg))
        if body:
            res["lines"]["call"] = [body[0].lineno]
    for k in ("start", "stop", "reader"):
        if "unknown" in res[k]:
            res["problems"].append("unrecognised statement in %s" % k)
    for k in ("queue_ok", "forever", "call_ok"):
        if not res[k]:
            res["problems"].append("%s does not hold" % k)
    return res


def extract(repo):
    sk = skeleton(repo)
    b = lambda v: "true" if v else "false"  # noqa
    l = lambda ops: "[" + ", ".join("." + o for o in ops) + "]"  # noqa
    src = "\n".join([
        "import Eliot.Conc.WriterSkel",
        "/-! GENERATED by harness/extractors/e4_threaded_writer.py from eliot/logwriter.py - do not edit. -/",
        "namespace Eliot.Generated", "open Eliot.Conc.Writer", "",
        "def writer : WriterSkel :=",
        "  { queueIsSimpleQueue := %s," % b(sk["queue_ok"]),
        "    start := %s," % l(sk["start"]),
        "    stop := %s," % l(sk["stop"]),
        "    readerLoopForever := %s," % b(sk["forever"]),
        "    reader := %s," % l(sk["reader"]),
        "    callIsSinglePut := %s }" % b(sk["call_ok"]),
        "", "end Eliot.Generated", ""])
    report = dict(start=sk["start"], stop=sk["stop"], reader=sk["reader"], queue_ok=sk["queue_ok"], forever=sk["forever"],
                  call_ok=sk["call_ok"], problems=sk["problems"])
    return "Writer.lean", src, report
