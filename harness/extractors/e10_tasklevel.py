"""E10: translator (not a table): the position arithmetic of eliot/_action.py -> lean/Eliot/Generated/TaskLevel.lean

`TaskLevel.next_sibling`, `.child`, `.parent`, `.is_sibling_of`, `.as_list` and `Action._nextTaskLevel` are translated,
statement by statement, from the current AST into Lean *definitions* (a `TaskLevel` is its `_level`, a `List Nat`;
`Optional[TaskLevel]` is `Option (List Nat)`; the two attributes `_nextTaskLevel` touches become parameters, and the new
value of `_last_child` is returned next to the result).
`lean/Eliot/Properties/C02TL.lean` then proves, about these generated definitions, the equations the core model's
`World.nextLevel` rests on - so the theorems are re-checked against what the code says now.

The Python subset understood (anything else makes the translation of that function `PyList.unrecognised`, an opaque
constant about which nothing can be proved, and is listed in the report):
  statements   x = <e> | x[-1] += <nat literal> | x.append(<e>) | return <e> | if <c>: <stmts> [else: <stmts>]  |
               self.<attr> = <e>      (only in _nextTaskLevel, for the attributes _last_child)
  expressions  self._level | <name> | <e>[:] | <e>[:-1] | TaskLevel(level=<e>) | None | <nat literal> | [<e>, ...] |
               <e>.child() | <e>.next_sibling() | <e>.parent() | <e> == <e> | self._task_level | self._last_child
  conditions   not <list-valued e> (empty) | not <optional-valued e> (is None; a TaskLevel object is always true)
Docstrings are skipped; names of locals are kept (prefixed) so the text is readable.
"""
import ast
from pathlib import Path


class Unrecognised(Exception):
    pass


LIST, OPT, BOOL, NAT = "List Nat", "Option (List Nat)", "Bool", "Nat"


class Tr:
    """one function body -> Lean term (let-chain); `env` maps Python local names to (lean name, type)"""

    def __init__(self, self_kind):
        self.self_kind = self_kind  # "level" (methods of TaskLevel) | "action" (_nextTaskLevel)
        self.env = {}
        # the two attributes of an Action that _nextTaskLevel reads/writes: (lean term, type); `_last_child` changes to a
        # term of type List Nat once it is known to be set (after an assignment, or in the branch where it was tested)
        self.attrs = {"_task_level": ("task_level", LIST), "_last_child": ("last_child", OPT)}
        self.fresh = 0
        self.own = set()

    def expr(self, e):
        if isinstance(e, ast.Attribute) and isinstance(e.value, ast.Name) and e.value.id == "self":
            if self.self_kind == "level" and e.attr == "_level":
                return "self", LIST
            if self.self_kind == "action" and e.attr in self.attrs:
                return self.attrs[e.attr]
            raise Unrecognised("attribute self.%s" % e.attr)
        if isinstance(e, ast.Name):
            if e.id in self.env:
                return self.env[e.id]
            if e.id == "self" and self.self_kind == "level":
                return "self", LIST
            raise Unrecognised("name %s" % e.id)
        if isinstance(e, ast.Constant):
            if e.value is None:
                return "none", OPT
            if isinstance(e.value, int) and not isinstance(e.value, bool) and e.value >= 0:
                return str(e.value), NAT
            raise Unrecognised("constant %r" % (e.value,))
        if isinstance(e, ast.List):
            parts = [self.expr(x) for x in e.elts]
            if all(t == NAT for _, t in parts):
                return "[" + ", ".join(s for s, _ in parts) + "]", LIST
            raise Unrecognised("list display")
        if isinstance(e, ast.Subscript) and isinstance(e.slice, ast.Slice) and e.slice.step is None:
            v, t = self.expr(e.value)
            if t != LIST:
                raise Unrecognised("slice of a non-list")
            lo, hi = e.slice.lower, e.slice.upper
            if lo is None and hi is None:
                return v, LIST  # a copy: values are immutable here
            if lo is None and isinstance(hi, ast.UnaryOp) and isinstance(hi.op, ast.USub) and isinstance(hi.operand, ast.Constant) and hi.operand.value == 1:
                return "(%s).dropLast" % v, LIST
            raise Unrecognised("slice bounds")
        if isinstance(e, ast.Call):
            f = e.func
            if isinstance(f, ast.Name) and f.id == "TaskLevel" and not e.args and len(e.keywords) == 1 and e.keywords[0].arg == "level":
                v, t = self.expr(e.keywords[0].value)
                if t != LIST:
                    raise Unrecognised("TaskLevel(level=<non-list>)")
                return v, LIST
            if isinstance(f, ast.Attribute) and not e.args and not e.keywords and f.attr in ("child", "next_sibling", "parent"):
                v, t = self.expr(f.value)
                if t == OPT:
                    raise Unrecognised("method call on a possibly-None value")
                if t != LIST:
                    raise Unrecognised("method call on %s" % t)
                return "(%s (%s))" % (f.attr, v), (OPT if f.attr == "parent" else LIST)
            raise Unrecognised("call")
        if isinstance(e, ast.Compare) and len(e.ops) == 1 and isinstance(e.ops[0], ast.Eq):
            a, ta = self.expr(e.left)
            b, tb = self.expr(e.comparators[0])
            if ta == tb:
                return "(%s == %s)" % (a, b), BOOL
            raise Unrecognised("comparison of different types")
        raise Unrecognised(type(e).__name__)

    def cond(self, c):
        """-> (lean Bool term, name bound to the unwrapped value in the *else* branch or None)"""
        if isinstance(c, ast.UnaryOp) and isinstance(c.op, ast.Not):
            v, t = self.expr(c.operand)
            if t == LIST:
                return "(%s).isEmpty" % v, None
            if t == OPT:
                return "(%s).isNone" % v, v
            if t == BOOL:
                return "(!%s)" % v, None
        if (isinstance(c, ast.Compare) and len(c.ops) == 1 and isinstance(c.ops[0], ast.Is)
                and isinstance(c.comparators[0], ast.Constant) and c.comparators[0].value is None):
            v, t = self.expr(c.left)
            if t == OPT:
                return "(%s).isNone" % v, v
        raise Unrecognised("condition")

    def block(self, stmts, ret_type, k_state=None):
        """translate statements ending in `return`; for `action` bodies the result is `(state, value)`"""
        stmts = [s for s in stmts if not (isinstance(s, ast.Expr) and isinstance(s.value, ast.Constant))]
        if not stmts:
            raise Unrecognised("falls off the end")
        s, rest = stmts[0], stmts[1:]
        if isinstance(s, ast.Return):
            v, t = self.expr(s.value)
            if ret_type == OPT and t == LIST:
                v, t = "some (%s)" % v, OPT
            if t != ret_type:
                raise Unrecognised("return type %s, expected %s" % (t, ret_type))
            if self.self_kind == "action":
                lc, lt = self.attrs["_last_child"]
                return "(%s, %s)" % (lc if lt == OPT else "some (%s)" % lc, v)
            return v
        if isinstance(s, ast.Assign) and len(s.targets) == 1:
            tgt = s.targets[0]
            if isinstance(tgt, ast.Name):
                v, t = self.expr(s.value)
                self.env[tgt.id] = ("v_" + tgt.id, t)
                # a local may be updated in place only if it holds a list of its own (a slice copy or a display): the
                # translation treats values as immutable, which is wrong for an alias of `self._level`
                own = isinstance(s.value, ast.List) or (isinstance(s.value, ast.Subscript) and isinstance(s.value.slice, ast.Slice))
                (self.own.add if own else self.own.discard)(tgt.id)
                return "let v_%s : %s := %s\n  %s" % (tgt.id, t, v, self.block(rest, ret_type))
            if (isinstance(tgt, ast.Attribute) and isinstance(tgt.value, ast.Name) and tgt.value.id == "self"
                    and self.self_kind == "action" and tgt.attr == "_last_child"):
                v, t = self.expr(s.value)
                if t not in (LIST, OPT):
                    raise Unrecognised("assignment to _last_child of %s" % t)
                self.fresh += 1
                name = "last_child_%d" % self.fresh
                self.attrs = dict(self.attrs, _last_child=(name, t))
                return "let %s : %s := %s\n  %s" % (name, t, v, self.block(rest, ret_type))
            raise Unrecognised("assignment target")
        if (isinstance(s, ast.AugAssign) and isinstance(s.op, ast.Add) and isinstance(s.target, ast.Subscript)
                and isinstance(s.target.value, ast.Name) and isinstance(s.target.slice, ast.UnaryOp)
                and isinstance(s.target.slice.op, ast.USub) and isinstance(s.target.slice.operand, ast.Constant)
                and s.target.slice.operand.value == 1):
            name = s.target.value.id
            if name not in self.env or self.env[name][1] != LIST or name not in self.own:
                raise Unrecognised("x[-1] += on something that is not a local copy")
            k, t = self.expr(s.value)
            if t != NAT:
                raise Unrecognised("x[-1] += <non-literal>")
            ln = self.env[name][0]
            return "let %s : List Nat := PyList.incrLast %s %s\n  %s" % (ln, ln, k, self.block(rest, ret_type))
        if (isinstance(s, ast.Expr) and isinstance(s.value, ast.Call) and isinstance(s.value.func, ast.Attribute)
                and s.value.func.attr == "append" and isinstance(s.value.func.value, ast.Name) and len(s.value.args) == 1):
            name = s.value.func.value.id
            if name not in self.env or self.env[name][1] != LIST or name not in self.own:
                raise Unrecognised("append on something that is not a local copy")
            k, t = self.expr(s.value.args[0])
            if t != NAT:
                raise Unrecognised("append of a non-number")
            ln = self.env[name][0]
            return "let %s : List Nat := %s ++ [%s]\n  %s" % (ln, ln, k, self.block(rest, ret_type))
        if isinstance(s, ast.If):
            c, unwrap = self.cond(s.test)
            saved, saved_attrs = dict(self.env), dict(self.attrs)
            then = self.block(s.body + rest, ret_type)
            self.env, self.attrs = dict(saved), dict(saved_attrs)
            if unwrap is not None:
                # in the else branch the Optional is known to be set: bind its value
                self.fresh += 1
                name = "set_%d" % self.fresh
                if self.attrs["_last_child"][0] == unwrap:
                    self.attrs["_last_child"] = (name, LIST)
                els = self.block(s.orelse + rest, ret_type)
                self.env, self.attrs = saved, saved_attrs
                return "match %s with\n  | none => %s\n  | some %s => %s" % (unwrap, then.replace("\n", "\n    "), name, els.replace("\n", "\n    "))
            els = self.block(s.orelse + rest, ret_type)
            self.env, self.attrs = saved, saved_attrs
            return "if %s then %s\n  else %s" % (c, then.replace("\n", "\n    "), els.replace("\n", "\n    "))
        raise Unrecognised(type(s).__name__)


SPECS = [  # (class, method, lean name, extra parameters, result type, kind)
    ("TaskLevel", "as_list", "as_list", "", LIST, "level"),
    ("TaskLevel", "next_sibling", "next_sibling", "", LIST, "level"),
    ("TaskLevel", "child", "child", "", LIST, "level"),
    ("TaskLevel", "parent", "parent", "", OPT, "level"),
    ("TaskLevel", "is_sibling_of", "is_sibling_of", " (other : List Nat)", BOOL, "level"),
    ("Action", "_nextTaskLevel", "nextTaskLevel", "", LIST, "action"),
]


def translate(repo):
    path = Path(repo) / "eliot" / "_action.py"
    mod = ast.parse(path.read_text())
    classes = {n.name: n for n in mod.body if isinstance(n, ast.ClassDef)}
    out, problems = [], []
    for cls, meth, lname, params, rt, kind in SPECS:
        fn = None
        if cls in classes:
            fn = next((n for n in classes[cls].body if isinstance(n, ast.FunctionDef) and n.name == meth), None)
        sig = ("def %s (self : List Nat)%s : %s :=" % (lname, params, rt) if kind == "level"
               else "def %s (task_level : List Nat) (last_child : Option (List Nat)) : Option (List Nat) × %s :=" % (lname, rt))
        try:
            if fn is None:
                raise Unrecognised("%s.%s not found" % (cls, meth))
            if fn.decorator_list:
                raise Unrecognised("decorated")
            want = 1 + (1 if params else 0)
            if len(fn.args.args) != want or fn.args.vararg or fn.args.kwarg or fn.args.kwonlyargs or fn.args.defaults:
                raise Unrecognised("signature")
            tr = Tr(kind)
            if params:
                tr.env[fn.args.args[1].arg] = ("other", LIST)
            body = tr.block(fn.body, rt)
            out.append("/-- `%s.%s`, line %d -/\n%s\n  %s\n" % (cls, meth, fn.lineno, sig, body))
        except Unrecognised as e:
            problems.append("%s.%s: %s" % (cls, meth, e))
            out.append("/-- `%s.%s`: NOT TRANSLATED (%s) -/\n%s\n  PyList.unrecognised\n" % (cls, meth, e, sig))
    return out, problems


MUTATORS = {"append", "extend", "insert", "pop", "remove", "clear", "sort", "reverse", "__setitem__", "__iadd__", "__delitem__"}


def foreign_writes(repo):
    """Stores that would invalidate the translation's reading of the two attributes as immutable values / as state owned by
    `_nextTaskLevel`: (a) `<x>._level` assigned outside `TaskLevel.__init__`, or updated in place anywhere
    (`<x>._level[i] = ..`, `+=`, `del`, mutating method calls); (b) `<x>._last_child` assigned outside `Action.__init__` and
    `Action._nextTaskLevel`.  Whole package, tests excluded."""
    level, last = [], []
    for path in sorted((Path(repo) / "eliot").glob("*.py")):
        try:
            mod = ast.parse(path.read_text())
        except SyntaxError:
            level.append("%s: syntax error" % path.name)
            continue

        def visit(node, where):
            for child in ast.iter_child_nodes(node):
                w = where
                if isinstance(child, ast.ClassDef):
                    w = (child.name, None)
                elif isinstance(child, (ast.FunctionDef, ast.AsyncFunctionDef)):
                    w = (where[0], child.name) if where[1] is None else where
                targets = []
                if isinstance(child, ast.Assign):
                    targets = child.targets
                elif isinstance(child, (ast.AugAssign, ast.AnnAssign)):
                    targets = [child.target]
                elif isinstance(child, ast.Delete):
                    targets = child.targets
                for t in targets:
                    for tt in (t.elts if isinstance(t, (ast.Tuple, ast.List)) else [t]):
                        if isinstance(tt, ast.Attribute) and tt.attr == "_level" and w != ("TaskLevel", "__init__"):
                            level.append("%s:%d" % (path.name, child.lineno))
                        if isinstance(tt, ast.Subscript) and isinstance(tt.value, ast.Attribute) and tt.value.attr == "_level":
                            level.append("%s:%d" % (path.name, child.lineno))
                        if isinstance(tt, ast.Attribute) and tt.attr == "_last_child" and w not in (("Action", "__init__"), ("Action", "_nextTaskLevel")):
                            last.append("%s:%d" % (path.name, child.lineno))
                if (isinstance(child, ast.Call) and isinstance(child.func, ast.Attribute) and child.func.attr in MUTATORS
                        and isinstance(child.func.value, ast.Attribute) and child.func.value.attr == "_level"):
                    level.append("%s:%d" % (path.name, child.lineno))
                if (isinstance(child, ast.Call) and isinstance(child.func, ast.Name) and child.func.id == "setattr" and len(child.args) >= 2
                        and isinstance(child.args[1], ast.Constant) and child.args[1].value in ("_level", "_last_child")):
                    (level if child.args[1].value == "_level" else last).append("%s:%d" % (path.name, child.lineno))
                visit(child, w)
        visit(mod, (None, None))
    return level, last


def always_truthy(repo):
    """`if not self._last_child` is read as `is None`: right only while TaskLevel defines neither __bool__ nor __len__"""
    mod = ast.parse((Path(repo) / "eliot" / "_action.py").read_text())
    cls = next((n for n in mod.body if isinstance(n, ast.ClassDef) and n.name == "TaskLevel"), None)
    if cls is None:
        return False
    names = {n.name for n in cls.body if isinstance(n, (ast.FunctionDef, ast.AsyncFunctionDef))}
    names |= {t.id for n in cls.body if isinstance(n, ast.Assign) for t in n.targets if isinstance(t, ast.Name)}
    plain_bases = all(isinstance(b, ast.Name) and b.id == "object" for b in cls.bases)
    return plain_bases and not ({"__bool__", "__len__"} & names)


def extract(repo):
    defs, problems = translate(repo)
    level, last = foreign_writes(repo)
    truthy = always_truthy(repo)
    defs.append("/-- `TaskLevel` (a plain class) defines neither `__bool__` nor `__len__`, so an instance is always true and\n"
                "`if not self._last_child` means `is None`, as the translation reads it -/\ndef taskLevelAlwaysTrue : Bool := %s\n" % ("true" if truthy else "false"))
    if not truthy:
        problems = problems + ["TaskLevel may be falsy (defines __bool__/__len__ or has a base class)"]
    defs.append("/-- in-place updates of a `_level` list, or assignments of it outside `TaskLevel.__init__`, anywhere in the package:\n"
                "%s -/\ndef levelWritesElsewhere : Nat := %d\n" % (", ".join(level) or "none", len(level)))
    defs.append("/-- assignments of `_last_child` outside `Action.__init__` / `Action._nextTaskLevel`: %s -/\n"
                "def lastChildWritesElsewhere : Nat := %d\n" % (", ".join(last) or "none", len(last)))
    problems = problems + ["_level written at " + x for x in level] + ["_last_child written at " + x for x in last]
    src = "\n".join([
        "import Eliot.Model.PyList",
        "/-! GENERATED by harness/extractors/e10_tasklevel.py: a statement-by-statement translation of the position",
        "arithmetic in eliot/_action.py (TaskLevel methods and Action._nextTaskLevel) - do not edit. -/",
        "namespace Eliot.Generated.TL", ""] + defs + ["end Eliot.Generated.TL", ""])
    return "TaskLevel.lean", src, dict(problems=problems, translated=6 - sum(1 for p in problems if not p.startswith("_")))
