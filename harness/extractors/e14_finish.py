"""E14: the statements of `Action.finish` (eliot/_action.py) -> lean/Eliot/Generated/Finish.lean

One `Eliot.FinishSkel.W` per statement, in source order: the guard (`if self._finished: return` / `self._finished = True`), the test
that separates success from failure, the two branches, and the common tail (timestamp, identification, task level, write).  The
constants `SUCCEEDED_STATUS` / `FAILED_STATUS` and the key order of `self._identification` are read from the source too.
`lean/Eliot/Properties/C03Fin.lean` interprets the lists in the core model and proves `World.finishRec` equal to that interpretation.
A statement that is not recognised becomes `.other "<source>"`, about which nothing is provable.
"""
import ast
from pathlib import Path

from .e16_shapes import body_strings as _e16_body_strings


def body_of(fn):
    b = list(fn.body)
    if b and isinstance(b[0], ast.Expr) and isinstance(b[0].value, ast.Constant) and isinstance(b[0].value.value, str):
        b = b[1:]
    return b


def q(s):
    return '"' + s.replace("\\", "\\\\").replace('"', '\\"').replace("\n", "\\n") + '"'


def const(tree, name):
    for n in tree.body:
        if isinstance(n, ast.Assign) and len(n.targets) == 1 and isinstance(n.targets[0], ast.Name) and n.targets[0].id == name \
                and isinstance(n.value, ast.Constant) and isinstance(n.value.value, str):
            return n.value.value
    return None


def w_of(stmt, consts):
    s = ast.unparse(stmt)
    table = {
        "fields = self._successFields": ".fromSuccessFields",
        "fields = dict(_error_extraction.get_fields_for_exception(self._logger, exception))": ".fromExtractorCopy",
        "fields[EXCEPTION_FIELD] = '%s.%s' % (exception.__class__.__module__, exception.__class__.__name__)": ".exception",
        "fields[REASON_FIELD] = safeunicode(exception)": ".reason",
        "fields[TIMESTAMP_FIELD] = time.time()": ".timestamp",
        "fields.update(self._identification)": ".identification",
        "fields[TASK_LEVEL_FIELD] = self._nextTaskLevel().as_list()": ".taskLevel",
        "self._logger.write(fields, serializer)": ".write",
    }
    table.update({
        "fields[TASK_UUID_FIELD] = self._identification[TASK_UUID_FIELD]": ".taskUuid",
        "fields[MESSAGE_TYPE_FIELD] = message_type": ".messageType",
        "logger = fields.pop('__eliot_logger__', self._logger)": ".popLogger",
        "logger.write(fields, fields.pop('__eliot_serializer__', None))": ".writePop",
        "if self._serializers is None:\n    serializer = None\nelse:\n    serializer = self._serializers.start": ".serializerStart",
    })
    if s in table:
        return table[s]
    for cname in ("SUCCEEDED_STATUS", "FAILED_STATUS", "STARTED_STATUS"):
        if s == "fields[ACTION_STATUS_FIELD] = %s" % cname and consts.get(cname) is not None:
            return ".status %s" % q(consts[cname])
    for which in ("success", "failure"):
        if s == "if self._serializers is not None:\n    serializer = self._serializers.%s" % which:
            return ".serializer %s" % q(which)
    return ".other %s" % q(s[:120])


def extract(repo):
    repo = Path(repo)
    problems = []
    guard, test, succ, fail, tail, ident = [], "unrecognised", [], [], [], []
    start_ws, log_ws = [".other \"_start not read\""], [".other \"log not read\""]
    shapes = {"start_action": ["<unread>"], "startTask": ["<unread>"], "log_message": ["<unread>"], "child": ["<unread>"]}
    try:
        tree = ast.parse((repo / "eliot" / "_action.py").read_text())
        consts = {n: const(tree, n) for n in ("SUCCEEDED_STATUS", "FAILED_STATUS", "STARTED_STATUS")}
        action = [n for n in tree.body if isinstance(n, ast.ClassDef) and n.name == "Action"][0]
        fns = {m.name: m for m in action.body if isinstance(m, ast.FunctionDef)}
        b = body_of(fns["finish"])
        i = 0
        while i < len(b) and ast.unparse(b[i]) in ("if self._finished:\n    return", "self._finished = True", "serializer = None"):
            s = ast.unparse(b[i])
            if s != "serializer = None":
                guard.append("if-finished-return" if s.startswith("if") else "set-finished")
            i += 1
        if i < len(b) and isinstance(b[i], ast.If):
            test = ast.unparse(b[i].test)
            succ = [w_of(x, consts) for x in b[i].body]
            fail = [w_of(x, consts) for x in b[i].orelse]
            i += 1
        tail = [w_of(x, consts) for x in b[i:]]
        start_ws = [w_of(x, consts) for x in body_of(fns["_start"])]
        log_ws = [w_of(x, consts) for x in body_of(fns["log"])]
        # the functions that decide WHERE a new action or message goes: their bodies, normalised, statement by statement
        mod_fns = {n.name: n for n in tree.body if isinstance(n, ast.FunctionDef)}
        for name, fn in (("start_action", mod_fns.get("start_action")), ("startTask", mod_fns.get("startTask")),
                         ("log_message", mod_fns.get("log_message")), ("child", fns.get("child"))):
            # (normalised like E16's: alpha-renaming of what the function binds itself)
            shapes[name] = _e16_body_strings(fn) if fn is not None else ["<missing>"]
        # key order of self._identification (a dict display in __init__)
        for n in ast.walk(fns["__init__"]):
            if isinstance(n, ast.Assign) and ast.unparse(n.targets[0]) == "self._identification" and isinstance(n.value, ast.Dict):
                ident = [ast.unparse(k) for k in n.value.keys]
    except Exception as e:  # noqa
        problems.append("_action.py: %s: %s" % (type(e).__name__, e))
    for name, ws in (("success", succ), ("failure", fail), ("tail", tail), ("_start", start_ws), ("log", log_ws)):
        problems += ["%s branch: %s" % (name, w) for w in ws if w.startswith(".other")]
    lean = ["import Eliot.Model.FinishSkel",
            "/-! GENERATED by harness/extractors/e14_finish.py: the statements of `Action.finish` in eliot/_action.py, in source order - do not edit. -/",
            "namespace Eliot.Generated.Finish", "open Eliot.FinishSkel", "",
            "/-- before anything else -/", "def guard : List String := [%s]" % ", ".join(q(x) for x in guard), "",
            "/-- the test that selects the success branch -/", "def branchTest : String := %s" % q(test), "",
            "def successBranch : List W := [%s]" % ", ".join(succ), "",
            "def failureBranch : List W := [%s]" % ", ".join(fail), "",
            "/-- after either branch -/", "def tail : List W := [%s]" % ", ".join(tail), "",
            "/-- `Action._start(fields)`, statement by statement -/", "def startStmts : List W := [%s]" % ", ".join(start_ws), "",
            "/-- `Action.log(message_type, **fields)`, statement by statement -/", "def logStmts : List W := [%s]" % ", ".join(log_ws), "",
            "/-- `start_action`: the parent is looked up when the action is created; none = a new task -/",
            "def startActionBody : List String := [%s]" % ", ".join(q(x) for x in shapes["start_action"]), "",
            "/-- `startTask` / `start_task`: always a new tree with a fresh uuid4 -/",
            "def startTaskBody : List String := [%s]" % ", ".join(q(x) for x in shapes["startTask"]), "",
            "/-- `log_message`: the current action, or a one-message task of its own -/",
            "def logMessageBody : List String := [%s]" % ", ".join(q(x) for x in shapes["log_message"]), "",
            "/-- `Action.child`: the parent's uuid and its next position -/",
            "def childBody : List String := [%s]" % ", ".join(q(x) for x in shapes["child"]), "",
            "/-- keys of `self._identification`, in the order of the dict display in `Action.__init__` -/",
            "def identificationKeys : List String := [%s]" % ", ".join(q(x) for x in ident), "",
            "end Eliot.Generated.Finish", ""]
    return "Finish.lean", "\n".join(lean), dict(problems=problems, guard=guard, test=test, success=succ, failure=fail, tail=tail, ident=ident, start=start_ws, log=log_ws)
