"""
E1: `MemoryLogger` lock discipline and shared-field accesses  ->  lean/Eliot/Generated/MemLog.lean

From the *current* AST of eliot/_output.py:
  * `exclusivelyOk`  : `exclusively(f)` is exactly  `def g(self, *a, **kw): with self._lock: return f(self, *a, **kw)`; `return g`
  * `lockOk`         : `MemoryLogger.__init__` assigns `self._lock = Lock()` with `Lock` imported from `threading`
  * `memoryLogger`   : per method (sorted by name; class-level aliases `a = b` are the same function and get no row) whether it is
                       locked (decorated with exactly `@exclusively`, or its whole body is one `with self._lock:`)
                       and its ordered accesses to messages / serializers / tracebackMessages / _failed_validations:
        .append f cond   `self.f.append(x)`            (cond = under if / except / loop / boolean operator)
        .clear f         `self.f = []`                 (unconditional)
        .filterAssign f  `self.f = v` where v is a local built as `v = []; for x in self.f: if ..: v.append(x)`
        .read f          any other load of `self.f`
        .call m          `self.m(...)` for a method m of the class
        .unknown         anything else that touches a shared field or the lock (never guessed at)
Conditional accesses are flattened in source order.  Names of locals, comments, docstrings, formatting
and the order of methods do not influence the output.
"""
import ast
from pathlib import Path

FIELDS = {"messages": "messages", "serializers": "serializers", "tracebackMessages": "tracebacks",
          "_failed_validations": "failed"}
READ_METHODS = {"copy", "index", "count", "__len__", "__iter__", "__getitem__", "__contains__"}


def _is_self_attr(node, names=None):
    return (isinstance(node, ast.Attribute) and isinstance(node.value, ast.Name) and node.value.id == "self"
            and (names is None or node.attr in names))


def _strip_doc(body):
    if body and isinstance(body[0], ast.Expr) and isinstance(body[0].value, ast.Constant) and isinstance(body[0].value.value, str):
        return body[1:]
    return body


class _Acc(object):
    """Collect accesses of one method in evaluation order."""

    def __init__(self, fn, method_names):
        self.fn = fn
        self.methods = method_names
        self.out = []  # (kind, arg, cond, lineno)
        self.cond = 0
        self.filters = self._filter_locals(fn)

    # `v = []` ... `for x in self.F: ... v.append(x)` (only appends of the loop variable, only inside that loop)
    def _filter_locals(self, fn):
        inits, ok = {}, {}
        for n in ast.walk(fn):
            if isinstance(n, ast.Assign) and len(n.targets) == 1 and isinstance(n.targets[0], ast.Name):
                name = n.targets[0].id
                if isinstance(n.value, ast.List) and not n.value.elts and name not in inits:
                    inits[name] = True
                else:
                    inits[name] = False
        for loop in ast.walk(fn):
            if isinstance(loop, ast.For) and _is_self_attr(loop.iter, FIELDS) and isinstance(loop.target, ast.Name):
                for n in ast.walk(loop):
                    if (isinstance(n, ast.Call) and isinstance(n.func, ast.Attribute) and n.func.attr == "append"
                            and isinstance(n.func.value, ast.Name) and inits.get(n.func.value.id)):
                        v = n.func.value.id
                        good = len(n.args) == 1 and isinstance(n.args[0], ast.Name) and n.args[0].id == loop.target.id
                        prev = ok.get(v)
                        if prev is None:
                            ok[v] = (loop.iter.attr, loop) if good else False
                        elif prev is not False and (prev[1] is not loop or not good):
                            ok[v] = False
        # any other append to v outside the loop invalidates it
        for n in ast.walk(fn):
            if (isinstance(n, ast.Call) and isinstance(n.func, ast.Attribute) and isinstance(n.func.value, ast.Name)
                    and n.func.value.id in ok and ok[n.func.value.id]):
                v = n.func.value.id
                loop = ok[v][1]
                if n.func.attr != "append" or not any(n is m for m in ast.walk(loop)):
                    ok[v] = False
        return {v: f[0] for v, f in ok.items() if f}

    def emit(self, kind, arg, node):
        self.out.append((kind, arg, self.cond > 0, node.lineno))

    def stmts(self, body):
        for s in body:
            self.stmt(s)

    def branch(self, body):
        self.cond += 1
        self.stmts(body)
        self.cond -= 1

    def stmt(self, s):
        if isinstance(s, ast.Assign):
            self.expr(s.value)
            for t in s.targets:
                self.target(t, s)
        elif isinstance(s, (ast.AugAssign, ast.AnnAssign)):
            if s.value is not None:
                self.expr(s.value)
            if _is_self_attr(s.target, FIELDS) or _is_self_attr(s.target, {"_lock"}):
                self.emit("unknown", None, s)
            else:
                self.expr_store(s.target)
        elif isinstance(s, ast.Delete):
            for t in s.targets:
                if any(_is_self_attr(n, FIELDS) for n in ast.walk(t)):
                    self.emit("unknown", None, s)
        elif isinstance(s, ast.Expr):
            self.expr(s.value)
        elif isinstance(s, ast.Return):
            if s.value is not None:
                self.expr(s.value)
        elif isinstance(s, ast.Raise):
            for e in (s.exc, s.cause):
                if e is not None:
                    self.expr(e)
        elif isinstance(s, ast.If):
            self.expr(s.test)
            self.branch(s.body)
            self.branch(s.orelse)
        elif isinstance(s, (ast.For, ast.While)):
            if isinstance(s, ast.For):
                self.expr(s.iter)
                self.cond += 1
                self.expr_store(s.target)
                self.cond -= 1
            else:
                self.cond += 1
                self.expr(s.test)
                self.cond -= 1
            self.branch(s.body)
            self.branch(s.orelse)
        elif isinstance(s, ast.Try):
            self.stmts(s.body)
            for h in s.handlers:
                if h.type is not None:
                    self.cond += 1
                    self.expr(h.type)
                    self.cond -= 1
                self.branch(h.body)
            self.branch(s.orelse)
            self.stmts(s.finalbody)
        elif isinstance(s, ast.With):
            for it in s.items:
                self.expr(it.context_expr)
                if it.optional_vars is not None:
                    self.expr_store(it.optional_vars)
            self.stmts(s.body)
        elif isinstance(s, (ast.Pass, ast.Break, ast.Continue, ast.Import, ast.ImportFrom, ast.Global, ast.Nonlocal)):
            pass
        elif isinstance(s, ast.Assert):
            self.expr(s.test)
        else:
            # nested def / class / match / anything else: unknown iff it mentions a shared field or the lock
            if any(_is_self_attr(n, set(FIELDS) | {"_lock"}) for n in ast.walk(s)):
                self.emit("unknown", None, s)

    def target(self, t, s):
        if _is_self_attr(t, FIELDS):
            f = FIELDS[t.attr]
            v = s.value
            if self.cond:
                self.emit("unknown", None, s)
            elif isinstance(v, ast.List) and not v.elts:
                self.emit("clear", f, s)
            elif isinstance(v, ast.Name) and self.filters.get(v.id) == t.attr:
                self.emit("filterAssign", f, s)
            else:
                self.emit("unknown", None, s)
        elif _is_self_attr(t, {"_lock"}):
            self.emit("lockAssign", None, s)
        else:
            self.expr_store(t)

    def expr_store(self, t):
        # store / delete targets: a shared field anywhere inside (subscript, tuple element, ...) is unknown
        for n in ast.walk(t):
            if _is_self_attr(n, FIELDS):
                self.emit("unknown", None, n)
                return

    def expr(self, e):
        if e is None:
            return
        if isinstance(e, ast.Call):
            f = e.func
            if isinstance(f, ast.Attribute) and _is_self_attr(f.value, FIELDS):
                for a in e.args:
                    self.expr(a)
                for k in e.keywords:
                    self.expr(k.value)
                fld = FIELDS[f.value.attr]
                if f.attr == "append" and len(e.args) == 1 and not e.keywords:
                    self.emit("append", fld, e)
                elif f.attr in READ_METHODS:
                    self.emit("read", fld, e)
                else:
                    self.emit("unknown", None, e)
                return
            if _is_self_attr(f) and f.attr in self.methods:
                for a in e.args:
                    self.expr(a)
                for k in e.keywords:
                    self.expr(k.value)
                self.emit("call", f.attr, e)
                return
            self.expr(f)
            for a in e.args:
                self.expr(a)
            for k in e.keywords:
                self.expr(k.value)
            return
        if isinstance(e, ast.Attribute):
            if _is_self_attr(e, FIELDS):
                self.emit("read" if isinstance(e.ctx, ast.Load) else "unknown", FIELDS[e.attr] if isinstance(e.ctx, ast.Load) else None, e)
                return
            if _is_self_attr(e, {"_lock"}):
                self.emit("unknown", None, e)
                return
            self.expr(e.value)
            return
        if isinstance(e, (ast.BoolOp,)):
            self.expr(e.values[0])
            self.cond += 1
            for v in e.values[1:]:
                self.expr(v)
            self.cond -= 1
            return
        if isinstance(e, ast.IfExp):
            self.expr(e.test)
            self.cond += 1
            self.expr(e.body)
            self.expr(e.orelse)
            self.cond -= 1
            return
        if isinstance(e, (ast.Lambda, ast.ListComp, ast.SetComp, ast.DictComp, ast.GeneratorExp)):
            if any(_is_self_attr(n, set(FIELDS) | {"_lock"}) for n in ast.walk(e)):
                # evaluated lazily / repeatedly: not a shape we model
                self.emit("unknown", None, e)
            return
        for c in ast.iter_child_nodes(e):
            if isinstance(c, ast.expr):
                self.expr(c)


def _exclusively_ok(mod):
    fn = next((n for n in mod.body if isinstance(n, ast.FunctionDef) and n.name == "exclusively"), None)
    if fn is None or len(fn.args.args) != 1:
        return False
    fname = fn.args.args[0].arg
    body = _strip_doc(fn.body)
    if len(body) != 2 or not isinstance(body[0], ast.FunctionDef) or not isinstance(body[1], ast.Return):
        return False
    inner = body[0]
    if not (isinstance(body[1].value, ast.Name) and body[1].value.id == inner.name):
        return False
    for d in inner.decorator_list:  # only functools.wraps(f) is transparent
        if not (isinstance(d, ast.Call) and isinstance(d.func, ast.Name) and d.func.id == "wraps" and len(d.args) == 1
                and isinstance(d.args[0], ast.Name) and d.args[0].id == fname):
            return False
    a = inner.args
    if [x.arg for x in a.args] != ["self"] or a.vararg is None or a.kwarg is None or a.kwonlyargs or a.defaults:
        return False
    ib = _strip_doc(inner.body)
    if len(ib) != 1 or not isinstance(ib[0], ast.With) or len(ib[0].items) != 1:
        return False
    w = ib[0]
    if not _is_self_attr(w.items[0].context_expr, {"_lock"}) or w.items[0].optional_vars is not None:
        return False
    if len(w.body) != 1 or not isinstance(w.body[0], ast.Return) or not isinstance(w.body[0].value, ast.Call):
        return False
    c = w.body[0].value
    return (isinstance(c.func, ast.Name) and c.func.id == fname and len(c.args) == 2
            and isinstance(c.args[0], ast.Name) and c.args[0].id == "self"
            and isinstance(c.args[1], ast.Starred) and isinstance(c.args[1].value, ast.Name) and c.args[1].value.id == a.vararg.arg
            and len(c.keywords) == 1 and c.keywords[0].arg is None and isinstance(c.keywords[0].value, ast.Name)
            and c.keywords[0].value.id == a.kwarg.arg)


def _lock_ok(mod, cls):
    imported = any(isinstance(n, ast.ImportFrom) and n.module == "threading" and any(a.name == "Lock" and a.asname is None for a in n.names)
                   for n in mod.body)
    shadowed = any(isinstance(n, (ast.FunctionDef, ast.ClassDef)) and n.name == "Lock" for n in mod.body) or \
        any(isinstance(n, ast.Assign) and any(isinstance(t, ast.Name) and t.id == "Lock" for t in n.targets) for n in mod.body)
    init = next((n for n in cls.body if isinstance(n, ast.FunctionDef) and n.name == "__init__"), None)
    if init is None or not imported or shadowed:
        return False
    assigns = [n for n in ast.walk(init) if isinstance(n, ast.Assign) and any(_is_self_attr(t, {"_lock"}) for t in n.targets)]
    top = [n for n in init.body if n in assigns]
    if len(assigns) != 1 or len(top) != 1:
        return False
    v = assigns[0].value
    return isinstance(v, ast.Call) and isinstance(v.func, ast.Name) and v.func.id == "Lock" and not v.args and not v.keywords


def skeleton(repo):
    """Structured result (also used by harness/props/C16.py to map source lines to model steps)."""
    path = Path(repo) / "eliot" / "_output.py"
    mod = ast.parse(path.read_text())
    cls = next((n for n in mod.body if isinstance(n, ast.ClassDef) and n.name == "MemoryLogger"), None)
    res = dict(path=str(path), exclusively_ok=_exclusively_ok(mod), lock_ok=False, methods={}, problems=[])
    if cls is None:
        res["problems"].append("class MemoryLogger not found")
        return res
    res["lock_ok"] = _lock_ok(mod, cls)
    fns = [n for n in cls.body if isinstance(n, ast.FunctionDef)]
    names = {f.name for f in fns}
    for fn in fns:
        decos = fn.decorator_list
        locked = len(decos) == 1 and isinstance(decos[0], ast.Name) and decos[0].id == "exclusively"
        bad_deco = bool(decos) and not locked
        body = _strip_doc(fn.body)
        inline = False
        if (not decos and len(body) == 1 and isinstance(body[0], ast.With) and len(body[0].items) == 1
                and _is_self_attr(body[0].items[0].context_expr, {"_lock"}) and body[0].items[0].optional_vars is None):
            locked, inline, body = True, True, body[0].body
        acc = _Acc(fn, names)
        acc.stmts(body)
        out = []
        for kind, arg, cond, line in acc.out:
            if kind == "lockAssign":
                if fn.name == "__init__":
                    continue
                kind = "unknown"
            out.append((kind, arg, cond, line))
        if bad_deco:
            out.insert(0, ("unknown", None, False, fn.lineno))
        if fn.args.args[:1] and fn.args.args[0].arg != "self":
            out.insert(0, ("unknown", None, False, fn.lineno))
        if any(isinstance(n, (ast.Yield, ast.YieldFrom, ast.Await)) for n in ast.walk(fn)):
            out.insert(0, ("unknown", None, False, fn.lineno))
        res["methods"][fn.name] = dict(locked=bool(locked and (inline or res["exclusively_ok"])), decorated=bool(locked and not inline),
                                       inline=inline, accesses=out, first_line=body[0].lineno if body else fn.lineno,
                                       def_line=fn.lineno)
        if any(k == "unknown" for k, _, _, _ in out):
            res["problems"].append("unrecognised access shape in MemoryLogger.%s" % fn.name)
    res["aliases"] = {}
    for n in cls.body:  # aliases (`flush_tracebacks = flushTracebacks`) are the same function object: no own row
        if isinstance(n, ast.Assign) and isinstance(n.value, ast.Name) and n.value.id in res["methods"]:
            for t in n.targets:
                if isinstance(t, ast.Name):
                    res["aliases"][t.id] = n.value.id
    if not res["exclusively_ok"]:
        res["problems"].append("`exclusively` is not `with self._lock: return f(self, *a, **kw)`: decorated methods count as unlocked")
    if not res["lock_ok"]:
        res["problems"].append("MemoryLogger.__init__ does not assign `self._lock = threading.Lock()` exactly once")
    return res


def _lean_acc(a):
    kind, arg, cond, _ = a
    if kind == "append":
        return ".append .%s %s" % (arg, "true" if cond else "false")
    if kind in ("clear", "filterAssign", "read"):
        return ".%s .%s" % (kind, arg)
    if kind == "call":
        return '.call "%s"' % arg
    return ".unknown"


def extract(repo):
    sk = skeleton(repo)
    lines = ["import Eliot.Conc.Skel",
             "/-! GENERATED by harness/extractors/e1_memory_logger.py from eliot/_output.py - do not edit. -/", "namespace Eliot.Generated", "open Eliot.Conc.MemLog", "",
             "def exclusivelyOk : Bool := %s" % ("true" if sk["exclusively_ok"] else "false"),
             "def lockOk : Bool := %s" % ("true" if sk["lock_ok"] else "false"), "",
             "def memoryLogger : Table := ["]
    rows = []
    for name in sorted(sk["methods"]):
        m = sk["methods"][name]
        rows.append('  ("%s", { locked := %s, body := [%s] })' % (name, "true" if m["locked"] else "false",
                                                                 ", ".join(_lean_acc(a) for a in m["accesses"])))
    lines.append(",\n".join(rows))
    lines += ["]", "", "end Eliot.Generated", ""]
    report = dict(methods={n: dict(locked=m["locked"], accesses=len(m["accesses"])) for n, m in sk["methods"].items()},
                  exclusively_ok=sk["exclusively_ok"], lock_ok=sk["lock_ok"], aliases=sk.get("aliases", {}), problems=sk["problems"])
    return "MemLog.lean", "\n".join(lines), report
