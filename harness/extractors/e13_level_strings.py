"""E13: translator of the string forms of eliot/_action.py -> lean/Eliot/Generated/LevelStr.lean

`TaskLevel.fromString`, `TaskLevel.toString`, the format expression of `Action.serialize_task_id` and the decoding half of
`Action.continue_task` are translated from the current AST into Lean definitions over `List Char` / `List Nat`, in terms of the
string primitives of `Eliot/Model/Level.lean`, which give the *meaning* of the Python operations used (trusted, like `PyList` for E10):

    s.split(c)               Level.splitOn c s          (one-character separator)
    c.join(parts)            Level.joinWith c parts
    str(n), map(str, l)      Level.natDigits n, l.map Level.natDigits
    [int(i) for i in P if i] Level.mapNat? (P.filter (fun i => !i.isEmpty))      (`none` = `ValueError` or out of the model's domain)
    "c" + s                  c :: s
    "{}@{}".format(a, b)     a ++ '@' :: b
    x.encode("ascii") / x.decode("ascii")      Level.encodeAscii / Level.decodeAscii
    a, b = s.split(c)        match Level.splitOn c s with | [a, b] => ... | _ => none

`lean/Eliot/Properties/C06TL.lean` proves that the translated functions *are* `Level.fromChars`, `Level.toChars`,
`Level.serializeTaskId(Bytes)`, `Level.parseTaskId(Bytes)` - the functions C06's round-trip theorems are about - so those theorems are
re-checked against what the code says now.  A shape outside the subset becomes `PyList.unrecognised`.
"""
import ast
from pathlib import Path


class Unrecognised(Exception):
    pass


def body_of(fn):
    b = list(fn.body)
    if b and isinstance(b[0], ast.Expr) and isinstance(b[0].value, ast.Constant) and isinstance(b[0].value.value, str):
        b = b[1:]
    return b


def char_lit(e):
    if isinstance(e, ast.Constant) and isinstance(e.value, str) and len(e.value) == 1 and e.value not in "'\\":
        return "'%s'" % e.value
    raise Unrecognised("one-character string expected: %s" % ast.unparse(e))


def chars(e, env):
    """expression of type str -> Lean `List Char` term"""
    if isinstance(e, ast.Name) and e.id in env:
        return env[e.id]
    if isinstance(e, ast.BinOp) and isinstance(e.op, ast.Add):
        return "(%s :: %s)" % (char_lit(e.left), chars(e.right, env))
    if isinstance(e, ast.Call) and isinstance(e.func, ast.Attribute) and e.func.attr == "join" and len(e.args) == 1 and not e.keywords:
        return "(Level.joinWith %s %s)" % (char_lit(e.func.value), parts(e.args[0], env))
    if isinstance(e, ast.Call) and isinstance(e.func, ast.Attribute) and e.func.attr == "toString" and not e.args:
        return "(toString %s)" % level(e.func.value, env)
    raise Unrecognised("string expression %s" % ast.unparse(e))


def parts(e, env):
    """expression of type iterable-of-str -> Lean `List (List Char)`"""
    if isinstance(e, ast.Call) and isinstance(e.func, ast.Name) and e.func.id == "map" and len(e.args) == 2 and ast.unparse(e.args[0]) == "str":
        return "((%s).map Level.natDigits)" % level(e.args[1], env)
    if isinstance(e, ast.Call) and isinstance(e.func, ast.Attribute) and e.func.attr == "split" and len(e.args) == 1 and not e.keywords:
        return "(Level.splitOn %s %s)" % (char_lit(e.args[0]), chars(e.func.value, env))
    raise Unrecognised("parts expression %s" % ast.unparse(e))


def level(e, env):
    """expression of type list of int / TaskLevel -> Lean `List Nat`"""
    s = ast.unparse(e)
    if s == "self._level":
        return "self"
    if s == "self._nextTaskLevel()":
        return "nextLevel"
    raise Unrecognised("level expression %s" % s)


def from_string(fn):
    b = body_of(fn)
    if len(b) != 1 or not isinstance(b[0], ast.Return):
        raise Unrecognised("fromString: one return expected")
    e = b[0].value
    if not (isinstance(e, ast.Call) and ast.unparse(e.func) == "cls" and not e.args and len(e.keywords) == 1 and e.keywords[0].arg == "level"):
        raise Unrecognised("fromString: cls(level=...) expected")
    lc = e.keywords[0].value
    if not (isinstance(lc, ast.ListComp) and len(lc.generators) == 1):
        raise Unrecognised("fromString: one list comprehension expected")
    g = lc.generators[0]
    var = g.target.id if isinstance(g.target, ast.Name) else None
    if var is None or g.is_async or ast.unparse(lc.elt) != "int(%s)" % var:
        raise Unrecognised("fromString: [int(i) for i in ...] expected")
    src = parts(g.iter, {"string": "string"})
    if len(g.ifs) == 0:
        flt = src
    elif len(g.ifs) == 1 and ast.unparse(g.ifs[0]) == var:
        flt = "(%s.filter (fun i => !i.isEmpty))" % src
    else:
        raise Unrecognised("fromString: filter %s" % [ast.unparse(x) for x in g.ifs])
    return "Level.mapNat? %s" % flt


def to_string(fn):
    b = body_of(fn)
    if len(b) != 1 or not isinstance(b[0], ast.Return):
        raise Unrecognised("toString: one return expected")
    return chars(b[0].value, {})


def serialize(fn):
    b = body_of(fn)
    if len(b) != 1 or not isinstance(b[0], ast.Return):
        raise Unrecognised("serialize_task_id: one return expected")
    e = b[0].value
    if not (isinstance(e, ast.Call) and isinstance(e.func, ast.Attribute) and e.func.attr == "encode" and [ast.unparse(a) for a in e.args] == ["'ascii'"]):
        raise Unrecognised("serialize_task_id: .encode('ascii') expected")
    f = e.func.value
    if not (isinstance(f, ast.Call) and isinstance(f.func, ast.Attribute) and f.func.attr == "format" and ast.unparse(f.func.value) == "'{}@{}'" and len(f.args) == 2):
        raise Unrecognised("serialize_task_id: '{}@{}'.format(a, b) expected")
    if ast.unparse(f.args[0]) != "self._identification[TASK_UUID_FIELD]":
        raise Unrecognised("serialize_task_id: first argument %s" % ast.unparse(f.args[0]))
    second = chars(f.args[1], {})
    return "Level.encodeAscii (uuid ++ '@' :: %s)" % second


def continue_task(fn):
    """the statements between the RuntimeError guard and the construction of the action"""
    b = [ast.unparse(x) for x in body_of(fn)]
    want = ["if task_id is _TASK_ID_NOT_SUPPLIED:\n    raise RuntimeError('You must supply a task_id keyword argument.')",
            "if isinstance(task_id, bytes):\n    task_id = task_id.decode('ascii')",
            "uuid, task_level = task_id.split('@')",
            "action = cls(logger, uuid, TaskLevel.fromString(task_level), action_type, _serializers)",
            "action._start(fields)",
            "return action"]
    if b != want:
        raise Unrecognised("continue_task: body has another shape")
    text = "match Level.splitOn '@' task_id with\n  | [uuid, task_level] => (match fromString task_level with | some lv => some (uuid, lv) | none => none)\n  | _ => none"
    byts = "match Level.decodeAscii task_id with\n  | some s => parseText s\n  | none => none"
    return text, byts


def extract(repo):
    repo = Path(repo)
    problems = []
    out = {}
    try:
        tree = ast.parse((repo / "eliot" / "_action.py").read_text())
        classes = {n.name: n for n in tree.body if isinstance(n, ast.ClassDef)}
        tl = {m.name: m for m in classes["TaskLevel"].body if isinstance(m, ast.FunctionDef)}
        ac = {m.name: m for m in classes["Action"].body if isinstance(m, ast.FunctionDef)}
    except Exception as e:  # noqa
        problems.append("_action.py: %s" % type(e).__name__)
        tl, ac = {}, {}
    for key, fn, table, name in (("fromString", from_string, tl, "fromString"), ("toString", to_string, tl, "toString"),
                                 ("serialize", serialize, ac, "serialize_task_id"), ("continue", continue_task, ac, "continue_task")):
        try:
            out[key] = fn(table[name])
        except Unrecognised as e:
            problems.append(str(e))
            out[key] = None
        except KeyError:
            problems.append("%s not found" % name)
            out[key] = None
    U = "PyList.unrecognised"
    ct = out["continue"] or (U, U)
    lean = ["import Eliot.Model.PyList", "import Eliot.Model.Level",
            "/-! GENERATED by harness/extractors/e13_level_strings.py: the string forms of task levels and task ids in eliot/_action.py,",
            "translated from the current source - do not edit. -/", "namespace Eliot.Generated.LevelStr", "",
            "/-- `TaskLevel.fromString` -/", "def fromString (string : List Char) : Option (List Nat) :=", "  " + (out["fromString"] or U), "",
            "/-- `TaskLevel.toString` -/", "def toString (self : List Nat) : List Char :=", "  " + (out["toString"] or U), "",
            "/-- `Action.serialize_task_id`: `uuid` = `self._identification[TASK_UUID_FIELD]`, `nextLevel` = what `self._nextTaskLevel()` returns -/",
            "def serializeTaskId (uuid : List Char) (nextLevel : List Nat) : Option (List Nat) :=", "  " + (out["serialize"] or U), "",
            "/-- `Action.continue_task`, a `str` id: the unpacking and `TaskLevel.fromString` (`none` = it raises) -/",
            "def parseText (task_id : List Char) : Option (List Char × List Nat) :=", "  " + ct[0], "",
            "/-- `Action.continue_task`, a `bytes` id -/",
            "def parseBytes (task_id : List Nat) : Option (List Char × List Nat) :=", "  " + ct[1], "",
            "end Eliot.Generated.LevelStr", ""]
    return "LevelStr.lean", "\n".join(lean), dict(problems=problems, translated={k: bool(v) for k, v in out.items()})
