"""E16: bodies of four small functions the models transcribe by hand -> lean/Eliot/Generated/Shapes.lean

`_MessageSerializer.serialize`, `_MessageSerializer.validate` (eliot/_validation.py), `ErrorExtraction.get_fields_for_exception` and
`ErrorExtraction.register_exception_extractor` (eliot/_errors.py), each as the list of its statements, normalised by `ast.unparse`
(docstrings and comments gone, formatting canonical) after alpha-renaming of everything the function binds itself (parameters, locals,
loop variables, names imported inside), so that neither reformatting nor renaming a local changes the extracted shape.  `lean/Eliot/Properties/ShapesSkel.lean` fixes them to the shapes
`Model/Sys.lean` (`serializeFields`, `World.getFields` / `firstExtractor`) and `Model/Validation.lean` (`validateMsg`) are written
after; a source change shows up as a failing `rfl`.  Not a translation into executable definitions (E10, E12-E14 are): a skeleton.
"""
import ast
from pathlib import Path


def q(s):
    return '"' + s.replace("\\", "\\\\").replace('"', '\\"').replace("\n", "\\n") + '"'


class _Rename(ast.NodeTransformer):
    """alpha-renaming of what a function binds itself (parameters other than self / cls, assigned names, loop and `with` targets,
    `except ... as` names, names imported inside the body, nested function names): v0, v1, ... in order of first binding, so that
    renaming a local does not change the extracted shape"""

    def __init__(self, fn):
        self.map = {}
        for a in fn.args.posonlyargs + fn.args.args + fn.args.kwonlyargs + [x for x in (fn.args.vararg, fn.args.kwarg) if x]:
            if a.arg not in ("self", "cls", "klass", "_class"):
                self._bind(a.arg)
        for n in ast.walk(fn):
            if isinstance(n, ast.Name) and isinstance(n.ctx, (ast.Store, ast.Del)):
                self._bind(n.id)
            elif isinstance(n, ast.ExceptHandler) and n.name:
                self._bind(n.name)
            elif isinstance(n, (ast.Import, ast.ImportFrom)):
                for al in n.names:
                    self._bind((al.asname or al.name).split(".")[0])
            elif isinstance(n, (ast.FunctionDef, ast.AsyncFunctionDef)) and n is not fn:
                self._bind(n.name)
                for a in n.args.posonlyargs + n.args.args + n.args.kwonlyargs + [x for x in (n.args.vararg, n.args.kwarg) if x]:
                    if a.arg not in ("self", "cls"):
                        self._bind(a.arg)

    def _bind(self, name):
        if name not in self.map:
            self.map[name] = "v%d" % len(self.map)

    def visit_Name(self, node):
        if node.id in self.map:
            node.id = self.map[node.id]
        return node

    def visit_arg(self, node):
        if node.arg in self.map:
            node.arg = self.map[node.arg]
        return node

    def visit_ExceptHandler(self, node):
        if node.name in self.map:
            node.name = self.map[node.name]
        self.generic_visit(node)
        return node

    def visit_FunctionDef(self, node):
        if node.name in self.map:
            node.name = self.map[node.name]
        self.generic_visit(node)
        return node

    def visit_alias(self, node):
        key = (node.asname or node.name).split(".")[0]
        if key in self.map:
            node.asname = self.map[key]
        return node

    def visit_keyword(self, node):
        # keyword argument names belong to the callee's interface: kept; `**v` has none
        self.generic_visit(node)
        return node


def body_strings(fn):
    import copy
    fn = copy.deepcopy(fn)
    r = _Rename(fn)
    outer = fn.name
    fn = r.visit(fn)
    fn.name = outer
    b = list(fn.body)
    if b and isinstance(b[0], ast.Expr) and isinstance(b[0].value, ast.Constant) and isinstance(b[0].value.value, str):
        b = b[1:]
    return [ast.unparse(x) for x in b]


def methods(repo, rel, cls):
    tree = ast.parse((Path(repo) / "eliot" / rel).read_text())
    c = [n for n in tree.body if isinstance(n, ast.ClassDef) and n.name == cls][0]
    return {m.name: m for m in c.body if isinstance(m, ast.FunctionDef)}


def module_function(repo, rel, name):
    tree = ast.parse((Path(repo) / "eliot" / rel).read_text())
    return [n for n in tree.body if isinstance(n, ast.FunctionDef) and n.name == name][0]


# the test helpers (C17) and the bundled readers (C20)
MORE = [("loggedActionFromMessages", "testing.py", "LoggedAction", "fromMessages"), ("loggedActionOfType", "testing.py", "LoggedAction", "of_type"),
        ("loggedActionDescendants", "testing.py", "LoggedAction", "descendants"), ("loggedMessageOfType", "testing.py", "LoggedMessage", "of_type"),
        ("assertContainsFieldsBody", "testing.py", None, "assertContainsFields"), ("assertHasMessageBody", "testing.py", None, "assertHasMessage"),
        ("assertHasActionBody", "testing.py", None, "assertHasAction"),
        ("prettyFormatBody", "prettyprint.py", None, "pretty_format"), ("compactFormatBody", "prettyprint.py", None, "compact_format"),
        ("prettyMainBody", "prettyprint.py", None, "_main"), ("filterRunBody", "filter.py", "EliotFilter", "run"),
        # the JSON default hook and the file destination's mode detection (C10), log_call (C18), (un)registration and global
        # fields (C12), the lock decorator of MemoryLogger (C16)
        ("jsonDefaultBody", "json.py", None, "json_default"), ("fileDestinationNewBody", "_output.py", "FileDestination", "__new__"),
        ("logCallBody", "_action.py", None, "log_call"), ("destinationsRemoveBody", "_output.py", "Destinations", "remove"),
        ("addGlobalFieldsBody", "_output.py", "Destinations", "addGlobalFields"), ("exclusivelyBody", "_output.py", None, "exclusively")]


def extract(repo):
    problems = []
    out = {}
    for key, rel, cls, name in (("serializeBody", "_validation.py", "_MessageSerializer", "serialize"),
                                ("validateBody", "_validation.py", "_MessageSerializer", "validate"),
                                ("extractorLookupBody", "_errors.py", "ErrorExtraction", "get_fields_for_exception"),
                                ("registerBody", "_errors.py", "ErrorExtraction", "register_exception_extractor")):
        try:
            out[key] = body_strings(methods(repo, rel, cls)[name])
        except Exception as e:  # noqa
            problems.append("%s.%s: %s" % (cls, name, type(e).__name__))
            out[key] = ["<unreadable>"]
    for key, rel, cls, name in MORE:
        try:
            fn = methods(repo, rel, cls)[name] if cls else module_function(repo, rel, name)
            out[key] = body_strings(fn)
        except Exception as e:  # noqa
            problems.append("%s: %s" % (name, type(e).__name__))
            out[key] = ["<unreadable>"]
    lean = ["/-! GENERATED by harness/extractors/e16_shapes.py: statement lists of small functions of eliot/_validation.py and eliot/_errors.py - do not edit. -/",
            "namespace Eliot.Generated.Shapes", ""]
    for key in ["serializeBody", "validateBody", "extractorLookupBody", "registerBody"] + [m[0] for m in MORE]:
        lean += ["def %s : List String := [%s]" % (key, ", ".join(q(x) for x in out[key])), ""]
    lean += ["end Eliot.Generated.Shapes", ""]
    return "Shapes.lean", "\n".join(lean), dict(problems=problems, bodies=out)
