"""E7: how eliot/_action.py holds the current action.

Extracted facts:
  isContextVar            `_ACTION_CONTEXT = ContextVar(...)` at module level, `ContextVar` imported from `contextvars`
  otherUses               occurrences of the name `_ACTION_CONTEXT` in _action.py that are not the callee
                          `_ACTION_CONTEXT.get(..)` / `.set(..)` / `.reset(..)` (nor the defining assignment)
  gets / sets / resets    number of such calls
  currentActionIsGet      `current_action()` is `return _ACTION_CONTEXT.get(None)`
  foreignUses             occurrences of the name in other non-test modules of the package
  pairedResets            number of `.reset(x)` calls whose argument `x` is the very expression a `.set(..)` result is assigned to
                          in the same function (a local like `parent`) or, for `self.<attr>`, in a method of the same class
"""
import ast

FILE = "eliot/_action.py"
NAME = "_ACTION_CONTEXT"


def extract(repo):
    rep = {"file": FILE}
    f = dict(isContextVar=False, otherUses=99, gets=0, sets=0, resets=0, currentActionIsGet=False, foreignUses=99, pairedResets=0)
    try:
        tree = ast.parse((repo / FILE).read_text())
        imported = any(isinstance(n, ast.ImportFrom) and n.module == "contextvars" and any(a.name == "ContextVar" and a.asname is None for a in n.names)
                       for n in tree.body)
        defs = [n for n in tree.body if isinstance(n, ast.Assign) and len(n.targets) == 1 and isinstance(n.targets[0], ast.Name) and n.targets[0].id == NAME]
        f["isContextVar"] = bool(imported and len(defs) == 1 and isinstance(defs[0].value, ast.Call) and isinstance(defs[0].value.func, ast.Name)
                                 and defs[0].value.func.id == "ContextVar")
        stores = [n for n in ast.walk(tree) if isinstance(n, ast.Name) and n.id == NAME and not isinstance(n.ctx, ast.Load)]
        loads = [n for n in ast.walk(tree) if isinstance(n, ast.Name) and n.id == NAME and isinstance(n.ctx, ast.Load)]
        good = set()
        for c in ast.walk(tree):
            if (isinstance(c, ast.Call) and isinstance(c.func, ast.Attribute) and isinstance(c.func.value, ast.Name) and c.func.value.id == NAME
                    and c.func.attr in ("get", "set", "reset")):
                good.add(id(c.func.value))
                f[c.func.attr + "s"] += 1
        globals_ = [n for n in ast.walk(tree) if isinstance(n, (ast.Global, ast.Nonlocal)) and NAME in n.names]
        f["otherUses"] = len([n for n in loads if id(n) not in good]) + (len(stores) - len(defs)) + len(globals_)
        ca = next(n for n in tree.body if isinstance(n, ast.FunctionDef) and n.name == "current_action")
        body = [n for n in ca.body if not (isinstance(n, ast.Expr) and isinstance(n.value, ast.Constant))]
        f["currentActionIsGet"] = bool(len(body) == 1 and isinstance(body[0], ast.Return) and isinstance(body[0].value, ast.Call)
                                       and isinstance(body[0].value.func, ast.Attribute) and body[0].value.func.attr == "get"
                                       and isinstance(body[0].value.func.value, ast.Name) and body[0].value.func.value.id == NAME
                                       and len(body[0].value.args) == 1 and isinstance(body[0].value.args[0], ast.Constant)
                                       and body[0].value.args[0].value is None)
        def is_call(n, attr):
            return (isinstance(n, ast.Call) and isinstance(n.func, ast.Attribute) and isinstance(n.func.value, ast.Name)
                    and n.func.value.id == NAME and n.func.attr == attr)

        def set_targets(scope):
            return {ast.dump(n.targets[0]).replace("Store()", "Load()") for n in ast.walk(scope)
                    if isinstance(n, ast.Assign) and len(n.targets) == 1 and is_call(n.value, "set")}

        paired = 0
        for cls in [n for n in ast.walk(tree) if isinstance(n, ast.ClassDef)] + [tree]:
            cls_targets = {t for t in set_targets(cls) if "Attribute" in t} if isinstance(cls, ast.ClassDef) else set()
            fns = [n for n in (cls.body if isinstance(cls, ast.ClassDef) else tree.body) if isinstance(n, (ast.FunctionDef, ast.AsyncFunctionDef))]
            for fn in fns:
                local = set_targets(fn)
                for c in ast.walk(fn):
                    if is_call(c, "reset") and len(c.args) == 1 and not c.keywords:
                        d = ast.dump(c.args[0])
                        if d in local or d in cls_targets:
                            paired += 1
        f["pairedResets"] = paired
        foreign = 0
        for p in sorted((repo / "eliot").glob("*.py")):
            if p.name == "_action.py":
                continue
            try:
                t = ast.parse(p.read_text())
            except SyntaxError:
                foreign += 1
                continue
            foreign += len([n for n in ast.walk(t) if (isinstance(n, ast.Name) and n.id == NAME) or (isinstance(n, ast.Attribute) and n.attr == NAME)
                            or (isinstance(n, ast.alias) and n.name == NAME)])
        f["foreignUses"] = foreign
    except Exception as e:  # noqa - unrecognised shape: the obligation must fail, not the harness
        rep["error"] = "%s: %s" % (type(e).__name__, e)
    rep.update(f)
    b = lambda x: "true" if x else "false"
    src = """/-! GENERATED by harness/extractors/e7_action_context.py from %s — do not edit. -/
namespace Eliot.Generated

structure ActionContextSkel where
  isContextVar : Bool
  otherUses : Nat
  gets : Nat
  sets : Nat
  resets : Nat
  currentActionIsGet : Bool
  foreignUses : Nat
  pairedResets : Nat
deriving DecidableEq, Repr

def actionContext : ActionContextSkel :=
  { isContextVar := %s, otherUses := %d, gets := %d, sets := %d, resets := %d, currentActionIsGet := %s, foreignUses := %d, pairedResets := %d }

end Eliot.Generated
""" % (FILE, b(f["isContextVar"]), f["otherUses"], f["gets"], f["sets"], f["resets"], b(f["currentActionIsGet"]), f["foreignUses"], f["pairedResets"])
    return "ActionContext.lean", src, rep
