"""
E8: `Destinations.send` / `Destinations.add` / `BufferingDestination.__call__`  ->  lean/Eliot/Generated/Handover.lean

Statement skeletons (in source order) of the three functions involved in the hand-over from
start-up buffering to real destinations (property C12, concurrent clause):
  add  : initNone                       `buffered_messages = None`
         ifFirstAdd n                   `if not self._any_added:` followed by the n statements of its body:
           setAnyAdded                  `self._any_added = True`
           takeBuffer                   `buffered_messages = self._destinations[0].messages`   (a reference, not a copy)
           swapDests                    `self._destinations = []`
         extendDests                    `self._destinations.extend(destinations)`
         ifBufferedResend               `if buffered_messages: for message in buffered_messages: self.send(message)`
  send : updateGlobals, localAssign*, forDestsCall (`for dest in self._destinations: try: dest(message) except Exception ...`),
         reportErrors (`for exception in errors: ...`)
  buffer call: append, trim             `self.messages.append(message)`; `while len(self.messages) > 1000: self.messages.pop(0)`
  locked : does any of the three functions use a lock (`with <something>lock<something>:`) - the pinned tree has none
Anything else -> `.unknown`.  Also returns the line numbers the harness needs to map executed
source lines to model steps.
"""
import ast
from pathlib import Path


def _strip_doc(body):
    if body and isinstance(body[0], ast.Expr) and isinstance(body[0].value, ast.Constant) and isinstance(body[0].value.value, str):
        return body[1:]
    return body


def _self_attr(n, name):
    return isinstance(n, ast.Attribute) and isinstance(n.value, ast.Name) and n.value.id == "self" and n.attr == name


def _is_name(n, ident=None):
    return isinstance(n, ast.Name) and (ident is None or n.id == ident)


def _add_ops(fn, lines):
    ops = []
    body = _strip_doc(fn.body)
    star = fn.args.vararg.arg if fn.args.vararg else None
    bufvar = None
    for s in body:
        if isinstance(s, ast.Assign) and len(s.targets) == 1 and _is_name(s.targets[0]) and isinstance(s.value, ast.Constant) and s.value.value is None:
            bufvar = s.targets[0].id
            ops.append("initNone")
            lines.setdefault("add", []).append(s.lineno)
        elif (isinstance(s, ast.If) and isinstance(s.test, ast.UnaryOp) and isinstance(s.test.op, ast.Not) and _self_attr(s.test.operand, "_any_added")
              and not s.orelse):
            inner = []
            for b in s.body:
                if (isinstance(b, ast.Assign) and len(b.targets) == 1 and _self_attr(b.targets[0], "_any_added")
                        and isinstance(b.value, ast.Constant) and b.value.value is True):
                    inner.append("setAnyAdded")
                elif (isinstance(b, ast.Assign) and len(b.targets) == 1 and _is_name(b.targets[0], bufvar) and isinstance(b.value, ast.Attribute)
                      and b.value.attr == "messages" and isinstance(b.value.value, ast.Subscript) and _self_attr(b.value.value.value, "_destinations")
                      and isinstance(b.value.value.slice, ast.Constant) and b.value.value.slice.value == 0):
                    inner.append("takeBuffer")
                elif (isinstance(b, ast.Assign) and len(b.targets) == 1 and _self_attr(b.targets[0], "_destinations")
                      and isinstance(b.value, ast.List) and not b.value.elts):
                    inner.append("swapDests")
                    lines["swap"] = b.lineno
                else:
                    inner.append("unknown")
                lines.setdefault("add", []).append(b.lineno)
            ops.append("ifFirstAdd %d" % len(inner))
            lines.setdefault("add", []).insert(len(lines["add"]) - len(inner), s.lineno)
            ops.extend(inner)
        elif (isinstance(s, ast.Expr) and isinstance(s.value, ast.Call) and isinstance(s.value.func, ast.Attribute) and s.value.func.attr == "extend"
              and _self_attr(s.value.func.value, "_destinations") and len(s.value.args) == 1 and _is_name(s.value.args[0], star)):
            ops.append("extendDests")
            lines.setdefault("add", []).append(s.lineno)
            lines["extend"] = s.lineno
        elif (isinstance(s, ast.If) and _is_name(s.test, bufvar) and not s.orelse and len(s.body) == 1 and isinstance(s.body[0], ast.For)
              and _is_name(s.body[0].iter, bufvar) and _is_name(s.body[0].target) and len(s.body[0].body) == 1 and not s.body[0].orelse
              and isinstance(s.body[0].body[0], ast.Expr) and isinstance(s.body[0].body[0].value, ast.Call)
              and _self_attr(s.body[0].body[0].value.func, "send") and len(s.body[0].body[0].value.args) == 1
              and _is_name(s.body[0].body[0].value.args[0], s.body[0].target.id)):
            ops.append("ifBufferedResend")
            lines.setdefault("add", []).append(s.lineno)
            lines["resend_for"] = s.body[0].lineno
            lines["resend_send"] = s.body[0].body[0].lineno
        else:
            ops.append("unknown")
            lines.setdefault("add", []).append(s.lineno)
    return ops


def _send_ops(fn, lines):
    ops = []
    body = _strip_doc(fn.body)
    msg = fn.args.args[1].arg if len(fn.args.args) > 1 else None
    lines["send_first"] = body[0].lineno if body else fn.lineno
    for s in body:
        if (isinstance(s, ast.Expr) and isinstance(s.value, ast.Call) and isinstance(s.value.func, ast.Attribute) and s.value.func.attr == "update"
                and _is_name(s.value.func.value, msg) and len(s.value.args) == 1 and _self_attr(s.value.args[0], "_globalFields")):
            ops.append("updateGlobals")
        elif isinstance(s, ast.Assign) and all(_is_name(t) for t in s.targets) and not any(
                isinstance(n, ast.Attribute) and isinstance(n.value, ast.Name) and n.value.id == "self" for n in ast.walk(s.value)):
            ops.append("localAssign")
        elif (isinstance(s, ast.For) and _self_attr(s.iter, "_destinations") and _is_name(s.target) and not s.orelse and len(s.body) == 1
              and isinstance(s.body[0], ast.Try) and len(s.body[0].body) == 1 and isinstance(s.body[0].body[0], ast.Expr)
              and isinstance(s.body[0].body[0].value, ast.Call) and _is_name(s.body[0].body[0].value.func, s.target.id)
              and len(s.body[0].body[0].value.args) == 1 and _is_name(s.body[0].body[0].value.args[0], msg)
              and len(s.body[0].handlers) == 1 and _is_name(s.body[0].handlers[0].type, "Exception")
              and not any(isinstance(n, ast.Attribute) and isinstance(n.value, ast.Name) and n.value.id == "self" for h in s.body[0].handlers for n in ast.walk(h))):
            ops.append("forDestsCall")
            lines["send_for"] = s.lineno
            lines["send_call"] = s.body[0].body[0].lineno
        elif isinstance(s, ast.For) and _is_name(s.iter) and not any(_self_attr(n, "_destinations") or _self_attr(n, "_any_added") for n in ast.walk(s)):
            ops.append("reportErrors")
        else:
            ops.append("unknown")
    return ops


def _buffer_ops(fn):
    ops = []
    msg = fn.args.args[1].arg if len(fn.args.args) > 1 else None
    for s in _strip_doc(fn.body):
        if (isinstance(s, ast.Expr) and isinstance(s.value, ast.Call) and isinstance(s.value.func, ast.Attribute) and s.value.func.attr == "append"
                and _self_attr(s.value.func.value, "messages") and len(s.value.args) == 1 and _is_name(s.value.args[0], msg)):
            ops.append("append")
        elif isinstance(s, ast.While) and any(isinstance(n, ast.Attribute) and n.attr == "pop" and _self_attr(n.value, "messages") for n in ast.walk(s)):
            ops.append("trim")
        else:
            ops.append("unknown")
    return ops


def skeleton(repo):
    path = Path(repo) / "eliot" / "_output.py"
    mod = ast.parse(path.read_text())
    res = dict(path=str(path), add=["unknown"], send=["unknown"], buffer=["unknown"], locked=False, lines={}, problems=[])
    dcls = next((n for n in mod.body if isinstance(n, ast.ClassDef) and n.name == "Destinations"), None)
    bcls = next((n for n in mod.body if isinstance(n, ast.ClassDef) and n.name == "BufferingDestination"), None)
    if dcls is None or bcls is None:
        res["problems"].append("Destinations / BufferingDestination not found")
        return res
    fns = {n.name: n for n in dcls.body if isinstance(n, ast.FunctionDef)}
    bfn = next((n for n in bcls.body if isinstance(n, ast.FunctionDef) and n.name == "__call__"), None)
    if "add" in fns:
        res["add"] = _add_ops(fns["add"], res["lines"])
    if "send" in fns:
        res["send"] = _send_ops(fns["send"], res["lines"])
    if bfn is not None:
        res["buffer"] = _buffer_ops(bfn)
        res["lines"]["buffer_append"] = _strip_doc(bfn.body)[0].lineno if _strip_doc(bfn.body) else bfn.lineno
    for fn in [fns.get("add"), fns.get("send"), bfn]:
        if fn is not None and (fn.decorator_list or any(isinstance(n, ast.With) for n in ast.walk(fn))):
            res["locked"] = True
    for k in ("add", "send", "buffer"):
        if "unknown" in res[k]:
            res["problems"].append("unrecognised statement in %s" % k)
    return res


def extract(repo):
    sk = skeleton(repo)
    l = lambda ops, pre: "[" + ", ".join("%s.%s" % (pre, o) for o in ops) + "]"  # noqa
    src = "\n".join([
        "import Eliot.Conc.HandoverSkel",
        "/-! GENERATED by harness/extractors/e8_handover.py from eliot/_output.py - do not edit. -/",
        "namespace Eliot.Generated", "open Eliot.Conc.Handover", "",
        "def handover : HandoverSkel :=",
        "  { add := %s," % l(sk["add"], "AOp"),
        "    send := %s," % l(sk["send"], "SOp"),
        "    buffer := %s," % l(sk["buffer"], "BOp"),
        "    locked := %s }" % ("true" if sk["locked"] else "false"),
        "", "end Eliot.Generated", ""])
    return "Handover.lean", src, dict(add=sk["add"], send=sk["send"], buffer=sk["buffer"], locked=sk["locked"], problems=sk["problems"])
