"""
E8: `Destinations.send` / `_send_to` / `add` and `BufferingDestination.__call__` / `drain`
    ->  lean/Eliot/Generated/Handover.lean

Statement skeletons (in source order) of the functions involved in the hand-over from start-up
buffering to real destinations (property C12, concurrent clause).  Two shapes are recognised
statement by statement - the pinned one (`Handover.pinnedSkel`) and the repaired one
(`Handover.fixedSkel`); anything else becomes `.unknown`:

  add    : initNone | ifFirstAdd n | ifFirstAddElse a b | setAnyAdded | takeBuffer | takeBufferDest | swapDests |
           mkNewList | drainForward | assignDests | extendDests | ifBufferedResend
  send / _send_to : updateGlobals | localAssign | forDestsCall | reportErrors | delegateSendTo
  __call__ / drain: append | trim | lockedAppendElseFall | forwardCall | lockedSetForwardTakeResend
  lock   : what BufferingDestination.__init__ assigns to self._lock (none / Lock() / RLock() / other)
Also returns the line numbers the harness needs to map executed source lines to model steps
(`skeleton(repo)["lines"]`) and `shape` in {"pinned", "fixed", "unknown"}.
"""
import ast
from pathlib import Path


def _strip_doc(body):
    if body and isinstance(body[0], ast.Expr) and isinstance(body[0].value, ast.Constant) and isinstance(body[0].value.value, str):
        return body[1:]
    return body


def _self_attr(n, name):
    return isinstance(n, ast.Attribute) and isinstance(n.value, ast.Name) and n.value.id == "self" and n.attr == name


def _is_name(n, ident=None):
    return isinstance(n, ast.Name) and (ident is None or n.id == ident)


def _mentions_self(n):
    return any(isinstance(x, ast.Attribute) and isinstance(x.value, ast.Name) and x.value.id == "self" for x in ast.walk(n))


def _call_of(s, pred, nargs=None, kw=False):
    v = s.value if isinstance(s, ast.Expr) else s
    return isinstance(v, ast.Call) and pred(v.func) and (nargs is None or len(v.args) == nargs) and (kw or not v.keywords)


PINNED = dict(add=["initNone", "ifFirstAdd 3", "setAnyAdded", "takeBuffer", "swapDests", "extendDests", "ifBufferedResend"],
              send=["updateGlobals", "localAssign", "localAssign", "forDestsCall", "reportErrors"], sendTo=[],
              buffer=["append", "trim"], drain=[], lock="none")
FIXED = dict(add=["ifFirstAddElse 5 1", "setAnyAdded", "takeBufferDest", "mkNewList", "drainForward", "assignDests", "extendDests"],
             send=["delegateSendTo"], sendTo=["updateGlobals", "localAssign", "localAssign", "forDestsCall", "reportErrors"],
             buffer=["lockedAppendElseFall", "forwardCall"], drain=["lockedSetForwardTakeResend"], lock="rlock")


def _add_stmt(s, ctx, lines):
    """Classify one statement of `add` (inside or outside the `if not self._any_added` block)."""
    star = ctx["star"]
    if isinstance(s, ast.Assign) and len(s.targets) == 1:
        t, v = s.targets[0], s.value
        if _is_name(t) and isinstance(v, ast.Constant) and v.value is None:
            ctx["bufvar"] = t.id
            return "initNone"
        if _self_attr(t, "_any_added") and isinstance(v, ast.Constant) and v.value is True:
            lines["set_any_added"] = s.lineno
            return "setAnyAdded"
        if (_is_name(t) and isinstance(v, ast.Attribute) and v.attr == "messages" and isinstance(v.value, ast.Subscript)
                and _self_attr(v.value.value, "_destinations") and isinstance(v.value.slice, ast.Constant) and v.value.slice.value == 0
                and t.id == ctx.get("bufvar")):
            return "takeBuffer"
        if (_is_name(t) and isinstance(v, ast.Subscript) and _self_attr(v.value, "_destinations")
                and isinstance(v.slice, ast.Constant) and v.slice.value == 0):
            ctx["bufdest"] = t.id
            lines["take_buffer_dest"] = s.lineno
            return "takeBufferDest"
        if _self_attr(t, "_destinations") and isinstance(v, ast.List) and not v.elts:
            lines["swap"] = s.lineno
            return "swapDests"
        if _is_name(t) and _call_of(v, lambda f: _is_name(f, "list"), 1) and _is_name(v.args[0], star):
            ctx["newvar"] = t.id
            lines["mk_new"] = s.lineno
            return "mkNewList"
        if _self_attr(t, "_destinations") and _is_name(v, ctx.get("newvar")) and ctx.get("newvar"):
            lines["assign_dests"] = s.lineno
            return "assignDests"
        return "unknown"
    if isinstance(s, ast.Expr) and isinstance(s.value, ast.Call):
        c = s.value
        f = c.func
        if (isinstance(f, ast.Attribute) and f.attr == "extend" and _self_attr(f.value, "_destinations") and len(c.args) == 1
                and _is_name(c.args[0], star) and not c.keywords):
            lines["extend"] = s.lineno
            return "extendDests"
        if (isinstance(f, ast.Attribute) and f.attr == "drain" and _is_name(f.value, ctx.get("bufdest")) and ctx.get("bufdest")
                and len(c.args) == 1 and not c.keywords and isinstance(c.args[0], ast.Lambda)):
            lam = c.args[0]
            la = lam.args
            if (len(la.args) == 1 and not la.vararg and not la.kwarg and not la.defaults
                    and _call_of(lam.body, lambda g: _self_attr(g, "_send_to"), 2)
                    and _is_name(lam.body.args[0], ctx.get("newvar")) and _is_name(lam.body.args[1], la.args[0].arg)):
                lines["drain_call"] = [s.lineno, getattr(s, "end_lineno", s.lineno)]
                return "drainForward"
        return "unknown"
    if (isinstance(s, ast.If) and _is_name(s.test, ctx.get("bufvar")) and ctx.get("bufvar") and not s.orelse and len(s.body) == 1
            and isinstance(s.body[0], ast.For) and _is_name(s.body[0].iter, ctx["bufvar"]) and _is_name(s.body[0].target)
            and len(s.body[0].body) == 1 and not s.body[0].orelse and _call_of(s.body[0].body[0], lambda g: _self_attr(g, "send"), 1)
            and isinstance(s.body[0].body[0], ast.Expr) and _is_name(s.body[0].body[0].value.args[0], s.body[0].target.id)):
        lines["resend_for"] = s.body[0].lineno
        lines["resend_send"] = s.body[0].body[0].lineno
        return "ifBufferedResend"
    return "unknown"


def _add_ops(fn, lines):
    ops = []
    ctx = dict(star=fn.args.vararg.arg if fn.args.vararg else None)
    lines["add"] = []
    for s in _strip_doc(fn.body):
        if isinstance(s, ast.If) and isinstance(s.test, ast.UnaryOp) and isinstance(s.test.op, ast.Not) and _self_attr(s.test.operand, "_any_added"):
            lines["add_test"] = s.lineno
            inner = [_add_stmt(b, ctx, lines) for b in s.body]
            other = [_add_stmt(b, ctx, lines) for b in s.orelse]
            ops.append(("ifFirstAddElse %d %d" % (len(inner), len(other))) if other else ("ifFirstAdd %d" % len(inner)))
            lines["add"].append(s.lineno)
            lines["add"].extend(b.lineno for b in s.body)
            lines["add"].extend(b.lineno for b in s.orelse)
            ops.extend(inner + other)
        else:
            ops.append(_add_stmt(s, ctx, lines))
            lines["add"].append(s.lineno)
    return ops


def _loop_ops(fn, lines, prefix, listpred):
    """The `update globals; locals; for dest in <list>: try: dest(message) ...; report errors` body."""
    ops = []
    body = _strip_doc(fn.body)
    names = [a.arg for a in fn.args.args]
    msg = names[2] if prefix == "sendto" and len(names) > 2 else (names[1] if len(names) > 1 else None)
    lines[prefix + "_first"] = body[0].lineno if body else fn.lineno
    for s in body:
        if (isinstance(s, ast.Expr) and isinstance(s.value, ast.Call) and isinstance(s.value.func, ast.Attribute) and s.value.func.attr == "update"
                and _is_name(s.value.func.value, msg) and len(s.value.args) == 1 and _self_attr(s.value.args[0], "_globalFields")):
            ops.append("updateGlobals")
        elif isinstance(s, ast.Assign) and all(_is_name(t) for t in s.targets) and not _mentions_self(s.value):
            ops.append("localAssign")
        elif (isinstance(s, ast.For) and listpred(s.iter) and _is_name(s.target) and not s.orelse and len(s.body) == 1
              and isinstance(s.body[0], ast.Try) and len(s.body[0].body) == 1 and isinstance(s.body[0].body[0], ast.Expr)
              and isinstance(s.body[0].body[0].value, ast.Call) and _is_name(s.body[0].body[0].value.func, s.target.id)
              and len(s.body[0].body[0].value.args) == 1 and _is_name(s.body[0].body[0].value.args[0], msg)
              and len(s.body[0].handlers) == 1 and _is_name(s.body[0].handlers[0].type, "Exception")
              and not any(_mentions_self(h) for h in s.body[0].handlers)):
            ops.append("forDestsCall")
            lines[prefix + "_for"] = s.lineno
            lines[prefix + "_call"] = s.body[0].body[0].lineno
        elif isinstance(s, ast.For) and _is_name(s.iter) and not any(_self_attr(n, "_destinations") or _self_attr(n, "_any_added") for n in ast.walk(s)):
            ops.append("reportErrors")
        elif (prefix == "send" and isinstance(s, ast.Expr) and _call_of(s, lambda g: _self_attr(g, "_send_to"), 3)
              and _self_attr(s.value.args[0], "_destinations") and _is_name(s.value.args[1], msg)):
            ops.append("delegateSendTo")
            lines["send_capture"] = s.lineno
        else:
            ops.append("unknown")
    return ops


def _is_lock_with(s):
    return (isinstance(s, ast.With) and len(s.items) == 1 and _self_attr(s.items[0].context_expr, "_lock") and s.items[0].optional_vars is None)


def _buffer_ops(fn, lines):
    ops = []
    msg = fn.args.args[1].arg if len(fn.args.args) > 1 else None

    def is_append(s):
        return (isinstance(s, ast.Expr) and _call_of(s, lambda g: isinstance(g, ast.Attribute) and g.attr == "append" and _self_attr(g.value, "messages"), 1)
                and _is_name(s.value.args[0], msg))

    def is_trim(s):
        return isinstance(s, ast.While) and any(isinstance(n, ast.Attribute) and n.attr == "pop" and _self_attr(n.value, "messages") for n in ast.walk(s))

    for s in _strip_doc(fn.body):
        if is_append(s):
            ops.append("append")
            lines["buffer_append"] = s.lineno
        elif is_trim(s):
            ops.append("trim")
        elif (_is_lock_with(s) and len(s.body) == 1 and isinstance(s.body[0], ast.If) and not s.body[0].orelse
              and isinstance(s.body[0].test, ast.Compare) and _self_attr(s.body[0].test.left, "_forward") and len(s.body[0].test.ops) == 1
              and isinstance(s.body[0].test.ops[0], ast.Is) and isinstance(s.body[0].test.comparators[0], ast.Constant)
              and s.body[0].test.comparators[0].value is None and len(s.body[0].body) == 3 and is_append(s.body[0].body[0])
              and is_trim(s.body[0].body[1]) and isinstance(s.body[0].body[2], ast.Return) and s.body[0].body[2].value is None):
            ops.append("lockedAppendElseFall")
            lines["buffer_with"] = s.lineno
            lines["buffer_append"] = s.body[0].body[0].lineno
        elif isinstance(s, ast.Expr) and _call_of(s, lambda g: _self_attr(g, "_forward"), 1) and _is_name(s.value.args[0], msg):
            ops.append("forwardCall")
            lines["buffer_forward"] = s.lineno
        else:
            ops.append("unknown")
    return ops


def _drain_ops(fn, lines):
    ops = []
    fw = fn.args.args[1].arg if len(fn.args.args) > 1 else None
    for s in _strip_doc(fn.body):
        ok = False
        if _is_lock_with(s) and len(s.body) == 3:
            a, b, c = s.body
            ok = (isinstance(a, ast.Assign) and len(a.targets) == 1 and _self_attr(a.targets[0], "_forward") and _is_name(a.value, fw)
                  and isinstance(b, ast.Assign) and len(b.targets) == 1 and isinstance(b.targets[0], ast.Tuple) and len(b.targets[0].elts) == 2
                  and _is_name(b.targets[0].elts[0]) and _self_attr(b.targets[0].elts[1], "messages") and isinstance(b.value, ast.Tuple)
                  and len(b.value.elts) == 2 and _self_attr(b.value.elts[0], "messages") and isinstance(b.value.elts[1], ast.List) and not b.value.elts[1].elts
                  and isinstance(c, ast.For) and _is_name(c.iter, b.targets[0].elts[0].id) and _is_name(c.target) and not c.orelse and len(c.body) == 1
                  and isinstance(c.body[0], ast.Expr) and _call_of(c.body[0], lambda g: _is_name(g, fw), 1) and _is_name(c.body[0].value.args[0], c.target.id))
            if ok:
                lines["drain_with"] = s.lineno
                lines["drain_for"] = c.lineno
                lines["drain_forward"] = c.body[0].lineno
        ops.append("lockedSetForwardTakeResend" if ok else "unknown")
    return ops


def _lock_kind(mod, bcls):
    init = next((n for n in bcls.body if isinstance(n, ast.FunctionDef) and n.name == "__init__"), None)
    if init is None:
        return "none"
    assigns = [n for n in ast.walk(init) if isinstance(n, ast.Assign) and any(_self_attr(t, "_lock") for t in n.targets)]
    if not assigns:
        return "none"
    imported = set()
    for n in mod.body:
        if isinstance(n, ast.ImportFrom) and n.module == "threading":
            imported |= {a.name for a in n.names if a.asname is None}
    if len(assigns) == 1 and _call_of(assigns[0].value, lambda f: _is_name(f), 0):
        name = assigns[0].value.func.id
        if name == "Lock" and "Lock" in imported:
            return "lock"
        if name == "RLock" and "RLock" in imported:
            return "rlock"
    return "other"


def skeleton(repo):
    path = Path(repo) / "eliot" / "_output.py"
    mod = ast.parse(path.read_text())
    res = dict(path=str(path), add=["unknown"], send=["unknown"], sendTo=[], buffer=["unknown"], drain=[], lock="none",
               lines={}, problems=[], shape="unknown")
    dcls = next((n for n in mod.body if isinstance(n, ast.ClassDef) and n.name == "Destinations"), None)
    bcls = next((n for n in mod.body if isinstance(n, ast.ClassDef) and n.name == "BufferingDestination"), None)
    if dcls is None or bcls is None:
        res["problems"].append("Destinations / BufferingDestination not found")
        return res
    fns = {n.name: n for n in dcls.body if isinstance(n, ast.FunctionDef)}
    bfns = {n.name: n for n in bcls.body if isinstance(n, ast.FunctionDef)}
    L = res["lines"]
    if "add" in fns:
        res["add"] = _add_ops(fns["add"], L)
    if "send" in fns:
        res["send"] = _loop_ops(fns["send"], L, "send", lambda it: _self_attr(it, "_destinations"))
    if "_send_to" in fns:
        first = fns["_send_to"].args.args[1].arg if len(fns["_send_to"].args.args) > 1 else None
        res["sendTo"] = _loop_ops(fns["_send_to"], L, "sendto", lambda it: _is_name(it, first))
    if "__call__" in bfns:
        res["buffer"] = _buffer_ops(bfns["__call__"], L)
    if "drain" in bfns:
        res["drain"] = _drain_ops(bfns["drain"], L)
    res["lock"] = _lock_kind(mod, bcls)
    # other methods of the two classes must not touch the shared hand-over state
    for cls, allowed in ((dcls, {"__init__", "add", "send", "_send_to", "remove", "addGlobalFields"}), (bcls, {"__init__", "__call__", "drain"})):
        for f in cls.body:
            if isinstance(f, ast.FunctionDef) and f.name not in allowed:
                if any(_self_attr(n, a) for n in ast.walk(f) for a in ("_destinations", "_any_added", "messages", "_forward", "_lock")):
                    res["problems"].append("unexpected method %s.%s touches the hand-over state" % (cls.name, f.name))
                    res["add"] = res["add"] + ["unknown"]
    for k in ("add", "send", "sendTo", "buffer", "drain"):
        if "unknown" in res[k]:
            res["problems"].append("unrecognised statement in %s" % k)
    cur = {k: res[k] for k in ("add", "send", "sendTo", "buffer", "drain", "lock")}
    res["shape"] = "pinned" if cur == PINNED else ("fixed" if cur == FIXED else "unknown")
    return res


def extract(repo):
    sk = skeleton(repo)
    l = lambda ops, pre: "[" + ", ".join("%s.%s" % (pre, o) for o in ops) + "]"  # noqa
    src = "\n".join([
        "import Eliot.Conc.HandoverSkel",
        "/-! GENERATED by harness/extractors/e8_handover.py from eliot/_output.py - do not edit. -/",
        "namespace Eliot.Generated", "open Eliot.Conc.Handover", "",
        "def handover : HandoverSkel :=",
        "  { add := %s," % l(sk["add"], "AOp"),
        "    send := %s," % l(sk["send"], "SOp"),
        "    sendTo := %s," % l(sk["sendTo"], "SOp"),
        "    buffer := %s," % l(sk["buffer"], "BOp"),
        "    drain := %s," % l(sk["drain"], "BOp"),
        "    lock := LockKind.%s }" % sk["lock"],
        "", "end Eliot.Generated", ""])
    return "Handover.lean", src, dict(shape=sk["shape"], add=sk["add"], send=sk["send"], sendTo=sk["sendTo"], buffer=sk["buffer"],
                                      drain=sk["drain"], lock=sk["lock"], problems=sk["problems"])
