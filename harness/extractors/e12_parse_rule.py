"""E12: translator of the decision logic of eliot/parse.py -> lean/Eliot/Generated/ParseRule.lean

`Model/ParseFlat.lean` follows `Task._insert_action`, `_ensure_node_parents` and `Task.add` statement by statement by hand; the
decisions those functions take are translated here from the current AST into Lean *definitions*, and
`lean/Eliot/Properties/C09Rule.lean` proves that the hand-written model (`Node.completeNow`, `FTask.visit`, the dispatch of
`FTask.add` / `Task.add`) computes exactly them:

* `candidate`   - the `if` test of `_insert_action` ("possibly this action is complete"), as a Boolean expression over
                  `hasEnd` (`node.end_message`), `hasStart` (`node.start_message`), `nChildren` (`len(node.children)`) and
                  `endLast` (`node.end_message.task_level.level[-1]`), with Python's integer arithmetic (`Int`);
* `loopShape`   - the loop that follows: recognised as "every child that is a WrittenAction has its task_level in
                  self._completed" (`for child in node.children: if isinstance(child, WrittenAction) and child.task_level not in
                  self._completed: completed = False; break`), else `unrecognised`;
* `insertOrder` - the order of the three effects of `_insert_action`: completeness update, `_nodes[level] = node`, parents;
* `isAction`    - how `Task.add` tells action messages: `message_dict.get(ACTION_TYPE_FIELD) is not None`;
* `startTest`   - `message_dict[ACTION_STATUS_FIELD] == STARTED_STATUS` selects `_start`, anything else `_end`;
* `rootTest`    - the single-message task: `written_message.task_level.level == [1]`;
* `parentDefault` - `_ensure_node_parents`: `task_level.parent() is None` returns; a missing parent is a fresh `WrittenAction`.

Truthiness: `node.end_message` / `node.start_message` are `None` or a `WrittenMessage` (a pyrsistent `PClass` without `__bool__` /
`__len__` - checked below), so `x and ...` reads `x is not None`.
Anything outside the recognised shapes is emitted as the opaque `PyList.unrecognised` / the string "unrecognised", about which the
obligations cannot be proved.
"""
import ast
from pathlib import Path

NAMES = {"hasEnd": "node.end_message", "hasStart": "node.start_message"}


class Unrecognised(Exception):
    pass


def src_of(e):
    return ast.unparse(e)


def bool_expr(e):
    """-> Lean Bool term over hasEnd hasStart nChildren endLast"""
    if isinstance(e, ast.BoolOp):
        op = " && " if isinstance(e.op, ast.And) else " || "
        return "(" + op.join(bool_expr(v) for v in e.values) + ")"
    if isinstance(e, ast.UnaryOp) and isinstance(e.op, ast.Not):
        return "(!" + bool_expr(e.operand) + ")"
    s = src_of(e)
    if s == "node.end_message":
        return "hasEnd"
    if s == "node.start_message":
        return "hasStart"
    if isinstance(e, ast.Compare) and len(e.ops) == 1 and isinstance(e.ops[0], (ast.Eq, ast.NotEq)):
        l, r = int_expr(e.left), int_expr(e.comparators[0])
        return "(%s %s %s)" % (l, "==" if isinstance(e.ops[0], ast.Eq) else "!=", r)
    raise Unrecognised("condition %s" % s)


def int_expr(e):
    s = src_of(e)
    if s == "len(node.children)":
        return "(Int.ofNat nChildren)"
    if s == "node.end_message.task_level.level[-1]":
        return "endLast"
    if isinstance(e, ast.Constant) and isinstance(e.value, int) and not isinstance(e.value, bool):
        return "(%d : Int)" % e.value
    if isinstance(e, ast.BinOp) and isinstance(e.op, (ast.Sub, ast.Add)):
        return "(%s %s %s)" % (int_expr(e.left), "-" if isinstance(e.op, ast.Sub) else "+", int_expr(e.right))
    raise Unrecognised("integer expression %s" % s)


def body_of(fn):
    b = list(fn.body)
    if b and isinstance(b[0], ast.Expr) and isinstance(b[0].value, ast.Constant) and isinstance(b[0].value.value, str):
        b = b[1:]
    return b


LOOP = ("for child in node.children:\n    if isinstance(child, WrittenAction) and child.task_level not in self._completed:\n"
        "        completed = False\n        break")


def norm(stmt):
    return ast.unparse(stmt)


def insert_action(fn):
    """-> (candidate term, loop shape, order list, problems)"""
    problems = []
    b = body_of(fn)
    cand, loop, order = None, "unrecognised", []
    for st in b:
        s = norm(st)
        if s == "task = self":
            continue
        if isinstance(st, ast.If) and cand is None and not st.orelse:
            try:
                cand = bool_expr(st.test)
            except Unrecognised as e:
                problems.append(str(e))
                cand = None
            inner = [norm(x) for x in st.body]
            want_tail = "if completed:\n    task = task.transform(['_completed'], lambda s: s.add(node.task_level))"
            if len(inner) == 3 and inner[0] == "completed = True" and inner[1] == LOOP and inner[2] == want_tail:
                loop = "all-action-children-in-completed"
            else:
                problems.append("body of the completeness test has another shape")
            order.append("complete?")
            continue
        if s == "task = task.transform(['_nodes', node.task_level], node)":
            order.append("set-node")
            continue
        if s == "return task._ensure_node_parents(node)":
            order.append("ensure-parents")
            continue
        problems.append("statement %r" % s[:80])
        order.append("other")
    return cand, loop, order, problems


def ensure_parents(fn):
    b = [norm(x) for x in body_of(fn)]
    want = ["task_level = child.task_level",
            "if task_level.parent() is None:\n    return self",
            "parent = self._nodes.get(task_level.parent())",
            "if parent is None:\n    parent = WrittenAction(task_level=task_level.parent(), task_uuid=child.task_uuid)",
            "parent = parent._add_child(child)",
            "return self._insert_action(parent)"]
    return "root-returns;missing-parent-is-fresh-action;add-child;insert-parent" if b == want else "unrecognised"


def task_add(fn):
    """-> dict of recognised decisions of Task.add"""
    out = dict(isAction="unrecognised", startTest="unrecognised", rootTest="unrecognised", actionDefault="unrecognised", plainElse="unrecognised")
    b = body_of(fn)
    for st in b:
        s = norm(st)
        if s == "is_action = message_dict.get(ACTION_TYPE_FIELD) is not None":
            out["isAction"] = "get(action_type) is not None"
        if isinstance(st, ast.If) and norm(st.test) == "is_action":
            inner = [norm(x) for x in st.body]
            if inner[:2] == ["action_level = written_message.task_level.parent()", "action = self._nodes.get(action_level)"] and \
                    inner[2:3] == ["if action is None:\n    action = WrittenAction(task_level=action_level, task_uuid=message_dict[TASK_UUID_FIELD])"]:
                out["actionDefault"] = "missing-action-is-fresh-action"
            for x in st.body:
                if isinstance(x, ast.If) and norm(x.test) == "message_dict[ACTION_STATUS_FIELD] == STARTED_STATUS":
                    if [norm(y) for y in x.body] == ["action = action._start(written_message)"] and [norm(y) for y in x.orelse] == ["action = action._end(written_message)"]:
                        out["startTest"] = "status == started -> _start else _end"
            if inner[-1:] != ["return self._insert_action(action)"]:
                out["startTest"] = "unrecognised"
            for x in st.orelse:
                if isinstance(x, ast.If) and norm(x.test) == "written_message.task_level.level == [1]":
                    out["rootTest"] = "level == [1]"
                    if [norm(y) for y in x.orelse] == ["return self._ensure_node_parents(written_message)"]:
                        out["plainElse"] = "ensure-parents"
    return out


def class_has_truth_hooks(tree, name):
    for n in ast.walk(tree):
        if isinstance(n, ast.ClassDef) and n.name == name:
            return any(isinstance(m, ast.FunctionDef) and m.name in ("__bool__", "__len__") for m in n.body)
    return None


def extract(repo):
    repo = Path(repo)
    problems = []
    cand, loop, order, ens = None, "unrecognised", [], "unrecognised"
    add = dict(isAction="unrecognised", startTest="unrecognised", rootTest="unrecognised", actionDefault="unrecognised", plainElse="unrecognised")
    line = 0
    try:
        tree = ast.parse((repo / "eliot" / "parse.py").read_text())
        task = [n for n in tree.body if isinstance(n, ast.ClassDef) and n.name == "Task"][0]
        fns = {m.name: m for m in task.body if isinstance(m, ast.FunctionDef)}
        line = fns["_insert_action"].lineno
        cand, loop, order, problems = insert_action(fns["_insert_action"])
        ens = ensure_parents(fns["_ensure_node_parents"])
        add = task_add(fns["add"])
    except Exception as e:  # noqa - unreadable source: everything unrecognised
        problems.append("parse.py: %s: %s" % (type(e).__name__, e))
    truth = None
    try:
        mtree = ast.parse((repo / "eliot" / "_message.py").read_text())
        truth = class_has_truth_hooks(mtree, "WrittenMessage")
    except Exception as e:  # noqa
        problems.append("_message.py: %s" % type(e).__name__)
    if ens == "unrecognised":
        problems.append("_ensure_node_parents has another shape")
    for k, v in add.items():
        if v == "unrecognised":
            problems.append("Task.add: %s not recognised" % k)
    lean = []
    lean.append("import Eliot.Model.PyList")
    lean.append("/-! GENERATED by harness/extractors/e12_parse_rule.py: the decisions of `Task._insert_action`, `_ensure_node_parents` and")
    lean.append("`Task.add` in eliot/parse.py, translated from the current source - do not edit. -/")
    lean.append("namespace Eliot.Generated.ParseRule")
    lean.append("")
    lean.append("/-- the `if` test of `Task._insert_action`, line %d -/" % line)
    lean.append("def candidate (hasEnd hasStart : Bool) (nChildren : Nat) (endLast : Int) : Bool :=")
    lean.append("  " + (cand if cand else "PyList.unrecognised"))
    lean.append("")
    lean.append("/-- the loop after it -/")
    lean.append("def loopShape : String := %s" % _q(loop))
    lean.append("")
    lean.append("/-- effects of `_insert_action`, in order -/")
    lean.append("def insertOrder : List String := [%s]" % ", ".join(_q(x) for x in order))
    lean.append("")
    lean.append("/-- `_ensure_node_parents` -/")
    lean.append("def parents : String := %s" % _q(ens))
    lean.append("")
    lean.append("/-- `Task.add` -/")
    for k in ("isAction", "actionDefault", "startTest", "rootTest", "plainElse"):
        lean.append("def %s : String := %s" % (k, _q(add[k])))
    lean.append("")
    # the three tests of `Task.add` as Lean functions (over what the models keep of a message), when recognised
    lean.append("/-- `is_action` of `Task.add`: `%s` -/" % ("message_dict.get(ACTION_TYPE_FIELD) is not None" if add["isAction"] != "unrecognised" else "?"))
    lean.append("def isActionTest (actionType : Option String) : Bool :=")
    lean.append("  " + ("actionType.isSome" if add["isAction"] != "unrecognised" else "PyList.unrecognised"))
    lean.append("")
    lean.append("/-- the test that selects `_start`: `message_dict[ACTION_STATUS_FIELD] == STARTED_STATUS` (`STARTED_STATUS = %s`) -/" % _q(started_const(repo)))
    lean.append("def isStartTest (status : String) : Bool :=")
    lean.append("  " + (("status == %s" % _q(started_const(repo))) if add["startTest"] != "unrecognised" and started_const(repo) else "PyList.unrecognised"))
    lean.append("")
    lean.append("/-- the single-message task: `written_message.task_level.level == [1]` -/")
    lean.append("def isRootMessageTest (level : List Nat) : Bool :=")
    lean.append("  " + ("level == [1]" if add["rootTest"] != "unrecognised" else "PyList.unrecognised"))
    lean.append("")
    lean.append("/-- `WrittenMessage` defines `__bool__` or `__len__` (then `node.end_message and ...` would not read `is not None`) -/")
    lean.append("def writtenMessageHasTruthHooks : Bool := %s" % ("true" if truth or truth is None else "false"))
    lean.append("")
    lean.append("end Eliot.Generated.ParseRule")
    return "ParseRule.lean", "\n".join(lean) + "\n", dict(problems=problems, candidate=cand, loop=loop, order=order, parents=ens, add=add)


def started_const(repo):
    """the value of STARTED_STATUS in eliot/_action.py (a string literal), or "" """
    try:
        tree = ast.parse((Path(repo) / "eliot" / "_action.py").read_text())
        for n in tree.body:
            if isinstance(n, ast.Assign) and len(n.targets) == 1 and isinstance(n.targets[0], ast.Name) and n.targets[0].id == "STARTED_STATUS" \
                    and isinstance(n.value, ast.Constant) and isinstance(n.value.value, str):
                return n.value.value
    except Exception:  # noqa
        pass
    return ""


def _q(s):
    return '"' + s.replace("\\", "\\\\").replace('"', '\\"') + '"'
