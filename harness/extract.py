"""
Skeleton extractor: /repo source (ast) -> lean/Eliot/Generated/*.lean  (DESIGN.md 2.6 (b)).

Every module `harness/extractors/<name>.py` defines `extract(repo: Path) -> (filename, lean_source, report)`:
plain Lean *data* (tables describing the current source), normalised so that comments, formatting
and names of locals do not matter.  An unrecognised shape is not guessed at: the extractor emits
a table value that makes the Lean obligation fail (e.g. `.unknown`) and says so in `report`.
Files are rewritten only when their content changes, so an unchanged tree costs no rebuild.
"""
import importlib
import pkgutil
from pathlib import Path

from . import extractors


def regenerate(repo, outdir):
    outdir = Path(outdir)
    outdir.mkdir(parents=True, exist_ok=True)
    report = {}
    for info in sorted(pkgutil.iter_modules(extractors.__path__), key=lambda i: i.name):
        mod = importlib.import_module("harness.extractors." + info.name)
        name, src, rep = mod.extract(Path(repo))
        p = outdir / name
        rep = dict(rep)
        if not p.exists() or p.read_text() != src:
            p.write_text(src)
            rep["rewritten"] = True
        report[name] = rep
    return report
