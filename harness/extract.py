"""
Skeleton extractor: /repo source (ast) -> lean/Eliot/Generated/*.lean  (DESIGN.md 2.6 (b)).
Files are rewritten only when their content changes, so an unchanged tree costs no rebuild.
"""
from pathlib import Path

EXTRACTORS = []  # filled below: functions (repo: Path) -> (filename, lean_source, report_dict)


def regenerate(repo, outdir):
    outdir = Path(outdir)
    outdir.mkdir(parents=True, exist_ok=True)
    report = {}
    for fn in EXTRACTORS:
        name, src, rep = fn(Path(repo))
        p = outdir / name
        if not p.exists() or p.read_text() != src:
            p.write_text(src)
            rep = dict(rep, rewritten=True)
        report[name] = rep
    return report
