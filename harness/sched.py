"""
Deterministic thread scheduler for *real* eliot code at source-line granularity (DESIGN.md 2.7).

Worker callables run in daemon threads under `sys.settrace`.  Every 'line' event whose code object
lives in one of the target files parks the thread at a *gate*; a controller (the calling thread)
waits until every live thread is parked or finished, asks a *chooser* for one *enabled* parked
thread and releases exactly that one.  Between two gates a thread runs alone, so a run is a
deterministic function of the sequence of choices (the *schedule*, a list of thread ids).

Blocking operations get an enabledness rule so the controller never releases a thread into a block:
  * `with <lock expr>:` lines in a target file           -> LockLines   (holder tracked: the `with`
    line fires a second 'line' event on block exit, normal or exceptional, which is always enabled)
  * `<queue expr>.get()` lines in a target file          -> QueueGetLines (enabled iff not empty)
  * `Thread.join` on a scheduled thread (any caller)     -> patched while a run is active: a pseudo
    gate ("<join>", 0) enabled iff the target thread has finished; a join with a time limit is always enabled and,
    when the schedule lets the caller go on before the target has finished, has timed out
  * threads started by scheduled threads (`Thread.start`) become scheduled threads themselves
    (ids n, n+1, ... in spawn order); they are forced to be daemons.
`Scheduler.pseudo_gate(label, enabled)` lets harness code (stubs, workers) add explicit gates.

A run that does not become quiescent within the timeout raises `InfraError` (exit 2), never a
verdict.  A state in which threads are parked but none is enabled is returned as
`result.deadlock` (an observation); the parked threads are then let go ungated.

Choosers: `Explicit(list)` (disabled picks stutter, as in the Lean `run`; after the list the
current thread continues, else the lowest enabled id), `RandomChooser(rng, stay)`, and
`explore(run, bound)` = stateless DFS over all schedules with at most `bound` preemptions.
"""
import ast
import sys
import threading
import time
from collections import namedtuple

from .framework import InfraError

Step = namedtuple("Step", "tid file line func note")


class _Gate(object):
    __slots__ = ("file", "line", "func", "frame", "rule", "enabled_fn", "label", "tid")

    def __init__(self, file, line, func, frame, rule=None, enabled_fn=None, label=None):
        self.file, self.line, self.func, self.frame = file, line, func, frame
        self.tid = None
        self.rule, self.enabled_fn, self.label = rule, enabled_fn, label


# ---- enabledness rules ---------------------------------------------------------------------------

def _expr_code(node):
    return compile(ast.Expression(body=node), "<sched-rule>", "eval")


class LockLines(object):
    """`with E:` lines of `path` where E evaluates (in the parked frame) to a lock (`threading.Lock`
    or `RLock`, or anything with acquire/release and `locked()`).  Entry is enabled iff the lock is
    free - or, for a re-entrant lock, held by the entering thread itself; the exit event of a holder
    is always enabled.  Works per lock *object*."""

    def __init__(self, path):
        self.path = str(path)
        self.lines = {}
        tree = ast.parse(open(self.path).read())
        for n in ast.walk(tree):
            if isinstance(n, ast.With):
                # only single-item `with` statements can be told apart by line
                if len(n.items) == 1:
                    self.lines.setdefault(n.lineno, _expr_code(n.items[0].context_expr))
        self.holder = {}  # id(lock) -> [(lock, frame, tid), ...] (frames kept alive, so ids are not reused)

    def reset(self):
        self.holder.clear()

    def _lock(self, gate):
        code = self.lines.get(gate.line)
        if code is None:
            return None
        try:
            obj = eval(code, gate.frame.f_globals, gate.frame.f_locals)
        except Exception:
            return None
        if hasattr(obj, "acquire") and hasattr(obj, "release") and (hasattr(obj, "locked") or hasattr(obj, "_is_owned")):
            return obj
        return None

    @staticmethod
    def _free(lk):
        if hasattr(lk, "locked"):
            return not lk.locked()
        if lk.acquire(False):  # RLock before 3.14 has no locked(): probe from the controller thread
            lk.release()
            return True
        return False

    def match(self, file, line):
        return file == self.path and line in self.lines

    def enabled(self, gate):
        lk = self._lock(gate)
        if lk is None:
            return True
        st = self.holder.get(id(lk))
        if st and st[-1][1] is gate.frame:
            return True  # block exit of the holder
        if self._free(lk):
            return True
        return bool(st) and st[-1][2] == gate.tid and hasattr(lk, "_is_owned")  # re-entry of an RLock by its owner

    def on_release(self, gate):
        lk = self._lock(gate)
        if lk is None:
            return None
        st = self.holder.setdefault(id(lk), [])
        if st and st[-1][1] is gate.frame:
            st.pop()
            if not st:
                del self.holder[id(lk)]
            return "release"
        st.append((lk, gate.frame, gate.tid))
        return "acquire"


class QueueGetLines(object):
    """Lines of `path` containing a call `Q.get()` where Q evaluates to something with `.empty()`;
    enabled iff the queue is not empty."""

    def __init__(self, path):
        self.path = str(path)
        self.lines = {}
        tree = ast.parse(open(self.path).read())
        for n in ast.walk(tree):
            if isinstance(n, ast.Call) and isinstance(n.func, ast.Attribute) and n.func.attr == "get" and not n.args:
                self.lines.setdefault(n.lineno, _expr_code(n.func.value))

    def reset(self):
        pass

    def match(self, file, line):
        return file == self.path and line in self.lines

    def _queue(self, gate):
        try:
            obj = eval(self.lines[gate.line], gate.frame.f_globals, gate.frame.f_locals)
        except Exception:
            return None
        return obj if hasattr(obj, "empty") and hasattr(obj, "put") else None

    def enabled(self, gate):
        q = self._queue(gate)
        return True if q is None else not q.empty()

    def on_release(self, gate):
        return "get" if self._queue(gate) is not None else None


# ---- choosers ------------------------------------------------------------------------------------

class Explicit(object):
    """Replay a list of thread ids.  Picks that are not enabled are skipped (stutter).  When the list
    is exhausted: continue the current thread if enabled, else the lowest enabled id."""

    def __init__(self, schedule):
        self.schedule = list(schedule)
        self.pos = 0

    def choose(self, enabled, prev):
        while self.pos < len(self.schedule):
            t = self.schedule[self.pos]
            self.pos += 1
            if t in enabled:
                return t
        return prev if prev in enabled else enabled[0]


class RandomChooser(object):
    """With probability `stay` keep running the current thread (if enabled), else uniform."""

    def __init__(self, rng, stay=0.0):
        self.rng, self.stay = rng, stay

    def choose(self, enabled, prev):
        if prev in enabled and self.stay and self.rng.random() < self.stay:
            return prev
        return enabled[self.rng.randrange(len(enabled))]


def budget_scale():
    """Factor applied to the wall-clock budgets of the scheduled families (VERIF_SCHED_BUDGET_SCALE, default 1).  The
    budgets only cut what lies beyond each family's fixed minimum exploration."""
    import os
    try:
        return float(os.environ.get("VERIF_SCHED_BUDGET_SCALE", "1"))
    except ValueError:
        return 1.0


def _order(enabled, prev):
    return ([prev] if prev in enabled else []) + [t for t in enabled if t != prev]


def preemptions(decisions):
    n, prev = 0, None
    for enabled, chosen in decisions:
        if prev is not None and prev in enabled and chosen != prev:
            n += 1
        prev = chosen
    return n


def explore(run, bound=None, limit=None, result=lambda r: r):
    """Stateless depth-first enumeration of schedules.  `run(chooser)` must execute one complete run
    and return an object with `.decisions` = [(enabled tuple, chosen)]
    (or something from which `result(...)` extracts it).  Yields every result.  Only
    schedules with at most `bound` preemptions (switching away from a thread that is still enabled)
    are generated; `limit` caps the number of runs (the generator then returns)."""
    prefix = []
    count = 0
    while True:
        res = run(Explicit(prefix))
        count += 1
        yield res
        if limit is not None and count >= limit:
            return
        dec = result(res).decisions
        # preemptions before step i
        pre = [0]
        prev = None
        for enabled, chosen in dec:
            pre.append(pre[-1] + (1 if (prev is not None and prev in enabled and chosen != prev) else 0))
            prev = chosen
        nxt = None
        for i in range(len(dec) - 1, -1, -1):
            enabled, chosen = dec[i]
            prev = dec[i - 1][1] if i else None
            order = _order(list(enabled), prev)
            k = order.index(chosen)
            for cand in order[k + 1:]:
                cost = 1 if (prev is not None and prev in enabled and cand != prev) else 0
                if bound is None or pre[i] + cost <= bound:
                    nxt = [c for _, c in dec[:i]] + [cand]
                    break
            if nxt is not None:
                break
        if nxt is None:
            return
        prefix = nxt


# ---- process-wide state that the code under test has no business changing ----------------------------

def process_state():
    """Snapshot of interpreter-wide settings an application owns (a logging library must leave them alone)."""
    import logging
    import warnings

    return dict(
        warnings_filters=list(warnings.filters),
        sys_excepthook=sys.excepthook,
        sys_stdout=sys.stdout, sys_stderr=sys.stderr, sys_stdin=sys.stdin,
        threading_excepthook=threading.excepthook,
        logging_root_handlers=list(logging.root.handlers), logging_root_level=logging.root.level,
        sys_displayhook=sys.displayhook,
    )


def process_state_changes(before, after):
    out = []
    for k in before:
        a, b = before[k], after[k]
        same = (a == b) if isinstance(a, (list, int)) else (a is b)
        if not same:
            if isinstance(a, list):
                added = [x for x in b if x not in a]
                removed = [x for x in a if x not in b]
                out.append("%s: added %r, removed %r" % (k, added, removed) if (added or removed)
                           else "%s: reordered, first entries before %r, after %r" % (k, a[:3], b[:3]))
            else:
                out.append("%s: %r -> %r" % (k, a, b))
    return out


# ---- the scheduler ------------------------------------------------------------------------------

class Result(object):
    def __init__(self):
        self.trace = []  # [Step]
        self.decisions = []  # [(enabled tuple, chosen)]
        self.blocked = []  # per decision: parked threads that were not enabled (waiting for a lock / queue / join)
        self.returns = {}  # tid -> value returned by the worker callable
        self.errors = {}  # tid -> exception raised by the worker callable
        self.deadlock = None  # None or {tid: (file, line)} of the parked, disabled threads (or of threads that hang, see `hang`)
        self.hang = None  # None or dict(threads, seconds, step, last): threads neither parked nor finished when time was up
        self.nthreads = 0
        self.parents = {}  # dynamically started thread -> (parent tid, step index)
        self.names = {}  # tid -> threading.Thread.name (workers: "sched-<run>-<tid>")
        self.calls = []  # (len(trace) at that moment, tid, function name) for every target-file frame entered
        self.leaked = []
        self.state_changes = []  # process-wide settings that differ after the run (see process_state)

    @property
    def schedule(self):
        return [s.tid for s in self.trace]

    @property
    def lines(self):
        return [(s.tid, s.file, s.line) for s in self.trace]

    @property
    def preemptions(self):
        return preemptions(self.decisions)


_ACTIVE = None  # the scheduler whose run is in progress (one at a time per process)
_ACTIVE_GUARD = threading.Lock()
_ORIG_START = threading.Thread.start
_ORIG_JOIN = threading.Thread.join
_ORIG_EVENT_WAIT = threading.Event.wait
_IN_START = threading.local()


class _Hang(Exception):
    pass


def _patched_event_wait(event, timeout=None):
    s = _ACTIVE
    if s is not None and not getattr(_IN_START, "on", False) and not s._free and s._tid_of_current() is not None:
        # a scheduled thread waiting for an Event: a gate that is enabled once the event is set
        s.pseudo_gate("<event-wait>", event.is_set)
    return _ORIG_EVENT_WAIT(event, timeout)


def _patched_start(thread):
    s = _ACTIVE
    if s is None:
        return _ORIG_START(thread)
    me = s._tid_of_current()
    if me is None:
        return _ORIG_START(thread)
    _IN_START.on = True  # Thread.start waits for the child's `_started` event: not a gate
    try:
        return s._start_child(me, thread)
    finally:
        _IN_START.on = False


def _patched_join(thread, timeout=None):
    s = _ACTIVE
    if s is not None:
        me = s._tid_of_current()
        target = s._tid_of_thread(thread)
        if me is not None and target is not None and not s._free:
            if timeout is not None:
                # a join with a time limit may give up at any moment (the other thread can be arbitrarily slow): the gate is
                # always enabled, the schedule decides when the caller goes on, and if the target has not finished by then
                # the wait has timed out
                s.pseudo_gate("<join>", lambda: True)
                if s._state.get(target) != "done":
                    return None
            else:
                s.pseudo_gate("<join>", lambda: s._state.get(target) == "done")
    return _ORIG_JOIN(thread, timeout)


class Scheduler(object):
    def __init__(self, targets, rules=(), timeout=20.0, max_steps=100000, only_funcs=None, hang="observation"):
        """`only_funcs`: if given, only frames whose function name is in this set are gated
        (everything else in the target files runs as part of the surrounding step)."""
        self.targets = set(str(t) for t in targets)
        self.only_funcs = None if only_funcs is None else set(only_funcs)
        # "observation": a thread that is neither parked nor finished when the time is up is stuck inside the code under
        # test (blocked on something that is not gated, or looping): the run ends with `result.hang` / `result.deadlock` set
        # and the schedule so far, so that the caller's oracle reports it with a replay.  "infra": raise InfraError instead.
        self.hang = hang
        self._ungated = set()
        self.rules = list(rules)
        self.timeout = timeout
        self.max_steps = max_steps
        self.runs = 0
        self._idents, self._by_thread, self._free = {}, {}, True  # no run in progress: gates are no-ops

    def current(self):
        """Scheduler id of the calling thread (None for unscheduled threads) and the number of
        steps released so far - for instrumented objects that want to log who called them when."""
        return self._idents.get(threading.get_ident()), len(self._result.trace)

    # -- thread side -------------------------------------------------------------------------
    def _tid_of_current(self):
        return self._idents.get(threading.get_ident())

    def _tid_of_thread(self, thread):
        return self._by_thread.get(id(thread))

    def _global_trace(self, tid):
        targets = self.targets

        def local(frame, event, arg):
            if event == "line" and not self._free and tid not in self._ungated:
                code = frame.f_code
                self._park(tid, _Gate(code.co_filename, frame.f_lineno, code.co_name, frame))
            return local

        only = self.only_funcs

        def glob(frame, event, arg):
            if frame.f_code.co_filename in targets and (only is None or frame.f_code.co_name in only):
                # not a gate: which target-file function was entered during which step
                if tid not in self._ungated:
                    self._result.calls.append((len(self._result.trace), tid, frame.f_code.co_name))
                return local
            return None

        return glob

    def _park(self, tid, gate):
        gate.tid = tid
        for r in self.rules:
            if r.match(gate.file, gate.line):
                gate.rule = r
                break
        cv = self._cv
        with cv:
            if self._free:
                return
            self._parked[tid] = gate
            self._state[tid] = "parked"
            cv.notify_all()
            while self._turn != tid and not self._free:
                cv.wait()
            if self._turn == tid:
                self._turn = None
            self._parked.pop(tid, None)
            self._state[tid] = "running"
        gate.frame = None

    def ungated(self):
        """Context manager for the calling scheduled thread: what it does inside is not gated (it runs as part of the
        surrounding step, or of the thread's start-up) - for set-up work that must happen *in* a particular thread."""
        sched_self = self

        class _Ungated(object):
            def __enter__(self_inner):
                self_inner.tid = sched_self._tid_of_current()
                if self_inner.tid is not None:
                    sched_self._ungated.add(self_inner.tid)

            def __exit__(self_inner, *a):
                sched_self._ungated.discard(self_inner.tid)
                return False

        return _Ungated()

    def pseudo_gate(self, label, enabled=None):
        """Explicit gate for the calling scheduled thread (no-op for other threads)."""
        tid = self._tid_of_current()
        if tid is None or self._free or tid in self._ungated:
            return
        self._park(tid, _Gate(label, 0, label, None, enabled_fn=enabled, label=label))

    def _thread_main(self, tid, body):
        self._idents[threading.get_ident()] = tid
        sys.settrace(self._global_trace(tid))
        try:
            self._result.returns[tid] = body()
        except BaseException as e:  # noqa - an observation, not a harness failure
            self._result.errors[tid] = e
        finally:
            sys.settrace(None)
            with self._cv:
                self._state[tid] = "done"
                self._parked.pop(tid, None)
                self._cv.notify_all()

    def _start_child(self, parent, thread):
        with self._cv:
            tid = self._next_tid
            self._next_tid += 1
            self._state[tid] = "running"
            self._threads[tid] = thread
            self._by_thread[id(thread)] = tid
            self._result.parents[tid] = (parent, len(self._result.trace))
            self._result.names[tid] = thread.name
        orig_run = thread.run
        thread.run = lambda: self._thread_main(tid, orig_run)
        try:
            thread.daemon = True
        except RuntimeError:
            pass
        return _ORIG_START(thread)

    # -- controller side ---------------------------------------------------------------------
    def _wait_quiescent(self, deadline):
        cv = self._cv
        while any(st == "running" for st in self._state.values()) or self._turn is not None:
            left = deadline - time.monotonic()
            if left <= 0:
                busy = sorted(t for t, st in self._state.items() if st == "running")
                self._free = True
                cv.notify_all()
                if self.hang == "observation":
                    what = "<still running %.0fs after its last gate: blocked or looping in ungated code>" % self.timeout
                    self._result.hang = dict(threads=busy, seconds=self.timeout, step=len(self._result.trace), last=self._result.lines[-5:])
                    self._result.deadlock = {t: (what, 0) for t in busy}
                    raise _Hang()
                raise InfraError("scheduler timeout after %.0fs (run %d, step %d): threads %s neither parked nor finished; last steps %s"
                                 % (self.timeout, self.runs, len(self._result.trace), busy, self._result.lines[-5:]))
            cv.wait(min(left, 1.0))

    def _enabled(self, tid):
        g = self._parked[tid]
        if g.enabled_fn is not None:
            return bool(g.enabled_fn())
        if g.rule is not None:
            return bool(g.rule.enabled(g))
        return True

    def run(self, workers, chooser):
        """Run `workers` (list of callables; thread ids are their indices) to completion under
        `chooser`.  Returns a Result."""
        global _ACTIVE
        if not _ACTIVE_GUARD.acquire(False):
            raise InfraError("nested / concurrent Scheduler.run")
        self.runs += 1
        res = self._result = Result()
        self._cv = threading.Condition()
        self._state, self._parked, self._threads = {}, {}, {}
        self._idents, self._by_thread = {}, {}
        self._turn, self._free = None, False
        self._ungated = set()
        self._next_tid = len(workers)
        for r in self.rules:
            r.reset()
        deadline = time.monotonic() + self.timeout
        state0 = process_state()
        _ACTIVE = self
        threading.Thread.start = _patched_start
        threading.Thread.join = _patched_join
        threading.Event.wait = _patched_event_wait
        try:
            with self._cv:
              try:
                # start one at a time: everything a worker does before its first gate runs alone
                for tid, body in enumerate(workers):
                    th = threading.Thread(target=self._thread_main, args=(tid, body), daemon=True,
                                          name="sched-%d-%d" % (self.runs, tid))
                    self._threads[tid] = th
                    self._by_thread[id(th)] = tid
                    self._state[tid] = "running"
                    _ORIG_START(th)
                    self._wait_quiescent(deadline)
                prev = None
                while True:
                    self._wait_quiescent(deadline)
                    if not self._parked:
                        break
                    enabled = [t for t in sorted(self._parked) if self._enabled(t)]
                    if not enabled:
                        res.deadlock = {t: (g.file, g.line) for t, g in self._parked.items()}
                        break
                    if len(res.trace) >= self.max_steps:
                        self._free = True
                        self._cv.notify_all()
                        raise InfraError("scheduler: more than %d steps in one run" % self.max_steps)
                    t = chooser.choose(enabled, prev)
                    if t not in enabled:
                        raise InfraError("chooser picked %r, enabled %r" % (t, enabled))
                    g = self._parked[t]
                    note = g.rule.on_release(g) if g.rule is not None else g.label
                    res.decisions.append((tuple(enabled), t))
                    res.blocked.append(tuple(x for x in sorted(self._parked) if x not in enabled))
                    res.trace.append(Step(t, g.file, g.line, g.func, note))
                    prev = t
                    self._turn = t
                    self._cv.notify_all()
              except _Hang:
                pass
              # let go of whatever is still parked (deadlock / hang case) and collect the threads
              self._free = True
              self._cv.notify_all()
            leaked = []
            for tid, th in sorted(self._threads.items()):
                _ORIG_JOIN(th, 0.5 if res.deadlock else max(5.0, deadline - time.monotonic()))
                if th.is_alive():
                    leaked.append(tid)
            if leaked and not res.deadlock:
                raise InfraError("scheduler: threads %s did not terminate" % leaked)
            res.leaked = leaked
            res.nthreads = len(self._threads)
            res.state_changes = process_state_changes(state0, process_state())
            return res
        finally:
            self._free = True
            threading.Thread.start = _ORIG_START
            threading.Thread.join = _ORIG_JOIN
            threading.Event.wait = _ORIG_EVENT_WAIT
            _ACTIVE = None
            for r in self.rules:
                r.reset()
            self._parked.clear()
            self._threads.clear()
            self._by_thread.clear()
            _ACTIVE_GUARD.release()
