"""
Shared machinery of every property check (see DESIGN.md 2.6 "verdict logic").

A check of property P does, in this order:
  1. regenerate the skeleton tables from /repo's current source (harness/extract.py),
  2. `lake build` P's property + audit modules (the theorems, and the `decide`d obligations
     on the regenerated tables), audit axioms and forbidden tokens,
  3. run P's correspondence harness: real code and Lean model on the same cases, diff,
     plus P's direct property oracles on the real observations,
  4. decide: oracle failure -> VIOLATION with that case as replay (unless listed in
     KNOWN_FINDINGS.jsonl); broken proof obligation or correspondence with no oracle
     failure -> VIOLATION ... no-failing-input-found; otherwise evidence + exit 0.
Exit codes: 0 held, 1 violation, 2 infrastructure problem (never a verdict).
"""
import fcntl
import hashlib
import importlib
import json
import os
import random
import re
import subprocess
import sys
import time
import traceback
from collections import Counter
from pathlib import Path

VERIF = Path(__file__).resolve().parent.parent
LEAN = VERIF / "lean"
REPO = Path(os.environ.get("ELIOT_REPO", "/repo"))
EVIDENCE = Path(os.environ.get("VERIF_EVIDENCE_DIR", str(VERIF / "evidence")))  # development runs against a scratch copy may redirect it
REPLAYS = Path(os.environ.get("VERIF_REPLAY_DIR", str(VERIF / "replays")))
KNOWN = VERIF / "KNOWN_FINDINGS.jsonl"
PY = "/venv/bin/python"

ALLOWED_AXIOMS = {"propext", "Classical.choice", "Quot.sound"}
FORBIDDEN = re.compile(
    r"\bsorry\b|\badmit\b|^\s*axiom\s|native_decide|bv_decide|implemented_by|\bunsafe\s|maxHeartbeats\s+0|\bextern\b",
    re.M,
)

BASE_TRUST = [
    "Lean 4.33 kernel; axioms allowed: propext, Classical.choice, Quot.sound (audited per theorem by `#print axioms` on every run); "
    "no sorry/admit/native_decide/bv_decide/implemented_by/unsafe/own axioms (grep on every run)",
    "the hand-written Lean model as a description of the Python code: validated, not verified, by the correspondence run of this check",
    "the Python harness (generators, interpreter, canonicalisation, oracles) and harness/extract.py",
]


class InfraError(Exception):
    pass


def canon(obj):
    return json.dumps(obj, sort_keys=True, separators=(",", ":"), default=str)


def chash(obj):
    return hashlib.sha1(canon(obj).encode()).hexdigest()[:16]


class Ctx:
    def __init__(self, prop, tier, seed):
        self.prop, self.tier, self.seed = prop, tier, seed
        self.t0 = time.time()
        self.evaluations = 0
        self.nontrivial = set()
        self.samples = []
        self.dist = Counter()
        self.traces = 0
        self.violations = []  # dicts: what, case, key, extra
        self.known_hits = []
        self.obligations = []  # dicts: name, kind, discharged, detail
        self.broken = []  # names of obligations / correspondences that no longer check
        self.notes = []
        self.extra = {}
        self.known = load_known(prop)

    # ---- randomness -------------------------------------------------------------------
    def rng(self, label=""):
        return random.Random("%s:%s:%s" % (self.prop, self.seed, label))

    @property
    def quick(self):
        return self.tier == "quick"

    def budget(self, quick, thorough):
        return quick if self.quick else thorough

    # ---- accounting -------------------------------------------------------------------
    def case(self, case, nontrivial=True, tags=(), sample=True):
        self.evaluations += 1
        if nontrivial:
            self.nontrivial.add(chash(case))
        for t in tags:
            self.dist[t] += 1
        if sample and len(self.samples) < 3 and nontrivial:
            s = canon(case)
            self.samples.append(json.loads(s) if len(s) < 4000 else {"truncated": s[:4000]})

    def running(self, case, what="a logging call"):
        """Tell the watchdog which input the real code is being run on right now (None = not in the library).  If the
        library does not come back within HANG_S seconds the check ends with a violation: a hang on that input."""
        self._running = None if case is None else (case, what, time.time())

    def count(self, *tags, n=1):
        for t in tags:
            self.dist[t] += n

    def obligation(self, name, kind, discharged, detail=""):
        self.obligations.append(dict(name=name, kind=kind, discharged=bool(discharged), detail=detail))
        if not discharged:
            self.broken.append(name)

    def violation(self, what, case, key=None, extra=None):
        """An oracle failed on the real code for `case`.  `key` is the structural key matched
        against KNOWN_FINDINGS.jsonl (None never matches)."""
        v = dict(what=what, case=case, key=key, extra=extra)
        if key is not None:
            for k in self.known:
                if k.get("status") == "finding" and k.get("key") == key:
                    if not any(h["key"] == key for h in self.known_hits):
                        self.known_hits.append(dict(key=key, what=k.get("what", what)))
                    return False
        # keep only the first few, distinct by `what`
        if len(self.violations) < 20:
            self.violations.append(v)
        return True

    def broken_tie(self, name, detail, case=None):
        """Model and implementation disagree (or a proof obligation no longer checks) but no
        oracle has failed so far."""
        if name not in self.broken:
            self.obligation(name, "correspondence", False, detail)
        self.count("disagreement:" + name)
        d = self.extra.setdefault("disagreements", [])
        if len(d) < 10:
            d.append(dict(name=name, detail=detail, case=case))


def load_known(prop):
    out = []
    if KNOWN.exists():
        for line in KNOWN.read_text().splitlines():
            line = line.strip()
            if not line or line.startswith("#"):
                continue
            d = json.loads(line)
            if d.get("property") == prop:
                out.append(d)
    return out


# ---- Lean side ------------------------------------------------------------------------------

def _run(cmd, cwd, timeout, input=None):
    try:
        return subprocess.run(cmd, cwd=cwd, input=input, capture_output=True, text=True, timeout=timeout)
    except subprocess.TimeoutExpired as e:
        raise InfraError("timeout: %s" % " ".join(cmd)) from e


class _Lock:
    def __enter__(self):
        self.f = open(LEAN / ".lake.lock", "w")
        fcntl.flock(self.f, fcntl.LOCK_EX)

    def __exit__(self, *a):
        fcntl.flock(self.f, fcntl.LOCK_UN)
        self.f.close()


def strip_comments(src):
    # remove /- ... -/ (nested) and -- ... comments; good enough for the forbidden-token grep
    out, i, depth = [], 0, 0
    while i < len(src):
        if src.startswith("/-", i):
            depth += 1
            i += 2
        elif depth and src.startswith("-/", i):
            depth -= 1
            i += 2
        elif depth:
            i += 1
        elif src.startswith("--", i):
            j = src.find("\n", i)
            i = len(src) if j < 0 else j
        else:
            out.append(src[i])
            i += 1
    return "".join(out)


def import_closure(targets):
    """Lean source files (under lean/) reachable from the given modules through `import Eliot.*`."""
    seen, todo = set(), list(targets)
    while todo:
        m = todo.pop()
        if m in seen:
            continue
        seen.add(m)
        p = LEAN / (m.replace(".", "/") + ".lean")
        if not p.exists():
            continue
        for mm in re.finditer(r"^import\s+((?:Eliot|Driver)[\w.]*)", p.read_text(), re.M):
            todo.append(mm.group(1))
    return [LEAN / (m.replace(".", "/") + ".lean") for m in sorted(seen) if (LEAN / (m.replace(".", "/") + ".lean")).exists()]


def forbidden_tokens(targets=None, extra_files=()):
    hits = []
    files = import_closure(targets) if targets else sorted(LEAN.glob("Eliot/**/*.lean")) + sorted(LEAN.glob("Driver/*.lean"))
    for p in list(files) + [LEAN / f for f in extra_files if (LEAN / f).exists()]:
        body = strip_comments(p.read_text())
        # string literals may legitimately contain words; drop them
        body = re.sub(r'"(?:\\.|[^"\\])*"', '""', body)
        for m in FORBIDDEN.finditer(body):
            hits.append("%s: %s" % (p.relative_to(LEAN), m.group(0).strip()))
    return hits


def lean_stage(ctx, mod):
    """extract -> build -> audit.  Fills ctx.obligations.  Never raises a verdict by itself."""
    from . import extract

    targets = list(getattr(mod, "LEAN_TARGETS", []))
    audit = getattr(mod, "AUDIT", None)
    expected = list(getattr(mod, "THEOREMS", []))
    generated = list(getattr(mod, "GENERATED_OBLIGATIONS", []))
    with _Lock():
        ext_report = extract.regenerate(REPO, LEAN / "Eliot" / "Generated")
        ctx.extra["extractor"] = ext_report
        r = _run(["lake", "build"] + targets, LEAN, 1500)
        build_ok = r.returncode == 0
        build_log = (r.stdout + r.stderr)[-6000:]
        axioms = {}
        audit_out = ""
        if build_ok and audit:
            a = _run(["lake", "env", "lean", audit], LEAN, 900)
            audit_out = a.stdout + a.stderr
            if a.returncode != 0:
                build_ok = False
                build_log += "\nAUDIT FAILED:\n" + audit_out[-3000:]
            for m in re.finditer(r"'([^']+)' depends on axioms: \[([^\]]*)\]", audit_out):
                axioms[m.group(1)] = [x.strip() for x in m.group(2).replace("\n", " ").split(",") if x.strip()]
            for m in re.finditer(r"'([^']+)' does not depend on any axioms", audit_out):
                axioms[m.group(1)] = []
        if build_ok and ctx.tier == "thorough" and targets:
            # independent re-check of the compiled proofs (replays every declaration through the kernel)
            lc = _run(["lake", "env", "leanchecker"] + targets, LEAN, 1500)
            ctx.obligation("leanchecker", "audit", lc.returncode == 0, (lc.stdout + lc.stderr)[-300:] if lc.returncode else "re-checked: " + " ".join(targets))
    ctx.extra["build_ok"] = build_ok
    if not build_ok:
        ctx.extra["build_log"] = build_log
    bad_tokens = forbidden_tokens(targets + ([audit[:-5].replace('/', '.')] if audit else []), [d for d in getattr(mod, 'DRIVERS', [])])
    ctx.obligation("no-forbidden-tokens", "audit", not bad_tokens, "; ".join(bad_tokens[:5]))
    for name in expected:
        if not build_ok:
            # which one failed?  attribute by name when the log mentions it, else all are suspect
            ctx.obligation(name, "theorem", False, "lake build failed: " + _first_error(build_log))
            continue
        ax = axioms.get(name)
        if ax is None:
            ctx.obligation(name, "theorem", False, "not reported by the axiom audit")
        else:
            extra_ax = [a for a in ax if a not in ALLOWED_AXIOMS]
            ctx.obligation(name, "theorem", not extra_ax, "axioms: " + ", ".join(ax))
    for name in generated:
        # obligations of the form `example : P Generated.x := by decide` live in the property
        # module; they are discharged iff the build succeeded.
        ctx.obligation(name, "generated-skeleton", build_ok, "" if build_ok else _first_error(build_log))
    for name, module in getattr(mod, "SKELETON_TARGETS", {}).items():
        # skeleton obligations kept in modules of their own: built separately, so that a source change
        # that breaks one is attributed to it and not to the property theorems
        # value: module name, or (module, audit file, [theorem names]) when the module holds theorems about *translated*
        # source, whose axioms are audited like the property theorems'
        sk_audit, sk_thms = None, []
        if isinstance(module, (tuple, list)):
            module, sk_audit, sk_thms = module
        with _Lock():
            r2 = _run(["lake", "build", module], LEAN, 900)
            ok2 = r2.returncode == 0
            detail = "" if ok2 else _first_error((r2.stdout + r2.stderr)[-4000:])
            if ok2 and not sk_audit:
                # a skeleton module is a handful of `decide`d facts about generated tables: no escape hatches there either
                tok0 = forbidden_tokens([module])
                if tok0 or "declaration uses 'sorry'" in (r2.stdout + r2.stderr):
                    ok2, detail = False, "forbidden token in %s: %s" % (module, "; ".join(tok0) or "sorry")
            if ok2 and sk_audit:
                a = _run(["lake", "env", "lean", sk_audit], LEAN, 900)
                out = a.stdout + a.stderr
                got = {}
                for m in re.finditer(r"'([^']+)' depends on axioms: \[([^\]]*)\]", out):
                    got[m.group(1)] = [x.strip() for x in m.group(2).replace("\n", " ").split(",") if x.strip()]
                for m in re.finditer(r"'([^']+)' does not depend on any axioms", out):
                    got[m.group(1)] = []
                axioms.update({t: got[t] for t in sk_thms if t in got})  # a shared audit file prints more than this property's theorems
                bad = [t for t in sk_thms if t not in got or [x for x in got[t] if x not in ALLOWED_AXIOMS]]
                tok = forbidden_tokens([module])
                if a.returncode != 0 or bad or tok:
                    ok2 = False
                    detail = "audit of %s: %s" % (module, "; ".join(bad + tok) or out[-300:])
                else:
                    detail = "%d theorems about the translated source, axioms within the allowed set" % len(sk_thms)
        ctx.obligation(name, "generated-skeleton", ok2, detail)
    ctx.extra["axioms"] = axioms
    return build_ok


def _first_error(log):
    for line in log.splitlines():
        if "error" in line:
            return line.strip()[:400]
    return log.strip()[-400:]


_DRIVERS_BUILT = set()


def lean_driver(driver, lines, timeout=1200):
    """Pipe `lines` (JSON-able objects, one per line) through `lake env lean --run <driver>`;
    returns the parsed output objects (one per input line)."""
    inp = "".join(canon(l) + "\n" for l in lines)
    if driver not in _DRIVERS_BUILT:
        # `lean --run` loads the compiled imports as they are: bring them up to date with the (possibly just regenerated)
        # sources first - a no-op when nothing changed
        mods = re.findall(r"^import\s+((?:Eliot|Driver)[\w.]*)", (LEAN / driver).read_text(), re.M)
        if mods:
            with _Lock():
                b = _run(["lake", "build"] + mods, LEAN, 1500)
            if b.returncode != 0:
                raise InfraError("imports of model driver %s do not build: %s" % (driver, (b.stdout + b.stderr)[-1500:]))
        _DRIVERS_BUILT.add(driver)
    r = _run(["lake", "env", "lean", "--run", driver], LEAN, timeout, input=inp)
    if r.returncode != 0:
        raise InfraError("model driver %s failed: %s" % (driver, (r.stderr or r.stdout)[-2000:]))
    out = [l for l in r.stdout.splitlines() if l.strip()]
    if len(out) != len(lines):
        raise InfraError("model driver %s answered %d of %d lines: %s" % (driver, len(out), len(lines), r.stderr[-1000:]))
    res = []
    for l in out:
        try:
            res.append(json.loads(l))
        except ValueError:
            raise InfraError("model driver %s printed non-JSON: %r" % (driver, l[:300]))
    return res


# ---- verdict --------------------------------------------------------------------------------

def write_replay(ctx, obj):
    REPLAYS.mkdir(exist_ok=True)
    obj = dict(obj, property=ctx.prop, seed=ctx.seed, tier=ctx.tier)
    path = REPLAYS / ("%s-%s.json" % (ctx.prop, chash(obj)))
    path.write_text(json.dumps(obj, indent=1, sort_keys=True, default=str))
    return path


def finish(ctx, mod):
    viol_lines = []
    for h in ctx.known_hits:
        print("KNOWN-FINDING: property=%s %s" % (ctx.prop, h["what"]))
    if ctx.violations:
        v = ctx.violations[0]
        path = write_replay(ctx, dict(kind="failing-input", expected=v["what"], case=v["case"], key=v["key"], extra=v["extra"],
                                      also=[x["what"] for x in ctx.violations[1:6]],
                                      broken_obligations=ctx.broken))
        viol_lines.append("VIOLATION property=%s replay=%s" % (ctx.prop, path))
    elif ctx.broken:
        path = write_replay(ctx, dict(kind="broken-obligation",
                                      expected="the following theorems / generated-skeleton obligations / correspondences no longer check: " + ", ".join(ctx.broken),
                                      obligations=[o for o in ctx.obligations if not o["discharged"]],
                                      disagreements=ctx.extra.get("disagreements", [])[:5],
                                      build_log=ctx.extra.get("build_log", "")[-3000:],
                                      searched=dict(evaluations=ctx.evaluations, note="oracles on the real code found no failing input")))
        viol_lines.append("VIOLATION property=%s replay=%s no-failing-input-found" % (ctx.prop, path))
    if not getattr(ctx, 'replaying', False):
        write_evidence(ctx, mod, len(ctx.violations) + (1 if (ctx.broken and not ctx.violations) else 0))
    for l in viol_lines:
        print(l)
    print("%s %s seed=%s: %d cases (%d distinct non-trivial), %d/%d obligations, %.1fs -> %s" % (
        ctx.prop, ctx.tier, ctx.seed, ctx.evaluations, len(ctx.nontrivial),
        sum(o["discharged"] for o in ctx.obligations), len(ctx.obligations), time.time() - ctx.t0,
        "VIOLATION" if viol_lines else "ok"))
    return 1 if viol_lines else 0


def write_evidence(ctx, mod, nviol):
    EVIDENCE.mkdir(exist_ok=True)
    targets = " ".join(getattr(mod, "LEAN_TARGETS", []))
    cov = dict(
        obligations=len(ctx.obligations),
        discharged=sum(o["discharged"] for o in ctx.obligations),
        checker_cmd="cd lean && lake build %s && lake env lean %s" % (targets, getattr(mod, "AUDIT", "")),
        trusted_base=BASE_TRUST + list(getattr(mod, "TRUSTED", [])),
        evaluations=ctx.evaluations,
        distinct_nontrivial=len(ctx.nontrivial),
        rule=getattr(mod, "RULE", ""),
        samples=ctx.samples or [{"note": "no case generated"}],
        traces_validated_against_impl=ctx.traces,
        obligation_list=ctx.obligations,
        distribution=dict(sorted(ctx.dist.items())),
        axioms=ctx.extra.get("axioms", {}),
        extractor=ctx.extra.get("extractor", {}),
        known_findings_hit=ctx.known_hits,
        notes=ctx.notes,
        explanation=getattr(mod, "EXPLANATION", ""),
    )
    for k, v in ctx.extra.items():
        if k not in cov and k not in ("build_log",):
            cov[k] = v
    ev = dict(property_id=ctx.prop, tier=ctx.tier, seed=ctx.seed, level="proof", coverage=cov,
              assumptions=list(getattr(mod, "ASSUMPTIONS", [])), wall_s=round(time.time() - ctx.t0, 2),
              violations=nviol)
    target = EVIDENCE
    if ctx.extra.get("lean_stage_skipped"):
        # a development run without the build/audit stage decides nothing about the theorems: its record is kept apart from
        # the evidence files and says so
        ev["level"] = "proof"
        ev["coverage"]["notes"] = list(ev["coverage"].get("notes") or []) + ["DEVELOPMENT RUN: Lean stage skipped (--no-lean); not evidence"]
        if "VERIF_EVIDENCE_DIR" not in os.environ:
            target = Path("/tmp/verif-no-lean-evidence")
    target.mkdir(parents=True, exist_ok=True)
    (target / ("%s.json" % ctx.prop)).write_text(json.dumps(ev, indent=1, sort_keys=True, default=str))


def _restore_generated():
    """A run against a scratch copy (ELIOT_REPO) rewrote lean/Eliot/Generated from that copy: put back /repo's."""
    if str(REPO) != "/repo" and Path("/repo").exists():
        from . import extract

        with _Lock():
            extract.regenerate(Path("/repo"), LEAN / "Eliot" / "Generated")


HANG_S = int(os.environ.get("VERIF_HANG_S", "90"))


def _start_watchdog(ctx, args, limit):
    """A signal handler's exception can be swallowed by a bare `except:` inside the library under test, and a thread blocked on
    a lock it holds itself never returns: the watchdog thread ends the check from outside.  (a) the library has not come
    back from one input for HANG_S seconds -> violation (a hang / deadlock on that input, with the input as replay);
    (b) the whole check exceeds its time limit -> infrastructure error (exit 2)."""
    import threading

    def watch():
        while True:
            time.sleep(3)
            cur = getattr(ctx, "_running", None)
            now = time.time()
            if cur is not None and now - cur[2] > HANG_S:
                try:
                    ctx.violation("%s did not return within %d s on this input: the library hangs (deadlock or endless loop)"
                                  % (cur[1], HANG_S), cur[0], key=None)
                    mod = importlib.import_module("harness.props.%s" % args.prop)
                    code = finish(ctx, mod)
                    sys.stdout.flush()
                finally:
                    os._exit(1)
            if now - ctx.t0 > limit + 30:
                print("INFRA-ERROR property=%s check exceeded its time limit (%s tier) and could not be interrupted" % (args.prop, args.tier))
                sys.stdout.flush()
                os._exit(2)

    threading.Thread(target=watch, daemon=True, name="verif-watchdog").start()


def main(argv):
    import atexit
    atexit.register(_restore_generated)
    import argparse

    ap = argparse.ArgumentParser()
    ap.add_argument("prop")
    ap.add_argument("--tier", default=os.environ.get("VERIF_TIER", "quick"), choices=["quick", "thorough"])
    ap.add_argument("--replay", default=None)
    ap.add_argument("--no-lean", action="store_true", help="(development) skip the build/audit stage")
    args = ap.parse_args(argv)
    try:
        seed = int(os.environ.get("VERIF_SEED", "0"))
    except ValueError:
        seed = 0
    sys.path.insert(0, str(REPO))
    os.environ.setdefault("PYTHONWARNINGS", "ignore")
    import warnings

    warnings.simplefilter("ignore")
    ctx = Ctx(args.prop, args.tier, seed)
    import signal

    def _timeout(signum, frame):
        raise InfraError("check exceeded its time limit (%s tier)" % args.tier)

    signal.signal(signal.SIGALRM, _timeout)
    _start_watchdog(ctx, args, int(os.environ.get("VERIF_TIMEOUT", 1500 if args.tier == "quick" else 5400)))
    signal.alarm(int(os.environ.get("VERIF_TIMEOUT", 1500 if args.tier == "quick" else 5400)))
    try:
        mod = importlib.import_module("harness.props.%s" % args.prop)
        if args.replay:
            obj = json.loads(Path(args.replay).read_text())
            ctx.replaying = True
            ctx.running(obj.get("case"), "the replayed input")  # a replay that hangs is a violation too (watchdog)
            mod.replay(ctx, obj)
            ctx.running(None)
            return finish(ctx, mod)
        if not args.no_lean:
            lean_stage(ctx, mod)
        else:
            ctx.extra["lean_stage_skipped"] = True
        mod.run(ctx)
        return finish(ctx, mod)
    except InfraError as e:
        print("INFRA-ERROR property=%s %s" % (args.prop, e))
        return 2
    except Exception:
        traceback.print_exc()
        print("INFRA-ERROR property=%s unexpected harness exception" % args.prop)
        return 2
