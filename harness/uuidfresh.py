"""Model-free oracle shared by C02 and C04: every new task (start_task, a top-level start_action, a message logged outside any
action) gets a task_uuid no other task has - within a run, after the application re-seeds the global `random` generator
(a common thing to do per trial), and in a child process after fork() (a pre-forking server logging to one file).
The models' task counter stands for exactly this; the library's own source of identifiers is not replaced here."""
import json
import os
import random


def _burst(n):
    import eliot
    from eliot import _output
    dst = _output.Logger._destinations
    saved = (dst._destinations, dst._any_added, dst._globalFields)
    dst.__init__()
    got = []
    try:
        eliot.add_destinations(got.append)
        for i in range(n):
            k = i % 3
            if k == 0:
                with eliot.start_task(action_type="t"):
                    eliot.log_message(message_type="inside")
            elif k == 1:
                with eliot.start_action(action_type="a"):
                    pass
            else:
                eliot.log_message(message_type="alone")
    finally:
        dst._destinations, dst._any_added, dst._globalFields = saved
    tasks = []
    for m in got:
        if m["task_level"] == [1]:
            tasks.append(m["task_uuid"])
    return tasks


def scenario(name):
    if name == "reseed":
        out = []
        state = random.getstate()
        try:
            for _ in range(3):
                random.seed(20240229)
                out.append(_burst(9))
        finally:
            random.setstate(state)
        return out
    if name == "fork":
        r, w = os.pipe()
        pid = os.fork()
        if pid == 0:
            code = 0
            try:
                os.close(r)
                os.write(w, json.dumps(_burst(9)).encode())
            except BaseException:  # noqa
                code = 1
            finally:
                os._exit(code)
        os.close(w)
        mine = _burst(9)
        data = b""
        while True:
            chunk = os.read(r, 65536)
            if not chunk:
                break
            data += chunk
        os.close(r)
        os.waitpid(pid, 0)
        return [mine, json.loads(data.decode() or "[]")]
    if name == "plain":
        return [_burst(30)]
    raise ValueError(name)


def check(ctx, names=("plain", "reseed", "fork")):
    for name in names:
        groups = scenario(name)
        flat = [u for g in groups for u in g]
        ctx.count("uuid_fresh_tasks", n=len(flat))
        ok = len(flat) >= 9 and len(set(flat)) == len(flat) and all(isinstance(u, str) and u for u in flat)
        ctx.case(dict(kind="uuid-fresh", scenario=name), nontrivial=True, tags=["uuid-fresh:" + name], sample=False)
        if not ok:
            dup = sorted({u for u in flat if flat.count(u) > 1})[:3]
            ctx.violation("%d tasks started in scenario '%s' (%s) got only %d different task_uuids, e.g. %s is used by %d tasks"
                          % (len(flat), name, {"plain": "one run", "reseed": "random.seed(k) before each of three runs",
                                               "fork": "parent and a forked child"}[name],
                             len(set(flat)), dup[0] if dup else None, flat.count(dup[0]) if dup else 0),
                          dict(kind="uuid-fresh", scenario=name))
