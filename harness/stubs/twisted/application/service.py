class Service(object):
    """twisted.application.service.Service: only what ThreadedWriter uses."""
    running = 0
    name = None

    def startService(self):
        self.running = 1

    def stopService(self):
        self.running = 0
