"""Stand-in for the parts of Twisted that eliot/logwriter.py imports (Twisted is not installed in the
sandbox).  Put on sys.path by harness/props/C19.py only.  Trusted base of C19: `Service` keeps a
`running` flag; `deferToThreadPool` runs the callable on a fresh thread and returns a handle that
completes when the callable has returned."""
