import threading

from .defer import Deferred  # noqa: F401


def deferToThreadPool(reactor, threadpool, f, *args, **kwargs):
    """Run f(*args, **kwargs) on a fresh thread; the returned handle completes with its result."""
    d = Deferred()

    def run():
        try:
            r = f(*args, **kwargs)
        except BaseException as e:  # noqa - a Failure in real Twisted
            r = e
        d._fire(r)

    t = threading.Thread(target=run, name="deferToThreadPool")
    t.daemon = True
    t.start()
    return d
