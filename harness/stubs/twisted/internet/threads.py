import threading


class Deferred(object):
    """Completion handle: `called`, `result`, `addCallback` (runs at once if already completed)."""

    def __init__(self):
        self.called = False
        self.result = None
        self._callbacks = []
        self._lock = threading.Lock()
        self.done = threading.Event()

    def addCallback(self, f, *a, **kw):
        with self._lock:
            if not self.called:
                self._callbacks.append((f, a, kw))
                return self
        self.result = f(self.result, *a, **kw)
        return self

    addBoth = addCallback

    def _fire(self, result):
        with self._lock:
            self.result = result
            self.called = True
            cbs, self._callbacks = self._callbacks, []
        for f, a, kw in cbs:
            self.result = f(self.result, *a, **kw)
        self.done.set()


def deferToThreadPool(reactor, threadpool, f, *args, **kwargs):
    """Run f(*args, **kwargs) on a fresh thread; the returned handle completes with its result."""
    d = Deferred()

    def run():
        try:
            r = f(*args, **kwargs)
        except BaseException as e:  # noqa - a Failure in real Twisted
            r = e
        d._fire(r)

    t = threading.Thread(target=run, name="deferToThreadPool")
    t.daemon = True
    t.start()
    return d
