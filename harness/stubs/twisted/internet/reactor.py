"""twisted.internet.reactor stand-in: only a thread pool accessor."""


def getThreadPool():
    return None


def callFromThread(f, *a, **kw):
    return f(*a, **kw)
