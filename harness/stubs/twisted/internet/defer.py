"""twisted.internet.defer stand-in: just enough of Deferred / succeed / fail / maybeDeferred for code
that hands a completion handle back to its caller (no callback chaining semantics beyond running
callbacks in order with the previous result)."""
import threading


class Deferred(object):
    """Completion handle: `called`, `result`, `addCallback` (runs at once if already completed)."""

    def __init__(self):
        self.called = False
        self.result = None
        self._callbacks = []
        self._lock = threading.Lock()
        self.done = threading.Event()

    def addCallback(self, f, *a, **kw):
        with self._lock:
            if not self.called:
                self._callbacks.append((f, a, kw))
                return self
        self.result = f(self.result, *a, **kw)
        return self

    addBoth = addCallback

    def addErrback(self, f, *a, **kw):
        return self

    def addCallbacks(self, callback, errback=None, *a, **kw):
        return self.addCallback(callback)

    def callback(self, result):
        self._fire(result)

    def errback(self, fail=None):
        self._fire(fail)

    def _fire(self, result):
        with self._lock:
            self.result = result
            self.called = True
            cbs, self._callbacks = self._callbacks, []
        for f, a, kw in cbs:
            self.result = f(self.result, *a, **kw)
        self.done.set()


def succeed(result):
    d = Deferred()
    d._fire(result)
    return d


def fail(result=None):
    d = Deferred()
    d._fire(result)
    return d


def maybeDeferred(f, *args, **kwargs):
    try:
        r = f(*args, **kwargs)
    except BaseException as e:  # noqa
        return fail(e)
    return r if isinstance(r, Deferred) else succeed(r)


def gatherResults(deferreds, consumeErrors=False):
    out = Deferred()
    results = [None] * len(deferreds)
    left = [len(deferreds)]
    if not deferreds:
        out._fire([])
        return out
    lock = threading.Lock()

    def got(r, i):
        with lock:
            results[i] = r
            left[0] -= 1
            last = left[0] == 0
        if last:
            out._fire(list(results))
        return r

    for i, d in enumerate(deferreds):
        d.addCallback(got, i)
    return out
