"""
Interpreter of generated logging programs against the REAL eliot API (DESIGN.md 2.7).

A case is {"env": ..., "prog": [stmt...]} (format documented in lean/Driver/Sys.lean and
harness/sysgen.py).  `run_case` executes it in-process against /repo's eliot with: a fresh
`Destinations` state, a counter clock, counter uuids, generated exception classes / extractors /
serializers / destinations whose failure behaviour follows the masks in `env`.

Returns the observation dict compared with the model (same keys as the Lean driver prints) plus
`api` — what every individual eliot API call did (for the model-free oracles).
Exceptions of the real code are observations, never harness crashes.
"""
import ast
import contextvars
import itertools
import sys

from .framework import canon

ALWAYS = 4294967295  # mask index meaning "on every call"
BUILTIN_CLASSES = {}  # id -> python class, filled by class_table()


class Obj:
    def __init__(self, i):
        self.i = i

    def __repr__(self):
        return "Obj(%d)" % self.i

    def __eq__(self, o):
        return isinstance(o, Obj) and o.i == self.i

    def __hash__(self):
        return hash(("Obj", self.i))


TUPLES = {4: (), 5: (7,), 6: (1, 2)}
TUPLE_IDS = {v: k for k, v in TUPLES.items()}


class SerOut:
    def __init__(self, sid, k, v):
        self.sid, self.k, self.v = sid, k, v

    def __repr__(self):
        return "SerOut(%r,%r,%r)" % (self.sid, self.k, self.v)


def builtin_classes():
    import asyncio

    return {
        100: BaseException, 101: Exception, 102: KeyboardInterrupt, 103: GeneratorExit,
        104: asyncio.CancelledError, 105: KeyError, 106: LookupError, 107: ValueError, 108: SystemExit,
        # what asyncio.TaskGroup, anyio and trio raise, also when a single thing went wrong
        109: ExceptionGroup, 110: BaseExceptionGroup,
    }


def construct_exc(cls, text):
    """an instance of an exception class of the table: groups wrap exactly one member (sometimes a group again)"""
    if issubclass(cls, BaseExceptionGroup):
        member = ValueError("member of " + text)
        if len(text) % 2:
            member = ExceptionGroup("inner group of " + text, [member])
        return cls(text, [member])
    return cls(text)


class _FileLike(object):
    def __init__(self, closed):
        self.closed = closed


class Runtime:
    """All per-case mutable harness state."""

    def __init__(self, env):
        self.env = env
        self.classes = dict(builtin_classes())
        self.cls_id = {v: k for k, v in self.classes.items()}
        for c in env["classes"]:
            if c["id"] in self.classes:
                continue
            bases = tuple(self.classes[b] for b in c["bases"])

            def __str__(self_):
                if self_._s is None:
                    # str() may fail with anything, also with a non-Exception BaseException
                    raise (GeneratorExit if getattr(self_, "_base", False) else RuntimeError)("str() of this exception raises")
                return self_._s

            attrs = {"__module__": None if c.get("oddmod") else "vmod", "__str__": __str__, "_s": "unset"}
            if c.get("unhashable"):
                attrs["__eq__"] = lambda self_, other: self_ is other
                attrs["__hash__"] = None
            if c.get("falsy"):
                # an exception object that is falsy (e.g. an aggregate of zero errors): `if exception:` is not `is not None`
                attrs["__len__"] = lambda self_: 0
            k = type(str(c["name"]), bases, attrs)
            self.classes[c["id"]] = k
            self.cls_id[k] = c["id"]
        self.excs = {e["id"]: e for e in env["excs"]}
        self.made = {}  # id(obj) -> exc id  (objects kept alive in self.keep)
        self.same_exc = {}
        self.keep = []
        self.ser_calls = 0
        self.ser_failed = 0  # serializer calls that raised
        self.ext_calls = 0
        self.ser_fail = {k: e for k, e in env["serFail"]}
        self.dest_fail = {(d, k): e for d, k, e in env["destFail"]}
        self.ext_fail = {}
        self.dests = {}
        self.offered, self.accepted = [], []
        self.reg = None  # the harness's own record of the registered destinations (None = nothing added yet), from the API calls it made
        self.offered_reg = []  # parallel to `offered`: `reg` at the moment of the call
        self.add_windows = []
        self.typed_calls = []
        self.raw_reports = []
        self.mtypes = {}
        self.with_exits = []  # (uuid tag, level) of every action left through `with action:`
        self.reserved = []  # every id returned by serialize_task_id
        self.failures = []  # (dest, call index, exc id, was the message a report?)
        self.api = []  # (call name, "ok" | "raised:<desc>")
        self.vars, self.ids = {}, {}
        self.probes = []
        self.probe_types = []
        self.cur_exc = []
        self.notes = []
        self.caller_dicts = []
        self.shared_dicts = []  # dicts owned by the application that eliot is handed: (object, original content)
        self.writes = []  # every Logger.write call: (canonical dict before the call, has serializer)
        self.uuids = set()
        self.checks = []  # model-free property checks that failed: (property tag, what)
        self.nchecks = {}

    def var(self, x):
        if x not in self.vars:
            raise Stuck()
        return self.vars[x]

    def take_id(self, y):
        if y not in self.ids:
            raise Stuck()
        return self.ids.pop(y)

    def check(self, tag, ok, what):
        self.nchecks[tag] = self.nchecks.get(tag, 0) + 1
        if not ok:
            self.checks.append((tag, what))

    # exceptions -----------------------------------------------------------------------
    def make_exc(self, i):
        if i >= 8 and self.env.get("sameExcObj") and i in self.same_exc:
            # a callback that fails with the very same exception object every time (`future.result()` of a failed future, a
            # cached error, a module-level sentinel exception)
            return self.same_exc[i]
        obj = self._make_exc(i)
        if i >= 8:
            self.same_exc[i] = obj
        return obj

    def _make_exc(self, i):
        e = self.excs[i]
        obj = construct_exc(self.classes[e["cls"]], "exc%d" % i)
        try:
            obj._s = e["str"]
            obj._base = bool(e.get("str_base"))
        except Exception:
            pass
        self.made[id(obj)] = i
        self.keep.append(obj)
        return obj

    def exc_tag(self, obj):
        if id(obj) in self.made:
            return {"user": self.made[id(obj)]}
        return {"foreign": "%s: %s" % (type(obj).__name__, _safe(obj))}

    # callbacks ------------------------------------------------------------------------
    def extractor(self, spec):
        fields = dict((k, self.value(v)) for k, v in spec["fields"])
        fail = {k: e for k, e in spec["failAt"]}

        shared = dict(fields)  # handed out again and again, like `vars(exception)` or a module-level constant
        self.shared_dicts.append((shared, dict(fields)))

        def extract(exc):
            k = self.ext_calls
            self.ext_calls += 1
            if k in fail or ALWAYS in fail:
                raise self.make_exc(fail.get(k, fail.get(ALWAYS)))
            return shared

        return extract

    def field(self, key, sid):
        import eliot

        if key == "missing":
            # a declared plain typed field (identity serializer) the program never supplies
            return eliot.Field.forTypes(key, [int], "")
        ser = self.serializer(sid)
        if sid % 4 == 1:
            # an application's own Field class: the serializing is done by its public `serialize` method (the documented
            # extension point), the constructor argument is the identity
            class OwnField(eliot.Field):
                def serialize(self_, input):
                    return ser(input)

            f = OwnField(key, lambda v: v, "")
            f.serialize.__func__._harness_sid = sid
            f._harness_own = True
            return f
        return eliot.Field(key, ser, "")

    def final_snapshot_check(self):
        for d, snap, snapshot in self.caller_dicts:
            self.check("caller-dict", snapshot(d) == snap, "a dictionary passed to Logger.write was modified after the call returned")

    def serializer(self, sid):
        def ser(v):
            k = self.ser_calls
            self.ser_calls += 1
            if k in self.ser_fail:
                self.ser_failed += 1
                raise self.make_exc(self.ser_fail[k])
            return SerOut(sid, k, v)

        ser._harness_sid = sid
        return ser

    def dest(self, d):
        if d not in self.dests:
            rt = self

            class Dest:
                def __init__(self):
                    self.calls = 0

                def __call__(self, message):
                    k = self.calls
                    self.calls += 1
                    c = rt.canon_msg(message)
                    rt.offered.append([d, c])
                    rt.offered_reg.append(None if rt.reg is None else list(rt.reg))
                    if isinstance(message, dict) and message.get("message_type") == "eliot:destination_failure":
                        rt.raw_reports.append((d, message.get("message")))
                    if rt.env.get("fileDests"):
                        # a destination that looks like a FileDestination whose file the application closed (for a while):
                        # it has a `file` attribute, and that reports `closed` while the destination's calls fail
                        self.file = _FileLike((d, k) in rt.dest_fail)
                    if (d, k) in rt.dest_fail:
                        # what a report about this failure has to show of the message: repr of every key and value
                        shown = {_safe_repr(kk): _safe_repr(vv) for kk, vv in message.items()} if isinstance(message, dict) else None
                        rt.failures.append((d, k, rt.dest_fail[(d, k)], c.get("message_type") == "eliot:destination_failure", c, shown))
                        raise rt.make_exc(rt.dest_fail[(d, k)])
                    rt.accepted.append([d, c])

                def __repr__(self):
                    return "Dest(%d)" % d

            if self.env.get("eqDests"):
                Dest.__eq__ = lambda self_, other: type(other).__name__ == "Dest"
                Dest.__hash__ = lambda self_: 7

            self.dests[d] = Dest()
        return self.dests[d]

    # values ---------------------------------------------------------------------------
    def value(self, fv):
        if "n" in fv:
            return fv["n"]
        if "s" in fv:
            return fv["s"]
        if "o" in fv:
            # objects 4..6 are tuples (opaque objects for the model; they exercise %-formatting and repr paths in the library)
            return TUPLES.get(fv["o"]) if fv["o"] in TUPLES else Obj(fv["o"])
        raise ValueError(fv)

    def kwargs(self, fields):
        return {k: self.value(v) for k, v in fields}

    def canon_val(self, key, v, mtype):
        if key == "task_uuid" and isinstance(v, str) and v.startswith("uuid-"):
            return {"uuid": int(v[5:])}
        if key == "timestamp" and isinstance(v, float) and v == int(v):
            return {"ts": int(v)}
        if key == "traceback" and isinstance(v, str) and mtype == "eliot:traceback":
            return "tb"
        if key == "message" and mtype in ("eliot:destination_failure", "eliot:serialization_failure") and isinstance(v, str):
            try:
                d = ast.literal_eval(v)
                return {"render": sorted(ast.literal_eval(k) for k in d)}
            except Exception:
                return {"render-unparsed": v[:200]}
        return self.canon_plain(v)

    def canon_plain(self, v):
        if isinstance(v, bool) or v is None:
            return {"py": repr(v)}
        if isinstance(v, int):
            return v
        if isinstance(v, str):
            return v
        if isinstance(v, Obj):
            return {"obj": v.i}
        if isinstance(v, tuple) and v in TUPLE_IDS:
            return {"obj": TUPLE_IDS[v]}
        if isinstance(v, SerOut):
            return {"ser": [v.sid, v.k, self.canon_plain(v.v)]}
        if isinstance(v, list) and all(isinstance(x, int) for x in v):
            return list(v)
        return {"py": _safe_repr(v)[:200]}

    def canon_msg(self, m):
        if not isinstance(m, dict):
            return {"not-a-dict": _safe_repr(m)[:200]}
        mtype = m.get("message_type")
        return {str(k): self.canon_val(k, v, mtype) for k, v in m.items()}


def _safe(o):
    try:
        return str(o)
    except BaseException:
        return "<str raised>"


def _safe_repr(o):
    try:
        return repr(o)
    except BaseException:
        return "<repr raised>"


class Clock:
    def __init__(self):
        self.n = itertools.count()

    def time(self):
        return float(next(self.n))


class Stuck(Exception):
    """The program uses a handle / task id that is not bound (outside the model's domain)."""


class ApiRaised(Exception):
    """An eliot API call raised (C07 violation unless misuse); carries the original."""


def run_case(case):
    """Execute one case on the real code. Never raises (except for harness bugs)."""
    import eliot
    from eliot import _action, _output, _errors

    rt = Runtime(case["env"])
    # --- reset global state of the library
    dst = _output.Logger._destinations
    saved_dst = (dst._destinations, dst._any_added, dst._globalFields)
    dst.__init__()
    saved_reg = dict(_errors._error_extraction.registry)
    _errors._error_extraction.registry.clear()
    saved_time, saved_uuid = _action.time, getattr(_action, "uuid4", None)  # (a source that no longer uses uuid4 shows up as a broken tie)
    _action.time = Clock()
    uu = itertools.count()
    _action.uuid4 = lambda: "uuid-%d" % next(uu)
    orig_write = _output.Logger.write

    def write(self, dictionary, serializer=None):
        def snapshot(d):
            try:
                return [(k, id(v), canon(rt.canon_plain(v))) for k, v in d.items()]
            except Exception:  # noqa
                return None

        snap = snapshot(dictionary)
        if snap is not None:
            rt.caller_dicts.append((dictionary, snap, snapshot))
        declared = sorted(k for k in getattr(serializer, "fields", {})) if serializer is not None else None
        # the declared fields whose serializer is one of the program's (tagging) serializers: they must arrive serialized
        tagging = sorted(k for k, f in getattr(serializer, "fields", {}).items()
                         if hasattr(getattr(f, "_serializer", None), "_harness_sid") or getattr(f, "_harness_own", False)) if serializer is not None else None
        rt.writes.append((rt.canon_msg(dictionary), serializer is not None, declared, tagging))
        try:
            return orig_write(self, dictionary, serializer)
        finally:
            if snap is not None:
                rt.check("caller-dict", snapshot(dictionary) == snap, "Logger.write modified the dictionary (or a value) it was given")

    _output.Logger.write = write
    for spec in case["env"]["extractors"]:
        eliot.register_exception_extractor(rt.classes[spec["cls"]], rt.extractor(spec))
    result = {}

    def body():
        try:
            exec_block(rt, case["prog"])
            result["outcome"] = "ok"
        except ApiRaised as e:
            result["outcome"] = {"api-raised": str(e)}
        except Stuck:
            result["outcome"] = "stuck"
        except BaseException as e:  # noqa: the program's own exception leaving the top level
            result["outcome"] = {"raised": rt.exc_tag(e)}
        a = _action.current_action()
        result["ctx"] = ctx_tag(a)
        result["ctxType"] = None if a is None else a._identification.get("action_type")

    try:
        if case["env"].get("warnErrors"):
            # the application runs with warnings turned into errors (python -W error, pytest's filterwarnings = error) - except
            # DeprecationWarning, which the library raises itself on internal paths (write_traceback uses the deprecated
            # MessageType.__call__; recorded in DESIGN section 8 as outside every property)
            import warnings
            with warnings.catch_warnings():
                warnings.simplefilter("error")
                warnings.simplefilter("ignore", DeprecationWarning)
                warnings.simplefilter("ignore", PendingDeprecationWarning)
                contextvars.Context().run(body)
        else:
            contextvars.Context().run(body)
    finally:
        dst._destinations, dst._any_added, dst._globalFields = saved_dst
        _errors._error_extraction.registry.clear()
        _errors._error_extraction.registry.update(saved_reg)
        _action.time = saved_time
        if saved_uuid is not None:
            _action.uuid4 = saved_uuid
        else:
            del _action.uuid4
        _output.Logger.write = orig_write
    buf = 0
    result.update(offered=rt.offered, accepted=rt.accepted, probes=rt.probes, probeTypes=rt.probe_types)
    for obj, orig in rt.shared_dicts:
        rt.check("app-object", obj == orig, "a dictionary returned by an exception extractor (an object the application still owns) was modified by eliot: %r" % sorted(set(obj) - set(orig)))
    return result, rt


def ctx_tag(a):
    if a is None:
        return None
    try:
        u = a.task_uuid
        return [int(u[5:]) if isinstance(u, str) and u.startswith("uuid-") else u, a._task_level.as_list()]
    except Exception as e:  # noqa
        return {"bad-action": _safe_repr(a)}


def api(rt, name, f, *a, **kw):
    """Call an eliot logging API; record whether it raised."""
    try:
        r = f(*a, **kw)
    except BaseException as e:  # noqa
        rt.api.append((name, "raised:%s: %s" % (type(e).__name__, _safe(e))))
        raise ApiRaised("%s raised %s: %s" % (name, type(e).__name__, _safe(e))) from e
    rt.api.append((name, "ok"))
    return r


def make_action(rt, task, spec):
    a = _make_action(rt, task, spec)
    return a


def placement_check(rt, parent, n0, what, task=False):
    """The first dict written since `n0` is the message of the call just made: it must sit in
    `parent` (next level below it, same uuid) or, with no parent / for a task, start a new tree."""
    if len(rt.writes) <= n0:
        rt.check("placement", False, "%s wrote nothing" % what)
        return
    m = rt.writes[n0][0]
    u, lvl = m.get("task_uuid"), m.get("task_level")
    key = canon_key(u)
    if parent is None or task:
        rt.check("placement", isinstance(lvl, list) and lvl == [1] and key not in rt.uuids,
                 "%s with no current action (or start_task) did not start a new tree: uuid %s level %s" % (what, u, lvl))
    else:
        pu, pl = parent
        # a message is a direct item of the current action (one more component); the start message of a new action is the first
        # item of a direct child (two more components, the last one 1)
        started = m.get("action_status") == "started"
        direct = (isinstance(lvl, list) and lvl[:len(pl)] == pl and all(isinstance(x, int) and x >= 1 for x in lvl[len(pl):])
                  and (len(lvl) == len(pl) + 2 and lvl[-1] == 1 if started else len(lvl) == len(pl) + 1))
        rt.check("placement", key == canon_key(pu) and direct,
                 "%s inside action %s%s was placed at uuid %s level %s" % (what, pu, pl, u, lvl))
    rt.uuids.add(key)


def canon_key(u):
    return repr(u)


def parent_of():
    from eliot import _action

    a = _action.current_action()
    if a is None:
        return None
    t = ctx_tag(a)
    return ({"uuid": t[0]} if isinstance(t, list) else t, t[1] if isinstance(t, list) else [])


def _make_action(rt, task, spec):
    import eliot

    parent = parent_of()
    n0 = len(rt.writes)
    a = _make_action2(rt, task, spec)
    placement_check(rt, parent, n0, "start_task" if task else "start_action", task)
    return a


def _make_action2(rt, task, spec):
    import eliot

    kw = rt.kwargs(spec["fields"])
    if spec.get("sers") is not None:
        at = eliot.ActionType(
            spec["atype"],
            [rt.field(k, sid) for k, sid in spec["sers"]["start"]],
            [rt.field(k, sid) for k, sid in spec["sers"]["success"]],
        )
        return api(rt, "ActionType.as_task" if task else "ActionType()", at.as_task if task else at, **kw)
    f = eliot.start_task if task else eliot.start_action
    return api(rt, "start_task" if task else "start_action", f, action_type=spec["atype"], **kw)


def log_with(rt, target, ms):
    if target is None:
        parent = parent_of()
    else:
        t = ctx_tag(target)
        parent = ({"uuid": t[0]}, t[1])
    n0 = len(rt.writes)
    r = _log_with(rt, target, ms)
    placement_check(rt, parent, n0, "log_message")
    return r


def _log_with(rt, target, ms):
    import eliot

    kw = rt.kwargs(ms["fields"])
    # the same logging call has several spellings in the public API (some deprecated); rotate through them
    variant = len(rt.api) % 3
    if ms.get("sers") is not None:
        tkey = (ms["mtype"], tuple((k, sid) for k, sid in ms["sers"]))
        if tkey not in rt.mtypes:
            rt.mtypes[tkey] = eliot.MessageType(ms["mtype"], [rt.field(k, sid) for k, sid in ms["sers"]])
        mt = rt.mtypes[tkey]  # the same type object (and Field objects) every time the program logs through this type
        from eliot import _action as _a
        rt.typed_calls.append((len(rt.writes), ctx_tag(_a.current_action())))  # the next Logger.write is this typed message's
        if target is None:
            if variant == 1:
                return api(rt, "MessageType()().write", lambda: mt(**kw).write())
            return api(rt, "MessageType.log", mt.log, **kw)
        if variant != 0:
            return api(rt, "MessageType()().write(action=)", lambda: mt(**kw).write(action=target))
        kw["__eliot_serializer__"] = mt._serializer
        return api(rt, "Action.log(typed)", target.log, ms["mtype"], **kw)
    if target is None:
        if variant == 1 and "message_type" not in kw:
            return api(rt, "Message.log", eliot.Message.log, message_type=ms["mtype"], **kw)
        if variant == 2 and "message_type" not in kw:
            return api(rt, "Message.new().bind().write", lambda: eliot.Message.new(message_type=ms["mtype"]).bind(**kw).write())
        return api(rt, "log_message", eliot.log_message, ms["mtype"], **kw)
    if variant == 1 and "message_type" not in kw:
        return api(rt, "Message.write(action=)", lambda: eliot.Message.new(message_type=ms["mtype"], **kw).write(action=target))
    return api(rt, "Action.log", target.log, ms["mtype"], **kw)


def with_block(rt, action, body):
    """`with action: body`, spelled out so that the protocol itself can be observed."""
    from eliot import _action

    before = _action.current_action()
    api(rt, "Action.__enter__", action.__enter__)
    rt.check("ctx", _action.current_action() is action, "inside `with action:` current_action() is not that action")
    exc = None
    try:
        exec_block(rt, body)
    except (ApiRaised, Stuck):
        raise
    except BaseException as e:  # noqa
        exc = e
    n0 = len(rt.writes)
    try:
        if exc is None:
            r = api(rt, "Action.__exit__", action.__exit__, None, None, None)
        else:
            r = api(rt, "Action.__exit__", action.__exit__, type(exc), exc, exc.__traceback__)
    finally:
        # which Logger.write calls happened inside this __exit__ (its end message, if it wrote one, and what followed)
        rt.with_exits.append((ctx_tag(action), n0, len(rt.writes), ctx_tag(before)))
    rt.check("ctx", _action.current_action() is before, "after `with action:` current_action() is not what it was before entry (exit by %s)" % ("exception" if exc is not None else "return"))
    if r:
        rt.api.append(("Action.__exit__", "swallowed"))
        rt.notes.append("__exit__ returned a truthy value: the exception would be swallowed")
        return
    if exc is not None:
        raise exc


def exec_block(rt, block):
    for s in block:
        exec_stmt(rt, s)


def exec_stmt(rt, s):
    import eliot
    from eliot import _action

    op = s["op"]
    if op == "with":
        a = make_action(rt, s["task"], s["spec"])
        with_block(rt, a, s["body"])
    elif op == "log":
        log_with(rt, None, s["ms"])
    elif op == "raise":
        raise rt.make_exc(s["e"])
    elif op == "try":
        try:
            exec_block(rt, s["body"])
        except (ApiRaised, Stuck):
            raise
        except BaseException as e:  # noqa
            rt.cur_exc.append(e)
            try:
                exec_block(rt, s["handler"])
            finally:
                rt.cur_exc.pop()
    elif op == "tb":
        e = rt.cur_exc[-1]
        api(rt, "write_traceback", eliot.write_traceback, exc_info=(type(e), e, e.__traceback__))
    elif op == "startAs":
        rt.vars[s["x"]] = make_action(rt, s["task"], s["spec"])
    elif op == "withHandle":
        with_block(rt, rt.var(s["x"]), s["body"])
    elif op == "inContext":
        a = rt.var(s["x"])
        cm = api(rt, "Action.context", a.context)
        before = _action.current_action()
        try:
            with cm:
                rt.check("ctx", _action.current_action() is a, "inside `with action.context():` current_action() is not that action")
                exec_block(rt, s["body"])
        finally:
            rt.check("ctx", _action.current_action() is before, "after `with action.context():` current_action() is not what it was before entry")
    elif op == "runIn":
        a = rt.var(s["x"])
        marker = object()

        def f():
            rt.check("ctx", _action.current_action() is a, "inside `action.run(f)` current_action() is not that action")
            exec_block(rt, s["body"])
            return marker

        before = _action.current_action()
        try:
            r = a.run(f)
        finally:
            rt.check("ctx", _action.current_action() is before, "after `action.run(f)` current_action() is not what it was before the call")
        rt.check("ret", r is marker, "Action.run did not return the function's return value")
    elif op == "finish":
        a = rt.var(s["x"])
        if s.get("exc") is None:
            api(rt, "Action.finish", a.finish)
        else:
            api(rt, "Action.finish", a.finish, rt.make_exc(s["exc"]))
    elif op == "addSuccess":
        a = rt.var(s["x"]) if s.get("x") is not None else _action.current_action()
        if a is None:
            raise Stuck()
        api(rt, "add_success_fields", a.add_success_fields, **rt.kwargs(s["fs"]))
    elif op == "logTo":
        log_with(rt, rt.var(s["x"]), s["ms"])
    elif op == "serializeAs":
        a = rt.var(s["x"]) if s.get("x") is not None else _action.current_action()
        if a is None:
            raise Stuck()
        rt.ids[s["y"]] = api(rt, "serialize_task_id", a.serialize_task_id)
        rt.reserved.append(rt.ids[s["y"]])
    elif op == "continueWith":
        spec = s["spec"]
        tid = rt.take_id(s["y"])
        if s["y"] % 2:
            tid = tid.decode("ascii")  # text form
        a = api(rt, "continue_task", eliot.Action.continue_task, task_id=tid, action_type=spec["atype"], **rt.kwargs(spec["fields"]))
        with_block(rt, a, s["body"])
    elif op == "addDests":
        n0 = len(rt.accepted)
        rt.reg = list(s["ds"]) if rt.reg is None else rt.reg + list(s["ds"])  # the first call delivers the backlog to exactly these
        api(rt, "add_destinations", eliot.add_destinations, *[rt.dest(d) for d in s["ds"]])
        rt.add_windows.append((n0, len(rt.accepted), list(s["ds"])))  # what this call itself delivered (the start-up backlog)
    elif op == "removeDest":
        from eliot import _output
        if rt.dest(s["d"]) not in _output.Logger._destinations._destinations:
            raise Stuck()  # removing a destination that is not registered: misuse, outside the model
        api(rt, "remove_destination", eliot.remove_destination, rt.dest(s["d"]))
        if rt.reg is not None and s["d"] in rt.reg:
            rt.reg.remove(s["d"])
    elif op == "addGlobals":
        api(rt, "add_global_fields", eliot.add_global_fields, **rt.kwargs(s["fs"]))
    elif op == "probe":
        a = _action.current_action()
        rt.probes.append([s["n"], ctx_tag(a)])
        rt.probe_types.append([s["n"], None if a is None else a._identification.get("action_type")])
    else:
        raise ValueError(op)
