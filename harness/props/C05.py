"""C05 - concurrent threads and coroutines never leak action context into each other.

Case = fork-join program (unit 0 = main; other units are threads or asyncio tasks; statements
enter/exit/log/create/with/ctx/remote/thread/pthread/task/join with occurrence ids; `with h` / `ctx h` use an Action object created by any unit) + schedule (list of unit ids).  The real side
runs every unit as a real thread / a real asyncio task; each unit executes exactly one statement per
release (threads: semaphore handshake between logging calls; tasks: parked on a harness-owned future
at every await point), a controller coroutine releases them in schedule order.  Model:
Driver/C05.lean (Eliot.Conc.Ctx).
"""
import itertools

from ..framework import lean_driver

PROP = "C05"
LEAN_TARGETS = ["Eliot.Properties.C05"]
AUDIT = "Eliot/Audit/C05.lean"
THEOREMS = [
    "Ctx.C05.ctx_noninterference", "Ctx.C05.new_thread_no_action", "Ctx.C05.task_inherits_creator",
    "Ctx.C05.attribution_schedule_independent", "Ctx.C05.attribution_schedule_independent_lookup",
    "Ctx.C05.tree_shape_schedule_independent", "Ctx.C05.tree_shape_schedule_independent_allDone",
    "Ctx.C05.unit_order", "Ctx.C05.unit_order_schedule_independent",
]
GENERATED_OBLIGATIONS = ["Generated.actionContext: ContextVar used only through get/set/reset (E7)"]
RULE = ("fork-join programs: 2-4 units (threads or asyncio tasks, nested spawns allowed), 2-6 logging statements each (enter/exit of own "
        "actions, messages), every spawned unit joined before the enclosing action ends; Action objects are shared between units: blocks "
        "`with h.context():` on an action of an ancestor that is open during the unit's whole life (several units on the SAME action, "
        "overlapping), and `with h:` in one unit on an action created for it by its spawner (possibly before the handle exists: the unit waits); units spawned inside a `with h.context():` segment which the creator leaves "
        "before the unit logs; plus 9 thread schedules of two failing actions with exception extractors (one raising), one thread parked "
        "inside the delivery of its eliot:traceback message, and of two threads registering extractors for two classes, one parked before "
        "each source line of register_exception_extractor (both oracle only, not in the Lean model); schedules: ALL interleavings of small programs "
        "(<= 2 units x <= 3 steps inside the fork), random enabled picks (+ some disabled picks) for larger ones; "
        "non-trivial = >= 1 preemption while the preempted unit is inside an action it entered or inherited; distinct by canonical hash")
TRUSTED = ["CPython contextvars semantics for threads (fresh context) and asyncio tasks (copy at creation) are modelled (Ctx.step), validated by this run",
           "the controller / handshake of the harness (one statement per release)"]
ASSUMPTIONS = ["occurrence ids are unique (OccUnique) and every unit is spawned once by a lower-numbered unit",
               "Action objects ARE shared between units (handles): any unit may run `with h.context():` blocks on any live action, "
               "unrestricted; `with h:` (Action.__enter__/__exit__) keeps its reset token on the Action itself, so an Action is inside at most "
               "one such block at a time and is not entered again once finished - in the model a `withOf h` that would break this is disabled "
               "(out of domain), the generator never produces one; two units calling methods of one Action at the same instant (a data race "
               "inside eliot, not a schedule at logging-call boundaries) is outside the model",
               "thread units spawn/join threads only; task units may spawn/join both",
               "a thread started through preserve_context (pthread) is, for the model, a unit that inherits the action current where the "
               "wrapper was made and whose first statement `remote o` continues it (the real thread has no current action before that call)",
               "`remote o` restores the empty context when its block ends: right only as the first statement of a thread unit (the generator "
               "puts it nowhere else); without an action current where the wrapper is made the unit is a plain thread (in the model `remote` is then disabled)",
               "E7 checks that `_ACTION_CONTEXT` is touched only through get/set/reset and that every reset's argument is the very expression a "
               "`set` result was stored in, in the same function (`parent`) or class (`self._parent_token`); that the stored token is not "
               "overwritten between the two is the `with`-block assumption above"]
EXPLANATION = ("potential-function proof: log ++ future ~ sequential log for every schedule; model tied to the code by comparing, per step, "
               "the unit's current_action() before/after and the emitted message with its parent")

TIMEOUT = 10.0


# ---- programs -------------------------------------------------------------------------------

def gen_unit_body(rng, ctr, nlog):
    """straight-line own work: nlog logging statements (enter / log; exits balanced)"""
    out, depth, n = [], 0, 0
    while n < nlog:
        r = rng.random()
        if r < 0.35 and depth < 2:
            out.append(["enter", next(ctr)])
            depth += 1
            n += 1
        elif r < 0.5 and depth > 0:
            out.append(["exit"])
            depth -= 1
            n += 1
        else:
            out.append(["log", next(ctr)])
            n += 1
    out += [["exit"]] * depth
    return out


def open_handles(code, pos):
    """handles of the blocks of `code` that are open at position `pos` (innermost last)"""
    st = []
    for x in code[:pos]:
        if x[0] in ("enter", "with", "ctx", "remote"):
            st.append(x[1])
        elif x[0] == "exit" and st:
            st.pop()
    return st


def wrap_segment(rng, code, opener):
    """insert `opener` ... ["exit"] around a random segment of `code` such that the new block is properly
    nested and the program stays fork-join; returns the new code or None"""
    closer = ["exit"]
    for _ in range(12):
        a = rng.randrange(len(code) + 1)
        b = rng.randrange(a, len(code) + 1)
        new = code[:a] + [opener] + code[a:b] + [closer] + code[b:]
        st, ok = [], True
        for x in new:
            if x[0] in ("enter", "with", "ctx", "remote"):
                st.append(x)
            elif x[0] == "exit":
                if not st:
                    ok = False
                    break
                top = st.pop()
                if (x is closer) != (top is opener):
                    ok = False
                    break
        if ok and not st and joined(new):
            return new
    return None


def gen_program(rng, nunits, family):
    """family: 'threads' (all threads) | 'tasks' (all tasks) | 'mixed' (tasks that may spawn threads).
    Units share Action objects: a unit may run a block in the context of an action of an ancestor that is
    open during its whole life (`ctx h`), and may enter (`with h`) an action its spawner created for it."""
    ctr = itertools.count(1)
    kinds = {0: "thread" if family == "threads" else "task"}
    codes = [None] * nunits
    children = {u: [] for u in range(nunits)}
    for v in range(1, nunits):
        u = rng.randrange(v)
        if family == "threads" or kinds[u] in ("thread", "pthread"):
            # a plain thread, or one whose function is handed over through preserve_context()
            k = rng.choice(["thread", "pthread"])
        elif family == "tasks":
            k = "task"
        else:
            k = rng.choice(["thread", "pthread", "task"])
        kinds[v] = k
        children[u].append(v)
    for u in range(nunits):
        body = gen_unit_body(rng, ctr, rng.randint(2, 6))
        # fork ... join pairs: spawn somewhere, join later at the same depth before leaving the enclosing action
        for v in children[u]:
            depth = [0]
            for st in body:
                depth.append(depth[-1] + (1 if st[0] == "enter" else -1 if st[0] == "exit" else 0))
            i = rng.randrange(len(body) + 1)
            d = depth[i]
            j = i
            best = [i]
            while j < len(body) and depth[j + 1] >= d:
                j += 1
                if depth[j] >= d:
                    best.append(j)
            jpos = rng.choice(best)
            body = body[:i] + [[kinds[v], v]] + body[i:jpos] + [["join", v]] + body[jpos:]
        codes[u] = body
    # shared Action objects
    avail = {0: []}
    nshared = 0
    for u in range(nunits):
        for v in children[u]:
            job = None
            if rng.random() < 0.45:
                job = 1000 + next(ctr)
                i = next(k for k, st in enumerate(codes[u]) if st[0] in ("thread", "task", "pthread") and st[1] == v)
                # before the spawn, or after it (then the other unit has to wait for the handle)
                at = i if rng.random() < 0.6 else i + 1
                codes[u] = codes[u][:at] + [["create", job]] + codes[u][at:]
            i = next(k for k, st in enumerate(codes[u]) if st[0] in ("thread", "task", "pthread") and st[1] == v)
            # spawn inside a `with h.context():` segment that the creator leaves right away: the child keeps h
            here = avail[u] + open_handles(codes[u], i)
            if here and rng.random() < 0.35:
                codes[u] = codes[u][:i] + [["ctx", rng.choice(here)], codes[u][i], ["exit"]] + codes[u][i + 1:]
                i += 1
                nshared += 1
            avail[v] = avail[u] + open_handles(codes[u], i)
            if job is not None:
                new = wrap_segment(rng, codes[v], ["with", job])
                if new is None:
                    new = [["with", job]] + codes[v] + [["exit"]] if joined([["with", job]] + codes[v] + [["exit"]]) else None
                if new is None:
                    codes[u] = [st for st in codes[u] if st != ["create", job]]
                else:
                    codes[v] = new
                    nshared += 1
            for _ in range(2):
                if avail[v] and rng.random() < 0.5:
                    new = wrap_segment(rng, codes[v], ["ctx", rng.choice(avail[v])])
                    if new is not None:
                        codes[v] = new
                        nshared += 1
    # a preserve_context thread continues the action current where the wrapper is made (`remote`); with no action
    # there preserve_context returns the function itself: the unit is then a plain thread for the model
    parent_of = {v: u for u in children for v in children[u]}
    has_remote = {}

    def base_some(u):
        if u == 0 or kinds[u] == "thread":
            return False
        if kinds[u] == "pthread":
            return False          # its own context is empty; inside the `remote` block the stack below says otherwise
        return ctx_some(parent_of[u], u)

    def ctx_some(u, v):
        """is some action current in unit u where it spawns v?"""
        cur, stack = base_some(u), []
        for st in codes[u]:
            if st[0] in ("thread", "task", "pthread") and st[1] == v:
                return cur
            if st[0] in ("enter", "with", "ctx", "remote"):
                stack.append(cur)
                cur = True
            elif st[0] == "exit" and stack:
                cur = stack.pop()
        return cur

    for v in range(1, nunits):
        if kinds[v] == "pthread":
            has_remote[v] = ctx_some(parent_of[v], v)
            if has_remote[v]:
                codes[v] = [["remote", 2000 + next(ctr)]] + codes[v] + [["exit"]]
    return dict(codes=codes, family=family, kinds=[kinds[u] for u in range(nunits)], shared=nshared)


def joined(code):
    """Python mirror of Ctx.joinedB [] [] code: a unit must be joined before the action enclosing its spawn ends;
    leaving a `ctx` block ends no action"""
    pend, stk = [], []
    for st in code:
        if st[0] in ("enter", "with", "remote"):
            stk.append(True)
        elif st[0] == "ctx":
            stk.append(False)
        elif st[0] == "exit":
            if stk:
                d = sum(stk)
                if stk.pop() and any(dv >= d for _v, dv in pend):
                    return False
        elif st[0] in ("thread", "task", "pthread"):
            pend.append((st[1], sum(stk)))
        elif st[0] == "join":
            pend = [e for e in pend if e[0] != st[1]]
    return not pend


def enabled(codes, pcs, started, u, created=None):
    if u >= len(codes) or not started[u] or pcs[u] >= len(codes[u]):
        return False
    st = codes[u][pcs[u]]
    if st[0] == "join":
        v = st[1]
        return started[v] and pcs[v] >= len(codes[v])
    if st[0] in ("with", "ctx"):
        return created is not None and st[1] in created
    return True


def advance(codes, pcs, started, u, created=None):
    st = codes[u][pcs[u]]
    pcs = list(pcs)
    started = list(started)
    pcs[u] += 1
    if st[0] in ("thread", "task", "pthread"):
        started[st[1]] = True
    if created is not None and st[0] in ("enter", "create"):
        created = created | {st[1]}
    return pcs, started, created


def all_schedules(codes, limit):
    """all maximal schedules (no stutter), DFS, at most `limit`"""
    out = []

    def rec(pcs, started, created, acc):
        if len(out) >= limit:
            return
        en = [u for u in range(len(codes)) if enabled(codes, pcs, started, u, created)]
        if not en:
            out.append(acc)
            return
        for u in en:
            p2, s2, c2 = advance(codes, pcs, started, u, created)
            rec(p2, s2, c2, acc + [u])

    rec([0] * len(codes), [True] + [False] * (len(codes) - 1), frozenset(), [])
    return out


def seq_schedule(codes):
    """sequential reference: always run the most recently started unit that can run (a spawned unit
    runs to its end, or until it has to wait for a handle, right where it is spawned)"""
    pcs, started, created, acc = [0] * len(codes), [True] + [False] * (len(codes) - 1), frozenset(), []
    order = [0]
    while True:
        en = [u for u in reversed(order) if enabled(codes, pcs, started, u, created)]
        if not en:
            break
        u = en[0]
        st = codes[u][pcs[u]]
        pcs, started, created = advance(codes, pcs, started, u, created)
        acc.append(u)
        if st[0] in ("thread", "task", "pthread"):
            order.append(st[1])
    return acc


def random_schedule(rng, codes):
    pcs, started, created, acc = [0] * len(codes), [True] + [False] * (len(codes) - 1), frozenset(), []
    while True:
        en = [u for u in range(len(codes)) if enabled(codes, pcs, started, u, created)]
        if not en:
            break
        if rng.random() < 0.1:
            acc.append(rng.randrange(len(codes)))  # possibly disabled: must stutter
            if acc[-1] in en:
                pcs, started, created = advance(codes, pcs, started, acc[-1], created)
            continue
        u = rng.choice(en)
        pcs, started, created = advance(codes, pcs, started, u, created)
        acc.append(u)
    return acc


# ---- real side ------------------------------------------------------------------------------

class Unit(object):
    def __init__(self):
        self.acts = []
        self.base = None
        self.pc = 0
        self.started = False
        self.thread = None
        self.task = None
        self.fut = None
        self.go = None
        self.done_evt = None
        self.reported = None


class Runner(object):
    def __init__(self, case):
        self.codes = case["codes"]
        self.kinds = case["kinds"]
        self.sched = case["sched"]
        self.U = [Unit() for _ in self.codes]
        self.ids = {}
        self.keep = []
        self.H = {}          # handle (occurrence id) -> Action object, shared by all units
        self.lg = None       # the MemoryLogger of this run
        self.remote = {}     # "uuid@level" of a continued (remote) action -> its occurrence id
        self.trace = []
        self.log = []
        self.problems = []

    def aid(self, act):
        if act is None:
            return None
        return self.ids.get(id(act), "unknown-action")

    # one statement, executed INSIDE unit u's thread / task
    def exec_sync(self, u, st):
        import threading
        import asyncio
        from eliot import start_action, log_message, current_action

        U = self.U[u]
        before = current_action()
        exp_before = U.acts[-1][0] if U.acts else U.base
        rec = dict(u=u, ok=True, before=self.aid(before), exp_before=self.aid(exp_before))
        try:
            op = st[0]
            if op == "enter":
                a = start_action(action_type="act", occ=st[1], unit=u)
                self.ids[id(a)] = st[1]
                self.keep.append(a)
                self.log.append(dict(unit=u, occ=st[1], kind="start", parent=self.aid(before)))
                self.H[st[1]] = a
                a.__enter__()
                U.acts.append((a, a))
            elif op == "create":
                a = start_action(action_type="act", occ=st[1], unit=u)
                self.ids[id(a)] = st[1]
                self.keep.append(a)
                self.log.append(dict(unit=u, occ=st[1], kind="start", parent=self.aid(before)))
                self.H[st[1]] = a
            elif op == "with":            # `with action_h:` on an action created by another unit
                a = self.H[st[1]]
                a.__enter__()
                U.acts.append((a, a))
            elif op == "ctx":             # `with action_h.context():`
                a = self.H[st[1]]
                cm = a.context()
                cm.__enter__()
                U.acts.append((a, cm))
            elif op == "exit":
                if U.acts:
                    a, cm = U.acts.pop()
                    if cm is a:
                        self.log.append(dict(unit=u, occ=self.aid(a), kind="end", parent=self.aid(a)))
                    cm.__exit__(None, None, None)
            elif op == "log":
                self.log.append(dict(unit=u, occ=st[1], kind="msg", parent=self.aid(before)))
                log_message(message_type="msg", occ=st[1], unit=u)
            elif op == "thread":
                V = self.U[st[1]]
                V.base = None
                V.started = True
                V.go = threading.Semaphore(0)
                V.done_evt = threading.Event()
                V.thread = threading.Thread(target=self.thread_main, args=(st[1],), daemon=True)
                V.thread.start()
            elif op == "pthread":
                # the unit's function goes through preserve_context() HERE; the thread calls the wrapper at its first step
                from eliot import preserve_context
                V = self.U[st[1]]
                V.base = None
                V.wrap_action = U.acts[-1][0] if U.acts else U.base      # what the wrapper must continue (harness bookkeeping)
                V.wrap_parent = self.aid(before)
                V.started = True
                V.go = threading.Semaphore(0)
                V.done_evt = threading.Event()
                if self.codes[st[1]] and self.codes[st[1]][0][0] == "remote":
                    wrapped = preserve_context(lambda v=st[1]: self.pthread_inner(v))
                    V.thread = threading.Thread(target=self.pthread_main, args=(st[1], wrapped), daemon=True)
                else:
                    # no action is current here: preserve_context hands the function back, the unit is a plain thread
                    V.thread = threading.Thread(target=preserve_context(lambda v=st[1]: self.thread_main(v)), daemon=True)
                V.thread.start()
            elif op == "task":
                V = self.U[st[1]]
                V.base = current_action()
                V.started = True
                V.reported = asyncio.Event()
                V.task = asyncio.ensure_future(self.task_main(st[1]))
            elif op == "join":
                V = self.U[st[1]]
                if V.thread is not None:
                    V.thread.join(TIMEOUT)
                    if V.thread.is_alive():
                        rec["raised"] = "join-timeout"
                # joining a task needs an await: done by the caller (task units only)
        except BaseException as e:  # noqa - an observation
            rec["raised"] = type(e).__name__
        after = current_action()
        rec["after"] = self.aid(after)
        rec["exp_after"] = self.aid(U.acts[-1][0] if U.acts else U.base)
        self.trace.append(rec)
        return rec

    def thread_main(self, u):
        U = self.U[u]
        for st in self.codes[u]:
            if not U.go.acquire(timeout=TIMEOUT):
                return
            self.exec_sync(u, st)
            U.pc += 1
            U.done_evt.set()

    def pthread_main(self, u, wrapped):
        """unit whose function went through preserve_context: code = [remote o] + body + [exit]"""
        from eliot import current_action

        U = self.U[u]
        if not U.go.acquire(timeout=TIMEOUT):
            return
        U.before_call = current_action()
        U.exit_rec = None
        try:
            wrapped()
        except BaseException as e:  # noqa - an observation
            self.trace.append(dict(u=u, ok=True, before=None, exp_before=None, after=None, exp_after=None, raised=type(e).__name__))
            U.done_evt.set()
            return
        if U.exit_rec is not None:
            rec = U.exit_rec
            rec["after"] = self.aid(current_action())
            rec["exp_after"] = None
            self.trace.append(rec)
            U.pc += 1
            U.done_evt.set()

    def pthread_inner(self, u):
        """runs inside the wrapper made by preserve_context"""
        from eliot import current_action

        U = self.U[u]
        code = self.codes[u]
        o = code[0][1]
        a = current_action()
        expect_none = U.wrap_action is None
        if a is not None and id(a) not in self.ids:
            self.ids[id(a)] = o
            self.keep.append(a)
        if not expect_none:
            self.log.append(dict(unit=u, occ=o, kind="start", parent=U.wrap_parent))
            U.acts.append((a if a is not None else object(), "remote"))
            try:
                m = self.lg.messages[-1]
                if m.get("action_status") == "started":
                    self.remote["%s@%s" % (m["task_uuid"], m["task_level"][:-1])] = o
            except Exception:  # noqa
                pass
        self.trace.append(dict(u=u, ok=True, before=self.aid(U.before_call), exp_before=None,
                               after=self.aid(a), exp_after=None if expect_none else o))
        U.pc += 1
        U.done_evt.set()
        for st in code[1:-1]:
            if not U.go.acquire(timeout=TIMEOUT):
                return
            self.exec_sync(u, st)
            U.pc += 1
            U.done_evt.set()
        if not U.go.acquire(timeout=TIMEOUT):
            return
        # the final `exit`: returning from the function leaves the continued action
        cur = current_action()
        U.exit_rec = dict(u=u, ok=True, before=self.aid(cur), exp_before=self.aid(U.acts[-1][0] if U.acts else U.base))
        if not expect_none:
            U.acts.pop()
            self.log.append(dict(unit=u, occ=o, kind="end", parent=o))

    async def task_main(self, u):
        import asyncio

        U = self.U[u]
        for st in self.codes[u]:
            U.fut = asyncio.get_running_loop().create_future()
            await U.fut                      # await point: parked until released
            rec = self.exec_sync(u, st)
            if st[0] == "join" and self.U[st[1]].task is not None:
                try:
                    await asyncio.wait_for(self.U[st[1]].task, TIMEOUT)
                except BaseException as e:  # noqa
                    rec["raised"] = type(e).__name__
                from eliot import current_action
                rec["after"] = self.aid(current_action())
            U.pc += 1
            U.fut = None
            U.reported.set()

    def is_enabled(self, u):
        if u >= len(self.U):
            return False
        U = self.U[u]
        if not U.started or U.pc >= len(self.codes[u]):
            return False
        st = self.codes[u][U.pc]
        if st[0] == "join":
            V = self.U[st[1]]
            return V.started and V.pc >= len(self.codes[st[1]])
        if st[0] in ("with", "ctx"):
            return st[1] in self.H     # the handle has been handed over (the action exists)
        return True

    async def drive(self):
        import asyncio
        import threading

        U0 = self.U[0]
        U0.started = True
        U0.base = None
        if self.kinds[0] == "thread":
            U0.go = threading.Semaphore(0)
            U0.done_evt = threading.Event()
            U0.thread = threading.Thread(target=self.thread_main, args=(0,), daemon=True)
            U0.thread.start()
        else:
            U0.reported = asyncio.Event()
            U0.task = asyncio.ensure_future(self.task_main(0))
        for u in self.sched:
            if not self.is_enabled(u):
                self.trace.append(dict(u=u, ok=False))
                continue
            U = self.U[u]
            if self.kinds[u] in ("thread", "pthread"):
                U.done_evt.clear()
                U.go.release()
                if not U.done_evt.wait(TIMEOUT):
                    self.problems.append("thread unit %d did not finish its step" % u)
                    return
            else:
                for _ in range(50):
                    if U.fut is not None:
                        break
                    await asyncio.sleep(0)
                if U.fut is None:
                    self.problems.append("task unit %d is not parked" % u)
                    return
                U.reported.clear()
                U.fut.set_result(None)
                try:
                    await asyncio.wait_for(U.reported.wait(), TIMEOUT)
                except BaseException as e:  # noqa
                    self.problems.append("task unit %d did not finish its step (%s)" % (u, type(e).__name__))
                    return
        # let finished tasks / threads wind down
        for U in self.U:
            if U.task is not None and U.pc >= len(self.codes[self.U.index(U)]):
                try:
                    await asyncio.wait_for(U.task, TIMEOUT)
                except BaseException:  # noqa
                    pass
            if U.thread is not None and U.pc >= len(self.codes[self.U.index(U)]):
                U.thread.join(TIMEOUT)


def run_real(case):
    """-> dict(trace, log, messages, done, problems)"""
    import asyncio
    import contextvars
    from eliot import MemoryLogger
    from eliot.testing import swap_logger

    r = Runner(case)
    lg = MemoryLogger()
    r.lg = lg
    prev = swap_logger(lg)
    try:
        try:
            contextvars.Context().run(asyncio.run, r.drive())
        except BaseException as e:  # noqa
            r.problems.append("driver raised %s: %s" % (type(e).__name__, e))
    finally:
        swap_logger(prev)
    # unfinished units must not linger: release everything (daemon threads die with the process anyway)
    for U in r.U:
        if U.go is not None:
            for _ in range(64):
                U.go.release()
    try:
        msgs = [dict(m) for m in lg.messages]
    except Exception:  # noqa
        msgs = []
    return dict(trace=r.trace, log=r.log, messages=msgs, done=[U.started and U.pc >= len(c) for U, c in zip(r.U, r.codes)],
                problems=r.problems, remote=r.remote)


def parse_shape(messages, remote=None):
    """unordered forest of the merged log, through the real parser: sorted list of canonical trees;
    also occ -> parent occ ('root' for a task root) for every message / action."""
    from eliot.parse import Parser
    from eliot._action import WrittenAction

    parents = {}

    def sh(n, parent):
        if isinstance(n, WrittenAction):
            sm = n.start_message
            occ = sm.contents.get("occ") if sm is not None else None
            if occ is None and remote:
                # a continued action (eliot:remote_task) carries no fields: identified by where it sits
                occ = remote.get("%s@%s" % (n.task_uuid, n.task_level.as_list()))
            parents[("start", occ)] = parent
            status = n.end_message.contents.get("action_status") if n.end_message is not None else None
            kids = []
            for c in n.children:
                kids.append(sh(c, occ))
            return ["A", occ, status, sorted(kids, key=repr)]
        occ = n.contents.get("occ")
        parents[("msg", occ)] = parent
        return ["M", occ]

    try:
        tasks = list(Parser.parse_stream(messages))
        trees = []
        for t in tasks:
            trees.append([sh(t.root(), None), bool(t.is_complete())])
        return sorted(trees, key=repr), parents, None
    except Exception as e:  # noqa
        return None, parents, "%s: %s" % (type(e).__name__, e)


# ---- oracles --------------------------------------------------------------------------------

def strip(case):
    return dict(codes=case["codes"], kinds=case["kinds"], sched=case["sched"], family=case.get("family"))


def describe(m):
    return "%s occ=%s unit=%s" % (m.get("action_type") or m.get("message_type"), m.get("occ"), m.get("unit"))


def oracle(ctx, case, real, seq_shape):
    c = strip(case)
    if real["problems"]:
        ctx.violation("the program did not run to the end of the schedule: %s" % real["problems"][0], c, key={"component": "stuck"})
        return False
    ok = True
    for k, t in enumerate(real["trace"]):
        if not t.get("ok"):
            continue
        if "raised" in t:
            ok = False
            ctx.violation("statement of unit %d raised %s" % (t["u"], t["raised"]), c, key={"component": "raised"})
            break
        if t["before"] != t["exp_before"]:
            ok = False
            first = not any(x.get("ok") and x["u"] == t["u"] for x in real["trace"][:k])
            kind = case["kinds"][t["u"]]
            if first and kind == "thread":
                what = "new thread (unit %d) starts with current_action() = %s, expected None" % (t["u"], t["before"])
                key = {"component": "new-thread"}
            elif first:
                what = "new asyncio task (unit %d) starts with current_action() = %s, its creator had %s when it created it" % (t["u"], t["before"], t["exp_before"])
                key = {"component": "task-inherit"}
            else:
                what = ("current_action() of unit %d changed from %s to %s while other units ran (schedule pick %d)" % (t["u"], t["exp_before"], t["before"], k))
                key = {"component": "interference"}
            ctx.violation(what, dict(c, sched=case["sched"][: k + 1]), key=key)
            break
        if t["after"] != t["exp_after"]:
            ok = False
            ctx.violation("unit %d: current_action() after its own step is %s, the action it is in is %s (pick %d)" % (t["u"], t["after"], t["exp_after"], k),
                          dict(c, sched=case["sched"][: k + 1]), key={"component": "own-context"})
            break
    # no two messages of one task may claim the same position
    seen = {}
    for m in real["messages"]:
        k = (m.get("task_uuid"), tuple(m.get("task_level") or ()))
        if k in seen:
            ok = False
            ctx.violation("two messages of one task have the same task_level %s (%s and %s)" % (list(k[1]), describe(seen[k]), describe(m)), c,
                          key={"component": "level-unique"})
            break
        seen[k] = m
    for (uuid, lvl) in list(seen):
        for n in range(1, len(lvl)):
            if (uuid, lvl[:n]) in seen:
                ok = False
                ctx.violation("task_level %s (%s) lies below %s, which is a message of the same task (%s), not an action" %
                              (list(lvl), describe(seen[(uuid, lvl)]), list(lvl[:n]), describe(seen[(uuid, lvl[:n])])), c,
                              key={"component": "level-unique"})
                break
        else:
            continue
        break
    shape, parents, err = parse_shape(real["messages"], real.get("remote"))
    if err is not None:
        ctx.violation("merged log does not parse: %s" % err, c, key={"component": "parse"})
        return False
    # attribution: every message / action is a child of the action current in the unit that logged it
    for r in real["log"]:
        if r["kind"] == "end":
            continue
        got = parents.get((r["kind"], r["occ"]), "missing")
        if got != r["parent"]:
            ok = False
            ctx.violation("%s %s of unit %d is attributed to %s in the parsed log, the unit's current action was %s" % (r["kind"], r["occ"], r["unit"], got, r["parent"]),
                          c, key={"component": "attribution"})
            break
    # order: what ONE unit logs under one action appears there in the unit's program order (only siblings that ran
    # concurrently - logged by different units - may come in any order)
    pos = {}
    starts = {}
    for m in real["messages"]:
        lvl = list(m.get("task_level") or [])
        if m.get("action_status") == "started":
            occ = m.get("occ")
            if occ is None:
                occ = (real.get("remote") or {}).get("%s@%s" % (m.get("task_uuid"), lvl[:-1]))
            if occ is not None:
                pos[("start", occ)] = (m.get("task_uuid"), lvl[:-1])
                starts[(m.get("task_uuid"), tuple(lvl[:-1]))] = occ
        elif m.get("message_type") == "msg":
            pos[("msg", m.get("occ"))] = (m.get("task_uuid"), lvl)
    for m in real["messages"]:
        if m.get("action_status") in ("succeeded", "failed"):
            lvl = list(m.get("task_level") or [])
            occ = starts.get((m.get("task_uuid"), tuple(lvl[:-1])))
            if occ is not None:
                pos[("end", occ)] = (m.get("task_uuid"), lvl)
    last = {}
    for r in real["log"]:
        if r["parent"] is None:
            continue
        here = pos.get((r["kind"], r["occ"]))
        if here is None:
            continue
        k = (r["unit"], r["parent"])
        if k in last and last[k][1][0] == here[0] and not (last[k][1][1] < here[1]):
            ok = False
            ctx.violation("unit %d logged %s %s before %s %s inside action %s, but their task levels are %s then %s" %
                          (r["unit"], last[k][0]["kind"], last[k][0]["occ"], r["kind"], r["occ"], r["parent"], last[k][1][1], here[1]), c,
                          key={"component": "unit-order"})
            break
        last[k] = (r, here)
    if all(real["done"]) and seq_shape is not None and shape != seq_shape:
        ok = False
        ctx.violation("parsed trees differ from those of the sequential run (beyond sibling order)", c, key={"component": "tree-shape"},
                      extra=dict(concurrent=shape, sequential=seq_shape))
    return ok


def preempted_inside_action(case, trace):
    """non-triviality: some unit is preempted (another unit runs between two of its steps) while inside an action"""
    last = None
    inside = {}
    for t in trace:
        if not t.get("ok"):
            continue
        u = t["u"]
        if last is not None and last != u and inside.get(last) is not None:
            return True
        inside[u] = t.get("after")
        last = u
    return False


def evaluate(ctx, cases, tag):
    for c in cases:
        if not all(joined(code) for code in c["codes"]):
            raise AssertionError("generator produced a program that is not fork-join: %r" % (c["codes"],))
    # for the model a preserve_context thread is a unit that inherits the action current where the wrapper is made
    # (Stmt.spawnTask) and whose first statement `remote o` continues it
    model = lean_driver("Driver/C05.lean", [dict(codes=[[([("task" if c["codes"][st[1]][:1] and c["codes"][st[1]][0][0] == "remote" else "thread"), st[1]]
                                                                if st[0] == "pthread" else st) for st in code] for code in c["codes"]],
                                                 sched=c["sched"]) for c in cases])
    seq_cache = {}
    for c, m in zip(cases, model):
        key = repr(c["codes"]) + repr(c["kinds"])
        if key not in seq_cache:
            sreal = run_real(dict(c, sched=seq_schedule(c["codes"])))
            sshape, _p, serr = parse_shape(sreal["messages"], sreal.get("remote"))
            seq_cache[key] = sshape if (serr is None and all(sreal["done"]) and not sreal["problems"]) else None
            if seq_cache[key] is None:
                ctx.violation("the sequential run of the program did not complete / parse: %s %s" % (sreal["problems"], serr), strip(c),
                              key={"component": "sequential"})
        real = run_real(c)
        nt = preempted_inside_action(c, real["trace"])
        uses = {st[0] for code in c["codes"] for st in code}
        if "pthread" in uses:
            ctx.count("preserve_context")
        ctx.case(strip(c), nontrivial=nt, tags=[tag, "family:" + c["family"], "units:%d" % len(c["codes"])]
                 + (["shared:context()"] if "ctx" in uses else []) + (["shared:with"] if "with" in uses else []))
        ctx.count("steps", n=sum(1 for t in real["trace"] if t.get("ok")))
        ctx.count("stutters", n=sum(1 for t in real["trace"] if not t.get("ok")))
        oracle(ctx, c, real, seq_cache[key])
        if "bad" in m:
            ctx.broken_tie("correspondence:context-model", "model rejected the case: %s" % m["bad"], strip(c))
            continue
        rtrace = [dict(u=t["u"], ok=bool(t.get("ok")), before=t.get("before") if t.get("ok") else None, after=t.get("after") if t.get("ok") else None)
                  for t in real["trace"]]
        # a preserve_context thread has no current action before it calls the wrapper; the model keeps the captured
        # action in the unit's context until its `remote` statement: not an observable difference
        first = set()
        mtrace = []
        for t in m["trace"]:
            t = dict(t)
            if t["ok"] and t["u"] not in first:
                first.add(t["u"])
                if t["u"] < len(c["kinds"]) and c["kinds"][t["u"]] == "pthread":
                    t["before"] = None
            mtrace.append(t)
        m = dict(m, trace=mtrace)
        good = True
        if real["problems"]:
            good = False
            ctx.broken_tie("correspondence:context-model", "real run stopped: %s" % real["problems"][0], strip(c))
        elif rtrace != m["trace"]:
            good = False
            k = next((k for k, (a, b) in enumerate(zip(rtrace, m["trace"])) if a != b), min(len(rtrace), len(m["trace"])))
            ctx.broken_tie("correspondence:context-model", "per-step context differs from the model at schedule pick %d" % k,
                           dict(strip(c), real=rtrace[k] if k < len(rtrace) else None, model=m["trace"][k] if k < len(m["trace"]) else None))
        elif real["log"] != m["log"]:
            good = False
            ctx.broken_tie("correspondence:context-model", "emitted records differ from the model", dict(strip(c), real=real["log"], model=m["log"]))
        elif real["done"] != m["done"]:
            good = False
            ctx.broken_tie("correspondence:context-model", "finished units differ from the model", dict(strip(c), real=real["done"], model=m["done"]))
        else:
            # the real parsed attribution agrees with the model's records
            _s, parents, err = parse_shape(real["messages"], real.get("remote"))
            for r in m["log"]:
                if r["kind"] != "end" and err is None and parents.get((r["kind"], r["occ"]), "missing") != r["parent"]:
                    good = False
                    ctx.broken_tie("correspondence:context-model", "parsed parent of %s %s differs from the model" % (r["kind"], r["occ"]), strip(c))
                    break
            # model-side sanity used by the theorems' hypotheses: unique occurrence keys in the sequential log
            keys = [(r["occ"], r["kind"]) for r in m["seq"]]
            if len(keys) != len(set(keys)):
                ctx.broken_tie("correspondence:context-model", "generated program violates OccUnique", strip(c))
                good = False
            if all(m["done"]) and sorted(map(repr, m["log"])) != sorted(map(repr, m["seq"])):
                ctx.broken_tie("correspondence:context-model", "model log is not a permutation of its sequential log", strip(c))
                good = False
        if good:
            ctx.traces += 1


# ---- exception extractors under a thread schedule ------------------------------------------------
# The other piece of per-context state in eliot: while the failure of an exception extractor is being
# reported (eliot:traceback), extractors are switched off *for the reporting context only*.  Two threads each
# fail an action; thread A's exception has an extractor that raises, thread B's has a working one (or B calls
# write_traceback).  A is parked INSIDE the delivery of its eliot:traceback message (the logger is the preemption
# point), B runs meanwhile.  What each thread logs must not depend on the schedule.  Not part of the Lean model
# (attribution is not affected): oracle only.

class BrokenInfo(Exception):
    pass


def _broken_extractor(e):
    raise RuntimeError("extractor failed")


class GateLogger(object):
    """delegates to a MemoryLogger; parks thread `who` while it delivers a message of type `mtype`"""

    def __init__(self, inner):
        import threading
        self.inner = inner
        self.who = None
        self.mtype = None
        self.parked = threading.Event()
        self.release = threading.Event()

    def write(self, dictionary, serializer=None):
        import threading
        if self.who is not None and threading.current_thread().name == self.who and dictionary.get("message_type") == self.mtype:
            self.parked.set()
            self.release.wait(TIMEOUT)
        return self.inner.write(dictionary, serializer)

    def __getattr__(self, name):
        return getattr(self.inner, name)


EXTRACTOR_SCHEDULES = ["A;B", "B;A", "A[B]"]          # A[B]: B runs while A is inside the delivery of its eliot:traceback
EXTRACTOR_VARIANTS = ["B-fails-action", "B-write-traceback", "B-nested-in-action"]


def run_extractor(case):
    """-> per-thread canonical messages"""
    import threading
    import eliot
    from eliot import MemoryLogger, start_action, write_traceback
    from eliot.testing import swap_logger
    from eliot._errors import _error_extraction

    lg = MemoryLogger()
    gate = GateLogger(lg)
    prev = swap_logger(gate)
    had = BrokenInfo in _error_extraction.registry
    eliot.register_exception_extractor(BrokenInfo, _broken_extractor)
    problems = []

    def unit_a():
        try:
            with start_action(action_type="A"):
                raise BrokenInfo("a")
        except BrokenInfo:
            pass
        except BaseException as e:  # noqa
            problems.append("A raised %s" % type(e).__name__)

    def unit_b():
        v = case["variant"]
        try:
            if v == "B-fails-action":
                with start_action(action_type="B"):
                    raise OSError(5, "io")
            elif v == "B-write-traceback":
                try:
                    raise OSError(7, "io")
                except OSError:
                    write_traceback()
            else:
                with start_action(action_type="B0"):
                    try:
                        with start_action(action_type="B"):
                            raise OSError(9, "io")
                    except OSError:
                        pass
        except OSError:
            pass
        except BaseException as e:  # noqa
            problems.append("B raised %s" % type(e).__name__)

    try:
        ta = threading.Thread(target=unit_a, name="unit-A", daemon=True)
        tb = threading.Thread(target=unit_b, name="unit-B", daemon=True)
        sc = case["sched"]
        if sc == "A;B":
            ta.start(); ta.join(TIMEOUT); tb.start(); tb.join(TIMEOUT)
        elif sc == "B;A":
            tb.start(); tb.join(TIMEOUT); ta.start(); ta.join(TIMEOUT)
        else:
            gate.who, gate.mtype = "unit-A", "eliot:traceback"
            ta.start()
            if not gate.parked.wait(TIMEOUT):
                problems.append("A never delivered an eliot:traceback message")
            tb.start(); tb.join(TIMEOUT)
            gate.release.set()
            ta.join(TIMEOUT)
        if ta.is_alive() or tb.is_alive():
            problems.append("a thread did not finish")
    finally:
        gate.release.set()
        swap_logger(prev)
        if not had:
            _error_extraction.registry.pop(BrokenInfo, None)
    # canonical content per task: everything but time, uuid and traceback text
    by_task = {}
    for m in lg.messages:
        d = {k: v for k, v in m.items() if k not in ("timestamp", "task_uuid", "traceback")}
        if "reason" in d:
            d["reason"] = str(d["reason"])[:60]
        if "exception" in d:
            d["exception"] = str(d["exception"])
        by_task.setdefault(m.get("task_uuid"), []).append(d)
    tasks = sorted((sorted(ms, key=lambda d: d["task_level"]) for ms in by_task.values()), key=repr)
    return dict(tasks=tasks, problems=problems)


def evaluate_extractors(ctx):
    for variant in EXTRACTOR_VARIANTS:
        ref = None
        for sc in EXTRACTOR_SCHEDULES:
            case = dict(kind="extractor", variant=variant, sched=sc)
            obs = run_extractor(case)
            ctx.case(case, nontrivial=(sc == "A[B]"), tags=["extractor", "extractor:" + sc])
            check_extractor(ctx, case, obs, ref)
            if ref is None:
                ref = obs


def check_extractor(ctx, case, obs, ref):
    if obs["problems"]:
        ctx.violation("extractor scenario did not run: %s" % obs["problems"][0], case, key={"component": "extractor-run"})
        return
    errnos = [m.get("errno") for t in obs["tasks"] for m in t if "errno" in m]
    if len(errnos) != 1:
        ctx.violation("thread B's OSError lost (or duplicated) the field of its working extractor: errno fields logged = %s under schedule %s"
                      % (errnos, case["sched"]), case, key={"component": "extractor-fields"})
        return
    if ref is not None and obs["tasks"] != ref["tasks"]:
        ctx.violation("what the two threads logged differs from the sequential schedule A;B (beyond the order of the tasks)", case,
                      key={"component": "extractor-fields"}, extra=dict(this=obs["tasks"], sequential=ref["tasks"]))



# ---- two threads registering exception extractors ---------------------------------------------------
# Oracle only (no Lean model; shared registry, not context): thread A is parked before its n-th source line inside
# `register_exception_extractor` (a line tracer in that thread only), thread B registers an extractor for another
# class meanwhile; afterwards an action failed with either class must carry the fields of its own extractor.

class RegA(Exception):
    pass


class RegB(Exception):
    pass


def run_registration(case):
    import sys
    import threading
    import eliot
    from eliot import MemoryLogger, start_action
    from eliot.testing import swap_logger
    from eliot._errors import _error_extraction

    park = case.get("park")
    try:
        target = _error_extraction.register_exception_extractor.__func__.__code__
    except Exception:  # noqa
        target = None
    parked, release, finished_a = threading.Event(), threading.Event(), threading.Event()
    count = [0]
    problems = []

    def local(frame, event, arg):
        if event == "line":
            count[0] += 1
            if park is not None and count[0] == park:
                parked.set()
                release.wait(TIMEOUT)
        return local

    looking_up = case.get("a") == "lookup"
    errors_file = _error_extraction.register_exception_extractor.__func__.__code__.co_filename if target is not None else None

    def tracer(frame, event, arg):
        if looking_up:
            # every line of eliot/_errors.py that thread A executes while its failed action looks its extractor up
            return local if frame.f_code.co_filename == errors_file and frame.f_code is not target else None
        return local if frame.f_code is target else None

    a_ends = []

    def a():
        if looking_up:
            # thread A: an action fails (its extractor, registered before, is looked up) while B registers another one
            sys.settrace(tracer)
            try:
                try:
                    with start_action(action_type="RegA-early"):
                        raise RegA("x")
                except RegA:
                    pass
                except BaseException as e:  # noqa
                    problems.append("A's block was left by %s (%s) instead of the application's exception" % (type(e).__name__, str(e)[:60]))
            finally:
                sys.settrace(None)
                finished_a.set()
                parked.set()
            return
        sys.settrace(tracer)
        try:
            eliot.register_exception_extractor(RegA, lambda e: {"reg_a": 1})
        except BaseException as e:  # noqa
            problems.append("A raised %s" % type(e).__name__)
        finally:
            sys.settrace(None)
            finished_a.set()
            parked.set()

    def b():
        try:
            eliot.register_exception_extractor(RegB, lambda e: {"reg_b": 2})
        except BaseException as e:  # noqa
            problems.append("B raised %s" % type(e).__name__)

    lg = MemoryLogger()
    prev = swap_logger(lg)
    try:
        if looking_up:
            eliot.register_exception_extractor(RegA, lambda e: {"reg_a": 1})
        ta = threading.Thread(target=a, daemon=True)
        tb = threading.Thread(target=b, daemon=True)
        if case.get("order") == "B;A":
            tb.start(); tb.join(TIMEOUT); ta.start(); ta.join(TIMEOUT)
        else:
            ta.start()
            parked.wait(TIMEOUT)             # A is inside the registration (or through with it)
            tb.start(); tb.join(TIMEOUT)
            release.set()
            ta.join(TIMEOUT)
        if ta.is_alive() or tb.is_alive():
            problems.append("a thread did not finish")
        for cls in (RegA, RegB):
            try:
                with start_action(action_type=cls.__name__):
                    raise cls("x")
            except cls:
                pass
    finally:
        release.set()
        swap_logger(prev)
        for reg in {id(_error_extraction.registry): _error_extraction.registry}.values():
            reg.pop(RegA, None)
            reg.pop(RegB, None)
    ends = {m.get("action_type"): {k: v for k, v in m.items() if k in ("reg_a", "reg_b")} for m in lg.messages if m.get("action_status") == "failed"}
    return dict(ends=ends, lines=count[0], was_parked=bool(park is not None and count[0] >= park), problems=problems)


def check_registration(ctx, case, obs):
    if obs["problems"]:
        ctx.violation("registration scenario did not run: %s" % obs["problems"][0], case, key={"component": "extractor-registration"})
        return
    want = {"RegA": {"reg_a": 1}, "RegB": {"reg_b": 2}}
    if case.get("a") == "lookup":
        want["RegA-early"] = {"reg_a": 1}
    if obs["ends"] != want:
        ctx.violation("two threads registered extractors for two classes (A parked before its line %s of register_exception_extractor while B "
                      "registered); the failed actions then carry %s, expected %s" % (case.get("park"), obs["ends"], want), case,
                      key={"component": "extractor-registration"})


def evaluate_registration(ctx):
    for case in (dict(kind="registration", order="A;B", park=None), dict(kind="registration", order="B;A", park=None)):
        obs = run_registration(case)
        ctx.case(case, nontrivial=False, tags=["registration"])
        check_registration(ctx, case, obs)
    n = 1
    while n <= 12:
        case = dict(kind="registration", order="A[B]", park=n)
        obs = run_registration(case)
        if not obs["was_parked"] and not obs["problems"]:
            break                            # A has no n-th line inside the function
        ctx.case(case, nontrivial=True, tags=["registration", "registration:parked"])
        check_registration(ctx, case, obs)
        n += 1
    # a failing action looks its extractor up (thread A, parked before each line of eliot/_errors.py it executes) while
    # thread B registers an extractor for another class
    n = 1
    while n <= 40:
        case = dict(kind="registration", order="A[B]", park=n, a="lookup")
        obs = run_registration(case)
        if not obs["was_parked"] and not obs["problems"]:
            break
        ctx.case(case, nontrivial=True, tags=["registration", "registration:lookup-parked"])
        check_registration(ctx, case, obs)
        n += 1


# ---- a unit that inherited an action through its copied context and outlives everything else that refers to it -----

def run_inherited(case):
    """`carrier`: how the child unit got its context - an asyncio task created inside the block (`task`), a thread running
    `contextvars.copy_context().run` (`thread`), `action.run` handed to a thread (`run`), `with action.context():` in a thread
    (`context`).  `order`: `child-first` = the child logs both messages while the block is still open; `parent-first` = the
    creating function has returned (the block is left, no name refers to the action any more, the garbage collector has
    run) before the child logs its second message.  What the child sees must not depend on that."""
    import asyncio
    import contextvars
    import gc
    import threading
    from eliot import MemoryLogger, start_action, log_message, current_action
    from eliot.testing import swap_logger

    carrier, order = case["carrier"], case["order"]
    lg = MemoryLogger()
    prev = swap_logger(lg)
    seen = []
    problems = []

    def note(tag):
        a = current_action()
        seen.append((tag, None if a is None else (a.task_uuid, a._task_level.as_list())))

    try:
        if carrier == "task":
            async def child(go):
                note("child:1"); log_message(message_type="bg:one")
                await go.wait()
                note("child:2"); log_message(message_type="bg:two")

            async def handler(go):
                with start_action(action_type="request"):
                    t = asyncio.ensure_future(child(go))
                    await asyncio.sleep(0)          # the child runs up to its wait
                    if order == "child-first":
                        go.set()
                        await t
                return t

            async def main():
                go = asyncio.Event()
                t = await handler(go)
                gc.collect()
                go.set()
                await asyncio.wait_for(t, TIMEOUT)

            asyncio.run(main())
        else:
            go, at_wait = threading.Event(), threading.Event()

            def child():
                note("child:1"); log_message(message_type="bg:one")
                at_wait.set()
                if not go.wait(TIMEOUT):
                    problems.append("child was never released")
                note("child:2"); log_message(message_type="bg:two")

            def in_ctx(action):
                with action.context():
                    child()

            def handler():
                with start_action(action_type="request") as action:
                    if carrier == "thread":
                        t = threading.Thread(target=contextvars.copy_context().run, args=(child,), daemon=True)
                    elif carrier == "run":
                        t = threading.Thread(target=action.run, args=(child,), daemon=True)
                    else:
                        t = threading.Thread(target=in_ctx, args=(action,), daemon=True)
                    t.start()
                    at_wait.wait(TIMEOUT)
                    if order == "child-first":
                        go.set()
                        t.join(TIMEOUT)
                return t

            t = handler()
            gc.collect()
            go.set()
            t.join(TIMEOUT)
            if t.is_alive():
                problems.append("child thread did not finish")
    except BaseException as e:  # noqa
        problems.append("scenario raised %s: %s" % (type(e).__name__, str(e)[:120]))
    finally:
        swap_logger(prev)
    start = [m for m in lg.messages if m.get("action_type") == "request" and m.get("action_status") == "started"]
    bg = [(m.get("message_type"), m.get("task_uuid"), list(m.get("task_level") or [])) for m in lg.messages if str(m.get("message_type", "")).startswith("bg:")]
    return dict(seen=seen, start=[(m["task_uuid"], list(m["task_level"])) for m in start], bg=bg, problems=problems)


def check_inherited(ctx, case, obs):
    key = {"component": "inherited-context"}
    if obs["problems"] or len(obs["start"]) != 1:
        ctx.violation("inherited-context scenario did not run: %s" % (obs["problems"] or obs["start"]), case, key=key)
        return
    uuid, lvl = obs["start"][0]
    act_level = lvl[:-1]
    for tag, cur in obs["seen"]:
        if cur is None or cur[0] != uuid or cur[1] != act_level:
            ctx.violation("a unit that inherited the action %s through its context (%s) sees current_action() = %s at %s (order: %s)"
                          % ((uuid, act_level), case["carrier"], cur, tag, case["order"]), case, key=key)
            return
    if [b[0] for b in obs["bg"]] != ["bg:one", "bg:two"] or any(b[1] != uuid or b[2][:-1] != act_level for b in obs["bg"]):
        ctx.violation("messages logged by a unit that inherited the action %s are attributed to %s (order: %s)"
                      % ((uuid, act_level), obs["bg"], case["order"]), case, key=key)


def evaluate_inherited(ctx):
    for carrier in ("task", "thread", "run", "context"):
        for order in ("child-first", "parent-first"):
            case = dict(kind="inherited", carrier=carrier, order=order)
            obs = run_inherited(case)
            ctx.case(case, nontrivial=order == "parent-first", tags=["inherited", "inherited:" + carrier])
            check_inherited(ctx, case, obs)


def small_programs():
    """<= 2 units, <= 3 steps each inside the fork; every interleaving is run"""
    progs = []
    for kind in ("thread", "task"):
        fam = "threads" if kind == "thread" else "tasks"
        k0 = "thread" if kind == "thread" else "task"
        progs.append(dict(codes=[[["enter", 1], [kind, 1], ["log", 2], ["enter", 3], ["exit"], ["join", 1], ["exit"]],
                                 [["log", 10], ["enter", 11], ["exit"]]], kinds=[k0, kind], family=fam))
        progs.append(dict(codes=[[["enter", 1], [kind, 1], ["enter", 3], ["log", 2], ["exit"], ["join", 1], ["exit"]],
                                 [["enter", 11], ["log", 12], ["exit"]]], kinds=[k0, kind], family=fam))
        progs.append(dict(codes=[[[kind, 1], ["enter", 1], ["log", 2], ["exit"], ["join", 1]],
                                 [["enter", 11], ["enter", 12], ["exit"], ["exit"]]], kinds=[k0, kind], family=fam))
        # two units run overlapping `with shared.context():` blocks on the SAME Action, each from inside its own action
        progs.append(dict(codes=[[["enter", 1], [kind, 1], [kind, 2], ["join", 1], ["join", 2], ["exit"]],
                                 [["enter", 11], ["ctx", 1], ["exit"], ["log", 13], ["exit"]],
                                 [["enter", 21], ["ctx", 1], ["exit"], ["log", 23], ["exit"]]], kinds=[k0, kind, kind], family=fam))
        # an action created in one unit and entered with `with` in another one
        progs.append(dict(codes=[[["enter", 1], [kind, 1], ["create", 5], ["log", 2], ["join", 1], ["exit"]],
                                 [["enter", 11], ["with", 5], ["log", 12], ["exit"], ["log", 13], ["exit"]]], kinds=[k0, kind], family=fam))
        progs.append(dict(codes=[[["enter", 1], ["create", 5], [kind, 1], ["join", 1], ["exit"]],
                                 [["with", 5], ["log", 12], ["exit"], ["log", 13]]], kinds=[k0, kind], family=fam))
    # a unit spawned inside a `with h.context():` segment which its creator leaves before the unit logs
    for kind, k0, fam in (("task", "task", "tasks"), ("pthread", "task", "mixed"), ("pthread", "thread", "threads")):
        child = [["log", 11], ["enter", 12], ["exit"]]
        child = [["remote", 10]] + child + [["exit"]] if kind == "pthread" else child
        progs.append(dict(codes=[[["enter", 1], ["create", 5], ["ctx", 5], [kind, 1], ["exit"], ["log", 2], ["join", 1], ["with", 5], ["exit"], ["exit"]],
                                 child], kinds=[k0, kind], family=fam))
        child = [["log", 11], ["log", 12]]
        child = [["remote", 10]] + child + [["exit"]] if kind == "pthread" else child
        progs.append(dict(codes=[[["enter", 1], ["enter", 2], ["ctx", 1], [kind, 1], ["exit"], ["log", 3], ["join", 1], ["exit"], ["exit"]],
                                 child], kinds=[k0, kind], family=fam))
    # preserve_context: the wrapper is made, then the parent logs more before / while the thread calls it;
    # several wrappers from one action
    for k0, fam in (("thread", "threads"), ("task", "mixed")):
        progs.append(dict(codes=[[["enter", 1], ["pthread", 1], ["log", 2], ["log", 3], ["join", 1], ["exit"]],
                                 [["remote", 10], ["log", 11], ["exit"]]], kinds=[k0, "pthread"], family=fam))
        progs.append(dict(codes=[[["enter", 1], ["log", 2], ["pthread", 1], ["pthread", 2], ["log", 3], ["enter", 4], ["exit"], ["join", 1], ["join", 2], ["exit"]],
                                 [["remote", 10], ["log", 11], ["exit"]],
                                 [["remote", 20], ["enter", 21], ["exit"], ["exit"]]], kinds=[k0, "pthread", "pthread"], family=fam))
        progs.append(dict(codes=[[["pthread", 1], ["enter", 1], ["log", 2], ["exit"], ["join", 1]],
                                 [["log", 11], ["log", 12]]], kinds=[k0, "pthread"], family=fam))
    return progs


def run(ctx):
    evaluate_extractors(ctx)
    evaluate_registration(ctx)
    evaluate_inherited(ctx)
    rng = ctx.rng("gen")
    # exhaustive part
    cases = []
    for p in small_programs():
        scs = all_schedules(p["codes"], 20000)
        cap = ctx.budget(150, 5000)
        if len(scs) > cap:       # too many interleavings: a seeded sample of them
            scs = rng.sample(scs, cap)
        for sc in scs:
            cases.append(dict(p, sched=sc))
    evaluate(ctx, cases, "exhaustive")
    ctx.count("exhaustive_schedules", n=len(cases))
    if not ctx.quick:
        # exhaustive up to 3 units x 4 steps (capped per program)
        big = []
        for fam in ("threads", "tasks", "mixed"):
            for _ in range(4):
                p = gen_program(rng, 3, fam)
                for sc in all_schedules(p["codes"], 1500):
                    big.append(dict(p, sched=sc))
        for k in range(0, len(big), 2000):
            evaluate(ctx, big[k:k + 2000], "exhaustive3")
    # random larger programs
    n = ctx.budget(300, 20000)
    cases = []
    for k in range(n):
        fam = ["threads", "tasks", "mixed"][k % 3]
        p = gen_program(rng, rng.randint(2, 4), fam)
        cases.append(dict(p, sched=random_schedule(rng, p["codes"])))
    for k in range(0, len(cases), 2000):
        evaluate(ctx, cases[k:k + 2000], "random")
    if "correspondence:context-model" not in ctx.broken:
        ctx.obligation("correspondence:context-model", "correspondence", True,
                       "%d schedules: per-step current_action(), emitted records and parsed parents agree with the model" % ctx.traces)


def replay(ctx, obj):
    case = obj.get("case") or {}
    if case.get("kind") == "registration":
        obs = run_registration(case)
        print(obs)
        check_registration(ctx, case, obs)
        return
    if case.get("kind") == "inherited":
        obs = run_inherited(case)
        print(obs)
        check_inherited(ctx, case, obs)
        return
    if case.get("kind") == "extractor":
        ref = run_extractor(dict(case, sched="A;B"))
        obs = run_extractor(case)
        for t in obs["tasks"]:
            print(t)
        check_extractor(ctx, case, obs, ref)
        return
    c = dict(codes=case["codes"], kinds=case["kinds"], sched=case["sched"], family=case.get("family", "?"))
    sreal = run_real(dict(c, sched=seq_schedule(c["codes"])))
    sshape, _p, _e = parse_shape(sreal["messages"], sreal.get("remote"))
    real = run_real(c)
    for t in real["trace"]:
        print(t)
    print("problems:", real["problems"])
    oracle(ctx, c, real, sshape)
