"""C08 - every destination gets each message once, in order; faults isolated and reported."""
from .. import syscorr
from ..framework import canon

PROP = "C08"
LEAN_TARGETS = ["Eliot.Properties.C08", "Eliot.Properties.C08Dyn", "Eliot.Properties.C08Acct"]
AUDIT = "Eliot/Audit/C08.lean"
THEOREMS = ["Sys.C08.prim", "Sys.C08.offered_same_everywhere", "Sys.C08.healthy_unaffected", "Sys.C08.run_offered_eq_stage",
            "Sys.C08.report_accounting", "Sys.C08.errors_bound", "Sys.C08.no_report_of_report", "Sys.C08.report_is_report",
            "Sys.fan_deliver", "Sys.fan_send", "Sys.execB_lift",
            "Sys.C08.reg_preserved", "Sys.C08.calls_exact", "Sys.C08.offered_while_registered",
            "Sys.C08.healthy_accepts_while_registered", "Sys.C08.nothing_before_first_add", "Sys.C08.offered_since",
            "Sys.C08.unregistered_gets_nothing", "Sys.C08.removed_gets_nothing_after", "Sys.C08.removed_gets_nothing_after_run",
            "Sys.C08.added_later_gets_nothing_before", "Sys.C08.offered_same_everywhere_reg", "Sys.C08.run_offered_eq_stage_reg",
            "Sys.reg_deliver", "Sys.reg_addDests", "Sys.execB_liftQ",
            "Sys.C08.collected_errors", "Sys.C08.collected_errors_nodup", "Sys.C08.collected_errors_report",
            "Sys.C08.call_number_is_offered_count", "Sys.C08.collected_errors_reachable", "Sys.C08.reports_per_raiser",
            "Sys.C08.reports_match_failures", "Sys.C08.reports_match_failures_from", "Sys.acct_execB", "Sys.execB_liftC"]
RULE = ("random programs of the core language run against 1-4 destinations registered at the start, each with an independent "
        "failure mask over its call sequence (densities 0, p, 0.5, 1.0 = permanently broken; masks also hit the reports themselves), "
        "plus a third of the cases with destinations added/removed mid-run (correspondence, report-per-failure oracle and the "
        "registration oracle: the calls of every run are, message by message, one call of each destination the harness has "
        "registered at that moment, in registration order); non-trivial = at least two "
        "destinations and at least one injected destination failure actually reached; distinct by canonical hash")
TRUSTED = ["global fields do not override message_type (otherwise the recursion guard does not recognise a report)",
           "destinations do not mutate the dict they are given and raise Exception subclasses only"]
ASSUMPTIONS = ["'exactly once' is stated for runs in which no add_destinations call leaves a destination registered twice (ghost flag dupAdd); "
               "otherwise the theorems say 'once per registration'",
               "single-threaded runs (registration racing with sends on other threads is C12)"]
EXPLANATION = ("Fan relation (each registered destination is offered exactly the staged messages) proved for every primitive and lifted to "
               "all programs without configuration statements; for ALL programs (add_destinations / remove_destination anywhere, start-up "
               "buffer re-delivered by the first add) the registration invariant Reg - the call sequence is, staged entry by staged entry, "
               "one call of each destination registered when the entry was staged (ghost World.stageAt) - is proved for every basic step "
               "and configuration statement and lifted: offered_while_registered, healthy_accepts_while_registered, calls_exact, and the "
               "corollaries for removed / later-added destinations")
PROFILE_FIXED = dict(p_late_add=0.0, p_remove=0.0, n_dests=(2, 4), p_dest_fail=0.3, p_handles=0.2, p_remote=0.1, p_globals=0.1, obj_max=6)
PROFILE_DYN = dict(p_late_add=0.4, p_remove=0.2, n_dests=(1, 3), p_dest_fail=0.3)


def fixed_dests(case):
    prog = case["prog"]
    def has_cfg(b):
        for s in b:
            if s["op"] in ("addDests", "removeDest"):
                return True
            for k in ("body", "handler"):
                if k in s and has_cfg(s[k]):
                    return True
        return False
    return bool(prog) and prog[0]["op"] == "addDests" and not has_cfg(prog[1:])


def registration_oracle(ctx, case, real, rt):
    """Every program, also with destinations added/removed while it runs: the sequence of destination calls is, message by
    message, exactly one call of each destination registered at that moment, in registration order (so: nobody unregistered is
    called, nobody registered is skipped, nothing is offered twice, nothing from before a destination's registration reaches it
    except the start-up backlog delivered by the first add_destinations). `rt.offered_reg` is the harness's own record of the
    registered destinations (from the add/remove calls it made, not from eliot's state) at each call. Returns True on a violation."""
    calls, regs = rt.offered, rt.offered_reg
    i = 0
    while i < len(calls):
        reg = regs[i]
        if not reg:
            ctx.violation("destination %d was called while the harness had no destination registered" % calls[i][0], case,
                          key={"oracle": "registration", "kind": "unregistered-called"})
            return True
        group = calls[i:i + len(reg)]
        if [c[0] for c in group] != reg:
            ctx.violation("with destinations %s registered one message was offered to %s (expected: each registered destination "
                          "exactly once, in registration order)" % (reg, [c[0] for c in group]), case,
                          key={"oracle": "registration", "kind": "fan-out-set"})
            return True
        if any(canon(c[1]) != canon(group[0][1]) for c in group) or any(regs[j] != reg for j in range(i, i + len(group))):
            ctx.violation("the destinations %s registered together were not offered the same message in one fan-out" % reg, case,
                          key={"oracle": "registration", "kind": "fan-out-message"})
            return True
        i += len(reg)
    ctx.count("fanouts_checked_against_registration", n=sum(1 for _ in calls))
    if any(s["op"] in ("addDests", "removeDest") for s in _flat(case["prog"][1:])):
        ctx.count("runs_with_registration_changes")
    return False


def _flat(b):
    for s in b:
        yield s
        for k in ("body", "handler"):
            if k in s:
                yield from _flat(s[k])


def nontrivial(case, real, st):
    return len({d for d, _ in real["offered"]}) >= 2 and any(True for _ in real.get("_failures", [1])) and len(real["offered"]) >= 4


def oracle(ctx, case, real, rt):
    fails = [f for f in rt.failures]
    ctx.count("dest_failures_reached", n=len(fails))
    ctx.count("dest_failures_on_reports", n=sum(1 for f in fails if f[3]))
    # for every program, also with destinations added/removed while it runs and with re-delivery of buffered
    # messages: a failing destination stays registered and reporting is synchronous, so it is itself offered one
    # report for each of its failures on ordinary messages
    for d in {f[0] for f in fails}:
        n_fail = sum(1 for f in fails if f[0] == d and not f[3])
        n_rep = sum(1 for dd, m in real["offered"] if dd == d and m.get("message_type") == "eliot:destination_failure")
        if n_rep < n_fail:
            ctx.violation("destination %d failed on %d ordinary messages but was offered only %d eliot:destination_failure reports" % (d, n_fail, n_rep), case)
            return
    if registration_oracle(ctx, case, real, rt):
        return
    if not fixed_dests(case):
        return
    ds = case["prog"][0]["ds"]
    per = {d: [m for dd, m in real["offered"] if dd == d] for d in ds}
    acc = {d: [m for dd, m in real["accepted"] if dd == d] for d in ds}
    seqs = [canon(per[d]) for d in ds]
    if len(set(seqs)) > 1:
        ctx.violation("destinations registered together were offered different message sequences", case)
        return
    if not ds:
        return
    seq = per[ds[0]]
    # what the destinations were offered is what was emitted, neither more nor less: every dict that went into Logger.write
    # and was not withheld by a failing field serializer, once each, in that order (independent record: the interpreter's
    # wrapper around Logger.write)
    def ident(m):
        return canon([m.get("task_uuid"), m.get("task_level")])
    got = [ident(m) for m in seq]
    written = [ident(w[0]) for w in rt.writes]
    withheld = [k for k in written if k not in set(got)]
    if got != [k for k in written if k in set(got)] or len(set(got)) != len(got):
        ctx.violation("the sequence offered to the destinations is not the sequence of messages written (duplicates, losses or another "
                      "order): offered %d, written %d" % (len(got), len(written)), case)
        return
    nser_fail = sum(1 for w in rt.writes if w[0].get("message_type") == "eliot:serialization_failure")
    if len(withheld) > nser_fail:
        ctx.violation("%d written messages reached no destination but only %d serialization failures were reported" % (len(withheld), nser_fail), case)
        return
    reports = [m for m in seq if m.get("message_type") == "eliot:destination_failure"]
    nonreport_fail = [f for f in fails if not f[3]]
    if len(reports) != len(nonreport_fail):
        ctx.violation("%d destination failures on ordinary messages but %d eliot:destination_failure reports were emitted" % (len(nonreport_fail), len(reports)), case)
        return
    failed_ds = {f[0] for f in fails}
    for d in ds:
        if d not in failed_ds and canon(acc[d]) != canon(seq):
            ctx.violation("healthy destination %d did not accept every message other destinations were offered" % d, case)
            return
    # report content: class, text, rendering of the affected message
    excs = {e["id"]: e for e in case["env"]["excs"]}
    classes = {c["id"]: c for c in case["env"]["classes"]}
    raw = [t for dd, t in rt.raw_reports if dd == ds[0]]
    for i, (f, r) in enumerate(zip(nonreport_fail, reports)):
        if i < len(raw) and f[5] is not None and "<repr raised>" not in str(f[5]):
            import ast
            try:
                shown = ast.literal_eval(raw[i])
            except Exception:  # noqa
                shown = None
            if shown != f[5]:
                ctx.violation("the report's rendering of the affected message is %s, the message's keys and values have the reprs %s"
                              % (str(raw[i])[:300], str(f[5])[:300]), case)
                return
        e = excs[f[2]]
        want_exc = classes[e["cls"]]["qualname"]
        want_reason = e["str"] if e["str"] is not None else "eliot: unknown, str() raised exception"
        ren = r.get("message")
        if r.get("exception") != want_exc or r.get("reason") != want_reason or not isinstance(ren, dict) or \
                sorted(ren.get("render", [])) != sorted(f[4].keys()):
            ctx.violation("destination-failure report does not describe the failure (class, text, rendering of the message)", case)
            return


def mixed_logger_case(ctx, i):
    """Model-free: actions that log to the application's own logger (a MemoryLogger, as in tests, or any ILogger) around and
    inside actions that log to the destinations: a destination failure is reported to all destinations whatever logger the
    action that happens to be current belongs to."""
    import contextvars
    import eliot
    from eliot import _output

    rng = ctx.rng("mixed-logger:%d" % i)
    dst = _output.Logger._destinations
    saved = (dst._destinations, dst._any_added, dst._globalFields)
    dst.__init__()
    good, calls, failed = [], [0], []
    fail_at = set(rng.sample(range(16), rng.randint(1, 5)))

    def bad(message):
        k = calls[0]
        calls[0] += 1
        if k in fail_at:
            failed.append(message.get("message_type") == "eliot:destination_failure")
            raise ValueError("destination down (call %d)" % k)

    mem = eliot.MemoryLogger()

    def block(depth):
        lg = rng.choice([mem, None, eliot.Logger()])
        with (eliot.start_action(action_type="x:act") if lg is None else eliot.start_action(lg, "x:act")):
            for _ in range(rng.randint(1, 3)):
                r = rng.random()
                if r < 0.4 and depth < 3:
                    block(depth + 1)
                elif r < 0.7:
                    eliot.log_message(message_type="x:msg")
                else:
                    eliot.Logger().write({"message_type": "x:direct", "task_uuid": "t", "task_level": [1], "timestamp": 0.0})

    def main():
        eliot.add_destinations(bad, good.append) if rng.random() < 0.5 else eliot.add_destinations(good.append, bad)
        for _ in range(rng.randint(1, 3)):
            block(0)

    problems = []
    try:
        contextvars.Context().run(main)
    except BaseException as e:  # noqa
        problems.append("a logging call raised %s" % type(e).__name__)
    finally:
        dst._destinations, dst._any_added, dst._globalFields = saved
    want = sum(1 for on_report in failed if not on_report)
    got = sum(1 for m in good if m.get("message_type") == "eliot:destination_failure")
    if not problems and got != want:
        problems.append("a destination failed on %d ordinary messages but the healthy destination was offered %d eliot:destination_failure "
                        "reports (the test logger holds %d)" % (want, got, sum(1 for m in mem.messages if m.get("message_type") == "eliot:destination_failure")))
    mem.tracebackMessages[:] = []
    return problems[:1], want


def run(ctx):
    for i in range(ctx.budget(120, 3000)):
        problems, want = mixed_logger_case(ctx, i)
        ctx.case({"mixed-logger": i, "seed": ctx.seed}, nontrivial=want > 0, tags=["mixed-logger"], sample=(i < 1))
        if problems:
            ctx.violation("mixed loggers: " + problems[0], {"mixed-logger": i, "seed": ctx.seed})
            break
    n = ctx.budget(450, 14000)
    syscorr.run_programs(ctx, (2 * n) // 3, PROFILE_FIXED, oracle, label="fixed", nontrivial=lambda c, r, s: nt(c, r))
    syscorr.run_programs(ctx, n // 3, PROFILE_DYN, oracle, label="dyn", nontrivial=lambda c, r, s: nt(c, r))


def nt(case, real):
    ds = {d for d, _ in real["offered"]}
    acc = len(real["accepted"]) < len(real["offered"])
    return len(ds) >= 2 and acc


def replay(ctx, obj):
    from .. import sysinterp
    case = obj["case"]
    if "mixed-logger" in case:
        problems, want = mixed_logger_case(ctx, case["mixed-logger"])
        print(problems, want)
        if problems:
            ctx.violation("mixed loggers: " + problems[0], case)
        return
    real, rt = sysinterp.run_case(case)
    print(real["outcome"], len(real["offered"]), rt.failures[:3])
    oracle(ctx, case, real, rt)
