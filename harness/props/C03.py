"""C03 - each action logs exactly one start and one truthful end; errors pass through."""
from .. import syscorr, sysinterp
from ..framework import canon

PROP = "C03"
LEAN_TARGETS = ["Eliot.Properties.C03"]
AUDIT = "Eliot/Audit/C03.lean"
# theorems about the statements of Action.finish *as the source has them now* (extractor E14, lean/Eliot/Generated/Finish.lean)
FIN_THEOREMS = ["Sys.C03Fin.guard_shape", "Sys.C03Fin.finishRec_finished_noop", "Sys.C03Fin.finishRec_success_is_translated",
                "Sys.C03Fin.finishRec_failure_is_translated", "Sys.C03Fin.startRec_is_translated", "Sys.C03Fin.buildLog_is_translated",
                "Sys.C03Fin.start_log_shape", "Sys.C03Fin.placement_shapes"]
SKELETON_TARGETS = {"Sys.C03Fin.translated_finish (E14: the statements of Action.finish / _start / log in source order; World.finishRec, startRec, buildLog are "
                    "their interpretation)": ("Eliot.Properties.C03Fin", "Eliot/Audit/C03Fin.lean", FIN_THEOREMS)}
THEOREMS = ["Sys.C03.finish_idempotent", "Sys.C03.finished_stays_finished", "Sys.C03.no_second_end", "Sys.C03.finish_program_finish",
            "Sys.C03.one_start_message", "Sys.C03.end_message", "Sys.C03.one_end_message", "Sys.C03.failed_iff_raised",
            "Sys.C03.exc_identity", "Sys.C03.program_outcome", "Sys.C03.withBlock_finishes", "Sys.C03.fields_placement",
            "Sys.C03.getFields_fields", "Sys.C03.extractor_mro", "Sys.C03.extractor_raise_contained",
            "Sys.C03.one_start_message_any_env", "Sys.C03.one_end_message_any_env"]
RULE = ("programs of the core language: with-blocks nested up to depth 4 whose bodies end normally or by raising an instance of a generated "
        "class (hierarchy with multiple inheritance over Exception / BaseException / KeyboardInterrupt / GeneratorExit / asyncio.CancelledError / "
        "ValueError, str() raising for a fifth of them), caught by a try at the same level, one or more levels further out, or never; extractors "
        "registered on a random subset of the generated classes, Exception and BaseException, a third of them raising on a mask of their calls; "
        "explicit handles entered 0-2 times and finished 0-3 times with or without an exception; start, success and global field names drawn from "
        "one small pool so that they overlap; no typed serializers; 2-4 destinations registered by the first statement, failure masks on them, "
        "the oracle reads the messages accepted by one that never failed (if all failed: the messages offered to the first); non-trivial = at least 3 actions checked with at least one succeeded and one failed end")
TRUSTED = ["the taps installed by this module on Action._start/finish/__exit__/add_success_fields, Destinations.send and "
           "register_exception_extractor record arguments and delegate unchanged",
           "uuid4() does not collide (counter), one thread"]
ASSUMPTIONS = ["no typed (possibly failing) field serializers on start/success messages: a failing serializer replaces the message by "
               "eliot:serialization_failure (C13)",
               "global fields do not override action_status / task_uuid / task_level / exception / reason / message_type"]
EXPLANATION = ("finish() is the identity on a finished action and sets the flag before anything else; the flag is monotone over every basic step, "
               "lifted to all programs; the staged start/end dicts are computed exactly (startDict/succDict/failDict) for healthy destinations and "
               "shown to be followed only by failure reports otherwise; __exit__ contributes no outcome (exc_identity)")

PROFILE = dict(p_ext_reserved=0.3, p_typed=0.0, p_ser_fail=0.0, p_missing_field=0.0, p_late_add=0.0, p_remove=0.0, n_dests=(2, 4), p_dest_fail=0.0,
               p_globals=0.12, p_extractor=0.6, p_ext_fail=0.35, p_str_raises=0.22, p_handles=0.5, p_remote=0.12, p_raise=0.5,
               p_probe=0.05, p_task=0.1, max_stmts=20)

STRUCT = {"action_status", "timestamp", "task_uuid", "action_type", "task_level"}
FALLBACK = "eliot: unknown, str() raised exception"
C03_API = {"Action.__exit__", "Action.__enter__", "Action.finish", "start_action", "start_task", "continue_task", "add_success_fields",
           "ActionType()", "ActionType.as_task"}


class Tap:
    """Ground truth about what the interpreter asked eliot to do, recorded from outside eliot."""

    def __init__(self):
        self.reset()

    def reset(self):
        self.starts = []      # dict(act, key, fields)
        self.requests = []    # dict(act, exc, kind, s0, s1, x0, x1, ret)
        self.succ = []        # (act, kwargs, number of requests made before)
        self.ext = []         # dict(cls, exc, result | raised)
        self.sends = []       # key of every dict handed to Destinations.send
        self.depth = 0

    def __enter__(self):
        import eliot
        from eliot import _action, _output

        tap = self
        A = _action.Action
        self.saved = [(A, n, A.__dict__[n]) for n in ("_start", "finish", "__exit__", "addSuccessFields", "add_success_fields")]
        self.saved.append((_output.Destinations, "send", _output.Destinations.__dict__["send"]))
        self.saved.append((eliot, "register_exception_extractor", eliot.register_exception_extractor))
        o_start, o_finish, o_exit, o_succ = A.__dict__["_start"], A.__dict__["finish"], A.__dict__["__exit__"], A.__dict__["addSuccessFields"]
        o_send, o_reg = _output.Destinations.__dict__["send"], eliot.register_exception_extractor

        def _start(self_, fields):
            try:
                key = (self_.task_uuid, tuple(self_._task_level.as_list()))
            except BaseException:  # noqa
                key = None
            tap.starts.append(dict(act=self_, key=key, fields=dict(fields) if isinstance(fields, dict) else {}))
            return o_start(self_, fields)

        def bracket(req, f, *a):
            req.update(s0=len(tap.sends), x0=len(tap.ext))
            tap.requests.append(req)
            tap.depth += 1
            try:
                r = f(*a)
                req["ret"] = bool(r)
                return r
            finally:
                tap.depth -= 1
                req.update(s1=len(tap.sends), x1=len(tap.ext))

        def finish(self_, exception=None):
            if tap.depth:
                return o_finish(self_, exception)
            return bracket(dict(act=self_, exc=exception, kind="finish"), o_finish, self_, exception)

        def __exit__(self_, type_, exception, traceback):
            if tap.depth:
                return o_exit(self_, type_, exception, traceback)
            return bracket(dict(act=self_, exc=exception, kind="exit"), o_exit, self_, type_, exception, traceback)

        def add_success(self_, **fields):
            tap.succ.append((self_, dict(fields), len(tap.requests)))
            return o_succ(self_, **fields)

        def send(self_, message, *a, **kw):
            try:
                tap.sends.append((message.get("task_uuid"), tuple(message.get("task_level") or ())))
            except BaseException:  # noqa
                tap.sends.append(None)
            return o_send(self_, message, *a, **kw)

        def register(cls, extractor):
            def wrapped(exc):
                rec = dict(cls=cls, exc=exc)
                tap.ext.append(rec)
                try:
                    r = extractor(exc)
                except BaseException as e2:  # noqa
                    rec["raised"] = e2
                    raise
                rec["result"] = dict(r) if isinstance(r, dict) else {"not-a-dict": r}
                return r

            return o_reg(cls, wrapped)

        A._start, A.finish, A.__exit__ = _start, finish, __exit__
        A.addSuccessFields = A.add_success_fields = add_success
        _output.Destinations.send = send
        eliot.register_exception_extractor = register
        return self

    def __exit__(self, *a):
        for obj, name, val in self.saved:
            setattr(obj, name, val)


def healthy_view(case, real, rt):
    prog = case["prog"]
    if not (prog and prog[0]["op"] == "addDests"):
        return None
    failed = {f[0] for f in rt.failures}
    for d in prog[0]["ds"]:
        if d not in failed:
            return [m for dd, m in real["accepted"] if dd == d]
    return None


def global_keys(prog, acc=None):
    acc = set() if acc is None else acc
    for s in prog:
        if s["op"] == "addGlobals":
            acc.update(k for k, _ in s["fs"])
        for kk in ("body", "handler"):
            if kk in s:
                global_keys(s[kk], acc)
    return acc


def qual(e):
    return "%s.%s" % (type(e).__module__, type(e).__name__)


def text(e):
    try:
        return str(e)
    except BaseException:  # noqa
        return FALLBACK


def ukey(key):
    """(uuid string, level tuple) as recorded from the Action object -> canonical (n, level tuple)."""
    u, lvl = key
    if isinstance(u, str) and u.startswith("uuid-"):
        try:
            return (int(u[5:]), tuple(lvl))
        except ValueError:
            pass
    return (u, tuple(lvl))


def mkey(m):
    u, lvl = m.get("task_uuid"), m.get("task_level")
    u = u["uuid"] if isinstance(u, dict) and "uuid" in u else canon(u)
    return (u, tuple(lvl) if isinstance(lvl, list) else canon(lvl))


def make_oracle(tap):
    def oracle(ctx, case, real, rt):
        try:
            _oracle(ctx, case, real, rt, tap)
        finally:
            tap.reset()

    return oracle


def _oracle(ctx, case, real, rt, tap):
    if real["outcome"] == "stuck":
        return
    # --- the exception passes through: __exit__ neither swallows nor replaces it
    for name, res in rt.api:
        if name == "Action.__exit__" and res == "swallowed":
            ctx.violation("Action.__exit__ returned a truthy value: the exception raised in the body of the with-block would be swallowed", case)
            return
    for req in tap.requests:
        if req["kind"] == "exit" and req.get("ret"):
            ctx.violation("Action.__exit__ returned a truthy value", case)
            return
    bad = [a for a in rt.api if a[1] != "ok"]
    if bad:
        if bad[0][0] in C03_API:
            ctx.violation("eliot API call %s %s (an action's start/exit/finish must not raise: it would replace the application's exception)" % bad[0], case)
        else:
            ctx.count("foreign_api_failure")
        return
    view = healthy_view(case, real, rt)
    if view is None:
        # every destination of the first add_destinations failed at least once: read what the first one was *offered*
        # (the fan-out loop offers every message to every destination whether or not it raises)
        prog = case["prog"]
        if not (prog and prog[0]["op"] == "addDests" and prog[0]["ds"]):
            ctx.count("no_destination_at_start")
            return
        view = [m for dd, m in real["offered"] if dd == prog[0]["ds"][0]]
        ctx.count("offered_views_of_failing_destination")
    else:
        ctx.count("healthy_views")
    gl = global_keys(case["prog"])
    registry = {}
    for spec in case["env"]["extractors"]:
        registry[rt.classes[spec["cls"]]] = spec
    # the start fields as the program text gives them, per (unique) action type
    spec_fields = {}

    def walk(block):
        for st_ in block:
            sp = st_.get("spec")
            if sp is not None and st_["op"] in ("with", "startAs"):
                spec_fields[sp["atype"]] = None if sp["atype"] in spec_fields else sp["fields"]
            for kk_ in ("body", "handler"):
                if kk_ in st_:
                    walk(st_[kk_])
    walk(case["prog"])
    spec_fields.pop("", None)
    # --- group the action messages of the view by action
    by_action = {}
    pos = {}
    for i, m in enumerate(view):
        k = mkey(m)
        pos.setdefault(k, i)
        if "action_status" in m:
            u, lvl = k
            if not isinstance(lvl, tuple) or not lvl:
                ctx.violation("an action message without a proper task_level: %s" % canon(m)[:300], case)
                return
            by_action.setdefault((u, lvl[:-1]), []).append(m)
    known = {}
    for st in tap.starts:
        if st["key"] is None:
            ctx.violation("an Action whose identity cannot be read was started", case)
            return
        k = ukey(st["key"])
        if k in known:
            ctx.violation("two actions were started at the same place %s" % (k,), case)
            return
        known[k] = st
    for k in by_action:
        if k not in known:
            ctx.violation("action messages at %s belong to no action the program started" % (k,), case)
            return
    n_ok = n_failed = n_unfinished = n_ext = n_ext_raise = n_base = n_strraise = n_repeat = 0
    for k, st in known.items():
        act = st["act"]
        msgs = by_action.get(k, [])
        starts = [m for m in msgs if m.get("action_status") == "started"]
        ends = [m for m in msgs if m.get("action_status") in ("succeeded", "failed")]
        other = [m for m in msgs if m.get("action_status") not in ("started", "succeeded", "failed")]
        where = "action %s%s" % (k[0], list(k[1]))
        if other:
            ctx.violation("%s: unknown action_status %s" % (where, canon(other[0].get("action_status"))), case)
            return
        # ---- exactly one start, with exactly the start fields
        if len(starts) != 1:
            ctx.violation("%s has %d start messages" % (where, len(starts)), case)
            return
        s = starts[0]
        want = {kk: rt.canon_plain(v) for kk, v in st["fields"].items() if kk not in STRUCT}
        got = {kk: v for kk, v in s.items() if kk not in STRUCT}
        for kk in set(want) | set(got):
            if kk in gl:
                continue
            if canon(want.get(kk, "<absent>")) != canon(got.get(kk, "<absent>")):
                ctx.violation("%s: start message field %r is %s, the start fields say %s" % (where, kk, canon(got.get(kk, "<absent>")), canon(want.get(kk, "<absent>"))), case)
                return
        # ... and those are the fields the program gave (the tap sits on a private method: compare with the program text too)
        try:
            atype = act._identification.get("action_type")
        except BaseException:  # noqa
            atype = None
        if atype in spec_fields and spec_fields[atype] is not None:
            want_p = {kk: rt.canon_plain(rt.value(v)) for kk, v in spec_fields[atype] if kk not in STRUCT}
            for kk in set(want_p) | set(got):
                if kk in gl or kk in ("action_type", "action_status"):
                    continue
                if canon(want_p.get(kk, "<absent>")) != canon(got.get(kk, "<absent>")) and not (isinstance(got.get(kk), dict) and "ser" in got.get(kk)):
                    ctx.violation("%s: start message field %r is %s, the program passed %s to start_action" % (where, kk, canon(got.get(kk, "<absent>")), canon(want_p.get(kk, "<absent>"))), case)
                    return
        # ---- end: exactly one iff finished
        reqs = [r for r in tap.requests if r["act"] is act]
        for later in reqs[1:]:
            if later.get("s1") != later.get("s0") or later.get("x1") != later.get("x0"):
                ctx.violation("%s: finishing it again (%s) emitted %d message(s) and ran %d extractor call(s); it must do nothing"
                              % (where, later["kind"], (later.get("s1") or 0) - (later.get("s0") or 0), (later.get("x1") or 0) - (later.get("x0") or 0)), case)
                return
        if len(reqs) > 1:
            n_repeat += 1
        if not reqs:
            n_unfinished += 1
            if ends:
                ctx.violation("%s was never finished but has %d end message(s)" % (where, len(ends)), case)
                return
            continue
        if len(ends) != 1:
            ctx.violation("%s was finished (%d finish/exit calls) and has %d end messages" % (where, len(reqs), len(ends)), case)
            return
        end = ends[0]
        if pos[mkey(end)] < pos[mkey(s)]:
            ctx.violation("%s: the end message precedes the start message" % where, case)
            return
        first = reqs[0]
        e = first["exc"]
        nreq_before = tap.requests.index(first)
        succ = {}
        for a2, kw, nreq in tap.succ:
            if a2 is act and nreq <= nreq_before:
                succ.update(kw)
        succ = {kk: rt.canon_plain(v) for kk, v in succ.items()}
        got = {kk: v for kk, v in end.items() if kk not in STRUCT}
        if e is None:
            n_ok += 1
            if end["action_status"] != "succeeded":
                ctx.violation("%s ended without an exception (%s) but its end message says %s" % (where, first["kind"], end["action_status"]), case)
                return
            want = succ
        else:
            n_failed += 1
            if not isinstance(e, Exception):
                n_base += 1
            if end["action_status"] != "failed":
                ctx.violation("%s: %s left the %s but the end message says %s" % (where, qual(e), "with-block" if first["kind"] == "exit" else "finish call", end["action_status"]), case)
                return
            if text(e) == FALLBACK:
                n_strraise += 1
            want = {"exception": qual(e), "reason": text(e)}
            # ---- extractor: nearest class of the MRO that has one (independent walk over the real classes)
            nearest = next((c for c in type(e).__mro__ if c in registry), None)
            calls = [x for x in tap.ext[first["x0"]:first["x1"]] if x["exc"] is e]
            during = [view[pos[kk]] for kk in (ukey(sk) for sk in tap.sends[first["s0"]:first["s1"]] if sk is not None) if kk in pos]
            tbs = [m for m in during if m.get("message_type") == "eliot:traceback"]
            others = [m for m in during if m.get("message_type") not in ("eliot:traceback", "eliot:destination_failure") and m is not end]
            if others:
                ctx.violation("%s: finishing it emitted an unexpected message: %s" % (where, canon(others[0])[:300]), case)
                return
            if nearest is None:
                if calls:
                    ctx.violation("%s: an extractor was called for %s although none is registered along its MRO" % (where, qual(e)), case)
                    return
                if tbs:
                    ctx.violation("%s: a traceback was logged while finishing although no extractor exists for %s" % (where, qual(e)), case)
                    return
            else:
                n_ext += 1
                if len(calls) != 1:
                    ctx.violation("%s: the extractor registered for %s (nearest class in the MRO of %s) was called %d times" % (where, nearest.__name__, qual(e), len(calls)), case)
                    return
                call = calls[0]
                if call["cls"] is not nearest:
                    ctx.violation("%s: the extractor of %s was used for %s, the nearest registered class in its MRO is %s" % (where, call["cls"].__name__, qual(e), nearest.__name__), case)
                    return
                if "raised" in call:
                    n_ext_raise += 1
                    e2 = call["raised"]
                    match = [m for m in tbs if m.get("exception") == qual(e2) and m.get("reason") == text(e2)]
                    if not match or len(tbs) != 1:
                        ctx.violation("%s: the extractor raised %s; expected exactly one eliot:traceback for it before the end message, found %s" % (
                            where, qual(e2), canon([[m.get("exception"), m.get("reason")] for m in tbs])), case)
                        return
                    if any(pos[mkey(m)] > pos[mkey(end)] for m in tbs):
                        ctx.violation("%s: the traceback of the extractor's exception was logged after the end message" % where, case)
                        return
                else:
                    if tbs:
                        ctx.violation("%s: a traceback was logged although the extractor returned normally" % where, case)
                        return
                    want.update({kk: rt.canon_plain(v) for kk, v in call["result"].items()})
                    want["exception"], want["reason"] = qual(e), text(e)
        for kk in set(want) | set(got):
            if kk in gl and kk not in ("exception", "reason"):
                continue
            if canon(want.get(kk, "<absent>")) != canon(got.get(kk, "<absent>")):
                what = "success" if e is None else "failure"
                extra = ""
                if e is not None and kk in succ and kk not in want:
                    extra = " (a success field on a failed end)"
                elif kk in st["fields"] and kk not in want:
                    extra = " (a start field leaked into the end message)"
                ctx.violation("%s: %s end message field %r is %s, expected %s%s" % (where, what, kk, canon(got.get(kk, "<absent>")), canon(want.get(kk, "<absent>")), extra), case)
                return
    ctx.count("actions_checked", n=len(known))
    ctx.count("ends_succeeded", n=n_ok)
    ctx.count("ends_failed", n=n_failed)
    ctx.count("ends_failed_non_Exception", n=n_base)
    ctx.count("reason_str_raised", n=n_strraise)
    ctx.count("unfinished_actions", n=n_unfinished)
    ctx.count("actions_finished_repeatedly", n=n_repeat)
    ctx.count("failed_with_extractor", n=n_ext)
    ctx.count("extractor_raised", n=n_ext_raise)
    real["_c03"] = (len(known), n_ok, n_failed)


def nontrivial(case, real, st):
    n, ok, failed = real.get("_c03", (0, 0, 0))
    return n >= 3 and ok >= 1 and failed >= 1


def interrupted_end_case(ctx, i):
    """Model-free: the write of an action's end message is interrupted - a later destination raises a BaseException
    (KeyboardInterrupt ...), which eliot lets through - after an earlier destination already has the message; the
    application's clean-up then finishes the action again (`finally: a.finish()`, or a second `with`-less finish with the
    exception).  The earlier destination must still see exactly one end message per action, and the first one stands."""
    import contextvars
    import eliot
    from eliot import _output

    rng = ctx.rng("interrupted-end:%d" % i)
    dst = _output.Logger._destinations
    saved = (dst._destinations, dst._any_added, dst._globalFields)
    dst.__init__()
    good, calls = [], [0]
    fail_at = set(rng.sample(range(14), rng.randint(1, 5)))

    def bad(message):
        k = calls[0]
        calls[0] += 1
        if k in fail_at:
            raise rng.choice([KeyboardInterrupt, SystemExit, GeneratorExit])("interrupted while writing")

    def block(depth):
        kind = rng.random()
        a = eliot.start_action(action_type="i:act%d" % depth)
        exc = None
        try:
            if kind < 0.5:
                with a:
                    body(depth)
            elif kind < 0.75:
                with a.context():
                    body(depth)
                a.finish()
            else:
                a.run(body, depth)
                a.finish()
        except BaseException as e:  # noqa: the interruption or the body's own exception
            exc = e
        finally:
            # the application's clean-up
            try:
                if rng.random() < 0.5:
                    a.finish()
                else:
                    a.finish(exc)
            except BaseException:  # noqa
                pass

    def body(depth):
        for _ in range(rng.randint(0, 2)):
            r = rng.random()
            if r < 0.4 and depth < 3:
                block(depth + 1)
            elif r < 0.8:
                eliot.log_message("i:msg", d=depth)
            else:
                raise ValueError("body")

    def main():
        eliot.add_destinations(good.append, bad)
        for _ in range(rng.randint(1, 3)):
            block(0)

    try:
        contextvars.Context().run(main)
    except BaseException:  # noqa
        pass
    finally:
        dst._destinations, dst._any_added, dst._globalFields = saved
    ends = {}
    for m in good:
        if m.get("action_status") in ("succeeded", "failed"):
            ends.setdefault((m["task_uuid"], tuple(m["task_level"][:-1])), []).append(m["action_status"])
    bad_ends = {k: v for k, v in ends.items() if len(v) != 1}
    reached = sum(1 for k in fail_at if k < calls[0])
    return (["action at level %s has end messages %s at a destination that accepted everything" % (list(k[1]), v)
             for k, v in sorted(bad_ends.items(), key=str)][:1], reached)


def own_logger_case(ctx, i):
    """Model-free: actions given the application's own ILogger (`start_action(logger, ...)`; any object with a `write`
    method, whatever that method returns) next to actions on the default logger: an exception raised in a block propagates,
    the very same object, out of every enclosing block; each action gets exactly one start and one end; the end says
    failed exactly when an exception left its block."""
    import contextvars
    import eliot
    from eliot import _output

    rng = ctx.rng("own-logger:%d" % i)
    dst = _output.Logger._destinations
    saved = (dst._destinations, dst._any_added, dst._globalFields)
    dst.__init__()
    seen = []
    problems = []

    class OwnLogger:
        def __init__(self, ret):
            self.ret = ret

        def write(self, dictionary, serializer=None):
            seen.append(dict(dictionary))
            return self.ret  # nothing says what an ILogger's write returns; eliot must not care

    loggers = [None, OwnLogger(None), OwnLogger(True), OwnLogger(1), OwnLogger("written"), OwnLogger([0])]
    expected = {}
    counter = [0]

    class Boom(BaseException if rng.random() < 0.3 else Exception):
        pass

    def block(depth):
        counter[0] += 1
        name = "o:act%d" % counter[0]
        lg = rng.choice(loggers)
        raised = None
        try:
            with (eliot.start_action(action_type=name) if lg is None else eliot.start_action(lg, name)):
                for _ in range(rng.randint(0, 2)):
                    r = rng.random()
                    if r < 0.45 and depth < 3:
                        block(depth + 1)
                    elif r < 0.75:
                        eliot.log_message(message_type="o:msg")
                    else:
                        raised = Boom(name)
                        raise raised
        except BaseException as e:  # noqa
            expected[name] = "failed"
            if raised is not None and e is not raised:
                problems.append("the exception raised in %s came out of its block as another object (%r)" % (name, e))
            raise
        else:
            if raised is not None:
                problems.append("the exception raised in %s did not leave its `with` block" % name)
            expected[name] = "succeeded"

    def main():
        eliot.add_destinations(seen.append)
        for _ in range(rng.randint(1, 3)):
            try:
                block(0)
            except BaseException:  # noqa
                pass

    try:
        contextvars.Context().run(main)
    finally:
        dst._destinations, dst._any_added, dst._globalFields = saved
    for name, want in expected.items():
        mine = [m for m in seen if m.get("action_type") == name]
        starts = [m for m in mine if m.get("action_status") == "started"]
        ends = [m.get("action_status") for m in mine if m.get("action_status") in ("succeeded", "failed")]
        if len(starts) != 1 or ends != [want]:
            problems.append("action %s: %d start message(s), end messages %s; an exception %s its block" % (name, len(starts), ends, "left" if want == "failed" else "did not leave"))
    return problems[:1], len(expected)


def run(ctx):
    import eliot
    for i in range(ctx.budget(120, 3000)):
        problems, n = own_logger_case(ctx, i)
        ctx.case({"own-logger": i, "seed": ctx.seed}, nontrivial=n >= 2, tags=["own-logger"], sample=(i < 1))
        if problems:
            ctx.violation("own ILogger: " + problems[0], {"own-logger": i, "seed": ctx.seed})
            break
    for i in range(ctx.budget(150, 4000)):
        problems, reached = interrupted_end_case(ctx, i)
        ctx.case({"interrupted-end": i, "seed": ctx.seed}, nontrivial=reached > 0, tags=["interrupted-end"], sample=(i < 2))
        if problems:
            ctx.violation("interrupted end message: " + problems[0], {"interrupted-end": i, "seed": ctx.seed})
            break

    ctx.extra["eliot_imported_from"] = getattr(eliot, "__file__", "?")
    with Tap() as tap:
        syscorr.run_programs(ctx, ctx.budget(400, 15000), PROFILE, make_oracle(tap), nontrivial=nontrivial,
                             compare=["offered", "accepted", "outcome"])


def replay(ctx, obj):
    case = obj["case"]
    if "own-logger" in case:
        problems, n = own_logger_case(ctx, case["own-logger"])
        print(problems, n)
        if problems:
            ctx.violation("own ILogger: " + problems[0], case)
        return
    if "interrupted-end" in case:
        problems, reached = interrupted_end_case(ctx, case["interrupted-end"])
        print(problems, reached)
        if problems:
            ctx.violation("interrupted end message: " + problems[0], case)
        return
    with Tap() as tap:
        real, rt = sysinterp.run_case(case)
        print(real["outcome"], len(real["offered"]), "requests:", len(tap.requests))
        make_oracle(tap)(ctx, case, real, rt)
