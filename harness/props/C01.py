"""C01 - emitted logs parse back to exactly the action tree the program executed.

Real chain, per generated program: the program runs on the real eliot API with a recording destination
(0), a real `FileDestination` on a binary file (2) and one on a text file (3); both files are read back,
split into lines, `json.loads`-ed; the decoded dicts go through the real `eliot.parse.Parser` in emission
order, reversed, and seeded shuffles.

Tie (model vs real): `Driver/Sys.lean` (the model the emission lemma / `emitted_is_forest` are about)
must accept, on every destination, exactly the dicts the real destinations received - for 2 and 3 that
is what was decoded from the files; `Driver/C09.lean` (the parser model of `roundtrip`) must agree with
the real parser after every `add` on every order.

Oracle (never consults a model): while interpreting the program this module builds, from the API calls
it makes and the Python exceptions it sees, the forest "what the program performed" (action types, start
fields, child order, outcome with exception class and text, success fields, message types and fields,
typed fields marked with their serializer).  The parsed `Task.root()` trees must be exactly that
forest: one complete task per top-level action / context-less message / task started inside an action.
"""
import copy
import contextvars
import itertools
import json
import os
import tempfile

from .. import sysgen, sysinterp
from ..framework import lean_driver, canon
from ..sysinterp import ApiRaised, Stuck, api
from . import C09 as c09
from . import C10 as c10gen

PROP = "C01"
LEAN_TARGETS = ["Eliot.Properties.C01", "Eliot.Properties.C01View", "Eliot.Properties.C01Flat"]
AUDIT = "Eliot/Audit/C01.lean"
THEOREMS = [
    "Sys.Emit.execS_emits", "Sys.Emit.execB_emits", "Sys.Emit.execB_top", "Sys.Emit.F.proj", "Sys.Emit.denB_range",
    "Sys.C01.execB_emits", "Sys.C01.emitted_is_forest", "Sys.C01.parse_reconstructs", "Sys.C01.roundtrip", "Sys.C01.field_values",
    "Sys.C01.roundtrip_lines", "Sys.C01.JsonView.codec_ok", "Sys.C01.roundtrip_file",
    "Sys.C01.extracted_fields", "Sys.Emit.extOf_nearest",
    "Sys.execB_vars", "Sys.Emit.execX_emits", "Sys.Emit.execX_top", "Sys.C01.explicit_node", "Sys.C01.explicit_same_as_with",
    "Sys.C01.handle_same_as_with", "Sys.C01.tagView_faithful", "Sys.C01.exStage_ok",
    # the round trip ends in the parser as the code runs it (flat `_nodes` tasks)
    "Sys.C01.roundtrip_flat",
]
RULE = ("structured logging programs from harness/sysgen.py (profile: no explicit handles / remote ids, no failing serializers or "
        "destinations, destinations [recording, binary FileDestination, text FileDestination] registered first, typed actions and "
        "messages with succeeding serializers, tasks started inside actions, context-less messages, try/except with write_traceback, "
        "add_success_fields, exceptions of generated classes incl. BaseException subclasses and raising __str__); batch A = no exception "
        "extractors, batch B = non-raising exception extractors registered on generated and builtin classes (resolved along the MRO; "
        "30% return a key eliot sets itself: reason / exception / traceback), batch E = batch B's programs with 70% of the with-blocks rewritten to go through a handle: "
        "`x = start_action(..)`; one or two `with x.context():` / `x.run(..)` segments; `x.finish()` (60%) or `x.finish(exc)` (40%) when the "
        "body ends normally, else `x = start_action(..)`; `with x: body`; leading messages / add_success_fields of the body may go "
        "through the handle (`x.log`, `Message.log(action=x)`, `x.add_success_fields`), extra `x.log` messages between segments - batches A, B, E "
        "inside the theorems' quantifier (a Python mirror of Block.structured + wf + clean + EnvOK - no failing serializer / extractor / "
        "registered destination; serializer outputs carry their call number on both sides - counts every case: in_theorems_fragment); "
        "batch V (oracle only, no model tie) = batch E's programs with 60% of all field values (start / success / message / extractor "
        "fields, log_call results) drawn from C10's generator of JSON-native values (None, bools, ints to the 64-bit edges, floats incl. "
        "subnormals and -0.0, strings with controls / escapes / astral characters / empty, nested lists, tuples, dicts) and half of the "
        "untyped with-blocks turned into calls of @log_call functions (action_type given or derived, include_args, include_result); every program is parsed in emission order, reversed and 2 (quick) / 4 (thorough) seeded shuffles; non-trivial = depth "
        ">= 2, >= 6 messages, >= 1 failed action and (typed field or task inside an action); distinct by canonical hash of the program")
TRUSTED = ["uuid4() does not collide (a counter in the harness, as in the model)", "time.time() is replaced by a counter (timestamps never compared otherwise)",
           "json.loads (CPython) reads what orjson wrote (C10 states the codec laws on the model; here the real pair is exercised on every line)",
           "the OS returns the bytes that were written and flushed to a regular file"]
ASSUMPTIONS = ["structured programs: with-blocks, messages, add_success_fields on the current action, raise/try/except, write_traceback in handlers, "
               "and the explicit spelling of an action (x = start_action(..); context()/run segments whose bodies end normally and do not rebind x, "
               "x.log(..) and x.add_success_fields(..) between them; x.finish(..) or `with x: body`; adjacent in one block - a segment body that "
               "raises leaves the action unfinished: excluded by the decidable `wf`; x.log while a child of x is open is outside: emission "
               "order would no longer be depth-first); "
               "other uses of handles and serialize_task_id+continue_task are covered by C02/C04/C06, not here",
               "registered destinations never raise (a raising one adds eliot:destination_failure messages to the current action: C08)",
               "field serializers do not raise (their output may depend on the call number - the harness's tag theirs with it) and no declared field is "
               "missing (else eliot:serialization_failure replaces the message: C13)",
               "registered exception extractors do not raise (a raising one makes eliot log an eliot:traceback of its own: C07); they may return any fields, "
               "eliot's own exception/reason/action_status (traceback message: reason/traceback/exception) win on a key clash; an extractor must not return "
               "action_type/action_status if write_traceback is used (Sys.Emit.extClean: the parser would read the traceback message as an action's end)",
               "field names avoid task_uuid/task_level/timestamp/action_type/action_status; field values are JSON-native: small ints, strings and opaque "
               "objects where the model is tied (batches A, B, E), every JSON-native value except NaN / infinities (orjson writes null: C10) in the "
               "oracle-only batch V - the core model does not model values, so the theorems say 'the value logged' and batch V checks it end to end",
               "log_call is not a construct of the core language (Model/LogCall.lean + C18 tie it to start_action/add_success_fields/finish); here it is "
               "exercised by the model-free tree oracle only (batch V)",
               "the link FV -> JSON used by roundtrip_file is the hypothesis structure JsonView.Faithful (lower/native/distinct keys/depth/invertible), not "
               "derived from the core model; Properties/C01View.lean gives a concrete tagging view that is faithful on every dict with distinct keys and "
               "64-bit numbers (tagView_faithful) and applies roundtrip_file to the 14 dicts the example program stages",
               "no global fields, destinations registered before the program starts"]
EXPLANATION = ("emission lemma (structured block inside an action stages exactly the dicts of its denotation, by mutual induction over Stmt/Block on "
               "the shared core model; a third mutual theorem carries the invariant of an explicitly spelled action while it is open, its node is "
               "the with-block's: explicit_node / explicit_same_as_with) + projection onto parser specification trees (a permutation, nothing lost, ids = stage indices, uuids distinct) + "
               "C09.feed_ok (any order parses to exactly those trees, complete) + C10/C11 (one newline-free faithful line per dict, reader returns them)")

BASE = dict(p_handles=0.0, p_remote=0.0, p_ser_fail=0.0, p_missing_field=0.0, p_late_add=0.0, p_remove=0.0, p_dest_fail=0.0,
            p_globals=0.0, p_ext_fail=0.0, p_typed=0.4, p_task=0.2, p_raise=0.35, p_probe=0.15, max_depth=5, max_stmts=22)
PROFILE_A = dict(BASE, p_extractor=0.0)
PROFILE_B = dict(BASE, p_extractor=0.6, p_ext_reserved=0.3)
DESTS = [0, 2, 3]
STR_RAISED = "eliot: unknown, str() raised exception"
STRUCTURAL = ("task_uuid", "task_level", "timestamp")
KEEP_OPS = {"with", "log", "raise", "try", "tb", "addSuccess", "probe"}


# ---- case normalisation ----------------------------------------------------------------------

def fix_fields(fs):
    return [[k, ({"s": "obj%d" % v["o"]} if "o" in v else v)] for k, v in fs]


def normalise_block(block):
    out = []
    for s in block:
        op = s["op"]
        if op not in KEEP_OPS or (op == "addSuccess" and s.get("x") is not None):
            continue
        s = dict(s)
        if op == "with":
            sp = dict(s["spec"], fields=fix_fields(s["spec"]["fields"]))
            s["spec"] = sp
            body = normalise_block(s["body"])
            if sp.get("sers") and sp["sers"]["success"]:
                body = [dict(op="addSuccess", x=None, fs=[[k, {"n": 7}] for k, _ in sp["sers"]["success"]])] + body
            s["body"] = body
        elif op == "log":
            s["ms"] = dict(s["ms"], fields=fix_fields(s["ms"]["fields"]))
        elif op == "try":
            s["body"] = normalise_block(s["body"])
            s["handler"] = normalise_block(s["handler"])
        elif op == "addSuccess":
            s["fs"] = fix_fields(s["fs"])
        out.append(s)
    return out


def strip_top(block, inside=False):
    """add_success_fields with no current action is API misuse: drop it outside any action."""
    out = []
    for s in block:
        if s["op"] == "addSuccess" and not inside:
            continue
        s = dict(s)
        if s["op"] == "with":
            s["body"] = strip_top(s["body"], True)
        elif s["op"] == "try":
            s["body"] = strip_top(s["body"], inside)
            s["handler"] = strip_top(s["handler"], inside)
        out.append(s)
    return out


def normalise(case):
    env = dict(case["env"], serFail=[], destFail=[])
    env["extractors"] = [dict(e, failAt=[]) for e in env["extractors"]]
    prog = [dict(op="addDests", ds=list(DESTS))] + strip_top(normalise_block(case["prog"]))
    return dict(env=env, prog=prog)


def gen(rng, profile):
    return normalise(sysgen.gen_case(rng, profile))


# ---- the explicit spelling of an action ------------------------------------------------------

def block_raises(block):
    """Does running the block end by raising?  In this profile control flow is static: `raise` always raises, a
    `with` block re-raises what its body raised, `except BaseException` catches everything, no API call raises."""
    return any(stmt_raises(s) for s in block)


def stmt_raises(s):
    op = s["op"]
    if op == "raise":
        return True
    if op in ("with", "withHandle", "inContext", "runIn", "logCall"):
        return block_raises(s["body"])
    if op == "try":
        return block_raises(s["body"]) and block_raises(s["handler"])
    return False


def explicit_spelling(case, rng, n_exc):
    """Rewrite `with start_action(..): body` blocks into spellings that go through a handle, `x` fresh, all adjacent:
    (a) body ends normally: `x = start_action(..)`; one or two segments `with x.context(): ..` / `x.run(lambda: ..)` holding
        the body; `x.finish()` or `x.finish(exc)` (`finish(exc)` does not raise: what follows runs);
    (b) any body: `x = start_action(..)`; `with x: body`;
    in both, messages the body starts with may be logged through the handle before the first segment (`x.log(..)` /
    `Message.log(action=x)`), `add_success_fields` the body starts with may go through the handle, and in (a) a message
    may be logged through the handle between / after the segments."""
    counter = [0]
    extra = [0]

    def handle_msg():
        extra[0] += 1
        return dict(op="logTo", x=None, ms=dict(mtype="via-handle:%d" % extra[0], fields=[["hk", {"n": extra[0]}]], sers=None))

    def walk(block):
        out = []
        for s in block:
            s = dict(s)
            for k in ("body", "handler"):
                if k in s:
                    s[k] = walk(s[k])
            r = rng.random()
            if s["op"] != "with" or r < 0.3:
                out.append(s)
                continue
            x = counter[0]
            counter[0] += 1
            body = list(s["body"])
            out.append(dict(op="startAs", x=x, task=s["task"], spec=s["spec"]))
            # what the body starts with may go through the handle instead
            while body and body[0]["op"] in ("log", "addSuccess") and rng.random() < 0.5:
                h = body.pop(0)
                out.append(dict(op="logTo", x=x, ms=h["ms"]) if h["op"] == "log" else dict(h, x=x))
            if r < 0.7 and not block_raises(body):
                # a cut must not separate an (already rewritten) inner `y = start_action(..)` from its segments / finish
                safe, opened = [0], False
                for i, t in enumerate(body):
                    opened = t["op"] == "startAs" or (opened and t["op"] not in ("finish", "withHandle"))
                    if not opened:
                        safe.append(i + 1)
                cut = rng.choice(safe) if rng.random() < 0.35 else None
                parts = [body] if cut is None else [body[:cut], body[cut:]]
                for part in parts:
                    out.append(dict(op=rng.choice(["inContext", "runIn"]), x=x, body=part))
                    if rng.random() < 0.25:
                        out.append(dict(handle_msg(), x=x))
                out.append(dict(op="finish", x=x, exc=(rng.randrange(n_exc) if n_exc and rng.random() < 0.4 else None)))
            else:
                out.append(dict(op="withHandle", x=x, body=body))
        return out

    return dict(case, prog=walk(case["prog"]))


# ---- oracle-only stream: every JSON-representable field value, and @log_call ------------------

NATIVE = dict(rich=0.0, bad=0.0, ext=False)


def _finite(t):
    if t["t"] == "float":
        return t["hex"] not in ("nan", "inf", "-inf")
    if t["t"] == "list":
        return all(_finite(x) for x in t["v"])
    if t["t"] == "dict":
        return all(_finite(v) for _, v in t["v"])
    return True


def rich_value(rng):
    """a field value from C10's generator of JSON-native values (None, bools, ints up to the 64-bit edges, floats incl. subnormals
    and -0.0, strings with controls / escapes / astral characters / empty, nested lists, tuples and dicts); NaN and the infinities
    are left out (orjson writes them as null: C10's business)"""
    while True:
        t = c10gen.g_value(rng, NATIVE, rng.choice([0, 0, 0, 1, 2, 3]))
        if _finite(t):
            return {"j": t}


def rich_values(case, rng):
    def fields(fs):
        return [[k, rich_value(rng) if rng.random() < 0.6 else v] for k, v in fs]

    def walk(block):
        out = []
        for s in block:
            s = dict(s)
            for k in ("body", "handler"):
                if k in s:
                    s[k] = walk(s[k])
            if "spec" in s:
                s["spec"] = dict(s["spec"], fields=fields(s["spec"]["fields"]))
            if "ms" in s:
                s["ms"] = dict(s["ms"], fields=fields(s["ms"]["fields"]))
            if "fs" in s:
                s["fs"] = fields(s["fs"])
            if "args" in s:
                s["args"] = fields(s["args"])
            if s.get("result") is not None:
                s["result"] = rich_value(rng)
            out.append(s)
        return out

    env = dict(case["env"], extractors=[dict(e, fields=fields(e["fields"])) for e in case["env"]["extractors"]])
    return dict(env=env, prog=walk(case["prog"]))


def add_log_calls(case, rng):
    """Turn some untyped `with start_action(..): body` blocks into calls of a function decorated with @log_call whose arguments are the
    start fields and whose body is `body` (then `return result`)."""
    n = [0]

    def walk(block):
        out = []
        for s in block:
            s = dict(s)
            for k in ("body", "handler"):
                if k in s:
                    s[k] = walk(s[k])
            if s["op"] == "with" and not s["task"] and not s["spec"].get("sers") and rng.random() < 0.5:
                n[0] += 1
                args = s["spec"]["fields"]
                incl = None if rng.random() < 0.6 else [k for k, _ in args if rng.random() < 0.5]
                s = dict(op="logCall", name="f%d" % n[0], atype=(s["spec"]["atype"] if rng.random() < 0.5 else None), args=args,
                         include_args=incl, include_result=rng.random() < 0.7, result={"n": n[0]}, body=s["body"])
            out.append(s)
        return out

    return dict(case, prog=walk(case["prog"]))


def gen_values(rng, profile):
    case = normalise(sysgen.gen_case(rng, profile))
    case = add_log_calls(case, rng)
    case = explicit_spelling(case, rng, len(case["env"]["excs"]))
    return rich_values(case, rng)


# ---- the theorems' fragment, syntactically (mirror of Block.structured / Block.structuredX in Proofs/SysEmit.lean) ----

def binds(block, x):
    return any((s["op"] == "startAs" and s["x"] == x) or binds(s.get("body", []), x) or binds(s.get("handler", []), x) for s in block)


def structured(block, in_handler, in_action):
    for i, s in enumerate(block):
        op = s["op"]
        if op == "startAs":
            return structured_open(block[i + 1:], in_handler, in_action, s["x"])
        if op == "with":
            ok = structured(s["body"], in_handler, True)
        elif op == "try":
            ok = structured(s["body"], in_handler, in_action) and structured(s["handler"], True, in_action)
        elif op == "tb":
            ok = in_handler
        elif op == "addSuccess":
            ok = s.get("x") is None and in_action
        else:
            ok = op in ("log", "raise", "probe")
        if not ok:
            return False
    return True


def structured_open(block, in_handler, in_action, x):
    if not block or block[0].get("x") != x:
        return False
    s, rest = block[0], block[1:]
    op = s["op"]
    if op in ("inContext", "runIn"):
        return structured(s["body"], in_handler, True) and not binds(s["body"], x) and structured_open(rest, in_handler, in_action, x)
    if op in ("logTo", "addSuccess"):
        return structured_open(rest, in_handler, in_action, x)
    if op == "finish":
        return structured(rest, in_handler, in_action)
    if op == "withHandle":
        return structured(s["body"], in_handler, True) and structured(rest, in_handler, in_action)
    return False


def gen_explicit(rng, profile):
    case = normalise(sysgen.gen_case(rng, profile))
    return explicit_spelling(case, rng, len(case["env"]["excs"]))


# ---- the real run + the oracle's forest ------------------------------------------------------

class RT(sysinterp.Runtime):
    """Runtime whose destinations 2/3 are real FileDestinations and whose values are JSON-native."""

    def __init__(self, env, tmpdir):
        super().__init__(env)
        self.tmpdir = tmpdir
        self.files = {}
        self.raw = []  # deep copies of what the recording destination received

    def serializer(self, sid):
        def ser(v):
            k = self.ser_calls
            self.ser_calls += 1
            return {"ser": [sid, k, v]}

        return ser

    def value(self, fv):
        if "j" in fv:
            return c10gen.build(fv["j"])  # a fresh object on every use
        return super().value(fv)

    def canon_plain(self, v):
        if isinstance(v, dict) and set(v) == {"ser"} and isinstance(v["ser"], list) and len(v["ser"]) == 3:
            return {"ser": [v["ser"][0], v["ser"][1], self.canon_plain(v["ser"][2])]}
        try:
            return super().canon_plain(v)
        except TypeError:  # a tuple holding a list (oracle-only values): not hashable
            return {"py": repr(v)[:200]}

    def dest(self, d):
        import eliot

        if d in (2, 3):
            if d not in self.dests:
                path = os.path.join(self.tmpdir, "log%d" % d)
                f = open(path, "wb") if d == 2 else open(path, "w", encoding="utf-8", newline="")
                self.files[d] = (path, f)
                self.dests[d] = eliot.FileDestination(file=f)
            return self.dests[d]
        if d not in self.dests:
            inner = super().dest(d)
            rt = self

            def recording(message):
                rt.raw.append(copy.deepcopy(message))
                return inner(message)

            self.dests[d] = recording
        return self.dests[d]


def safe_str(e):
    try:
        return str(e)
    except BaseException:  # noqa
        return STR_RAISED


def qualname(cls):
    return "%s.%s" % (cls.__module__, cls.__name__)


class Oracle:
    """Interpreter of the structured fragment that records what it did as a forest."""

    def __init__(self, rt, env):
        self.rt = rt
        self.trees = []
        self.stack = []
        self.handles = {}  # x -> (Action, its node, declared serializers)
        self.extractors = [(rt.classes[e["cls"]], {k: rt.value(v) for k, v in e["fields"]}) for e in env["extractors"]]

    def extracted(self, exc):
        table = dict((c, f) for c, f in self.extractors)
        for klass in type(exc).__mro__:
            if klass in table:
                return dict(table[klass])
        return {}

    def attach(self, node, own_tree=False):
        if self.stack and not own_tree:
            self.stack[-1]["children"].append(node)
        else:
            self.trees.append(node)

    @staticmethod
    def typed(fields, sers):
        out = dict(fields)
        for k, sid in sers or []:
            if k in out:
                out[k] = ("typed", sid, out[k])
        return out

    def block(self, block):
        for s in block:
            self.stmt(s)

    def log_call(self, s):
        """call a function decorated with @eliot.log_call whose body is the block `s["body"]`"""
        import eliot

        rt = self.rt
        kw = rt.kwargs(s["args"])
        result = rt.value(s["result"])
        started = dict(kw) if s["include_args"] is None else {k: kw[k] for k in s["include_args"]}
        state = {}

        def body():
            # the decorator has started its action by now: its node goes where the action went
            node = dict(kind="action", atype=s["atype"] if s["atype"] is not None else "c01prog.%s" % s["name"], start=started, children=[], succ={}, status=None, end=None)
            self.attach(node)
            self.stack.append(node)
            state["node"] = node
            state["depth"] = len(self.stack)
            self.block(s["body"])
            return result

        ns = {"__name__": "c01prog", "_body": body}
        exec("def %s(%s):\n    return _body()\n" % (s["name"], ", ".join(kw)), ns)
        f = api(rt, "log_call", eliot.log_call, ns[s["name"]], action_type=s["atype"], include_args=s["include_args"],
                include_result=s["include_result"])
        exc = None
        try:
            got = f(**kw)
        except (ApiRaised, Stuck):
            raise
        except BaseException as e:  # noqa
            exc = e
        node = state.get("node")
        if node is None:
            if exc is not None:
                raise ApiRaised("log_call wrapper raised before calling the function: %s" % type(exc).__name__)
            raise ApiRaised("log_call wrapper did not call the function")
        del self.stack[state["depth"] - 1:]
        if exc is None:
            if got is not result:
                rt.notes.append("log_call did not return the function's result")
            node["status"] = "succeeded"
            node["end"] = dict(node["succ"], **({"result": result} if s["include_result"] else {}))
        else:
            node["status"] = "failed"
            node["end"] = dict(self.extracted(exc), exception=qualname(type(exc)), reason=safe_str(exc))
            raise exc

    def with_block(self, a, node, sers, body):
        """`with a: body` on the action `a` (just created, or held in a handle) whose node is `node`."""
        rt = self.rt
        api(rt, "Action.__enter__", a.__enter__)
        self.stack.append(node)
        exc = None
        try:
            self.block(body)
        except (ApiRaised, Stuck):
            raise
        except BaseException as e:  # noqa
            exc = e
        finally:
            self.stack.pop()
        if exc is None:
            node["status"] = "succeeded"
            node["end"] = self.typed(node["succ"], sers and sers["success"])
            r = api(rt, "Action.__exit__", a.__exit__, None, None, None)
        else:
            node["status"] = "failed"
            node["end"] = dict(self.extracted(exc), exception=qualname(type(exc)), reason=safe_str(exc))
            r = api(rt, "Action.__exit__", a.__exit__, type(exc), exc, exc.__traceback__)
        if r:
            rt.notes.append("__exit__ swallowed the exception")
            return
        if exc is not None:
            raise exc

    def stmt(self, s):
        import eliot

        rt, op = self.rt, s["op"]
        if op == "with":
            sp = s["spec"]
            sers = sp.get("sers")
            kw = rt.kwargs(sp["fields"])
            node = dict(kind="action", atype=sp["atype"], start=self.typed(kw, sers and sers["start"]), children=[], succ={},
                        status=None, end=None)
            self.attach(node, own_tree=s["task"])
            a = sysinterp._make_action2(rt, s["task"], sp)
            self.with_block(a, node, sers, s["body"])
        elif op == "withHandle":
            if s["x"] not in self.handles:
                raise Stuck()
            self.with_block(*self.handles[s["x"]], s["body"])
        elif op == "logCall":
            self.log_call(s)
        elif op == "logTo":
            if s["x"] not in self.handles:
                raise Stuck()
            a, node, _ = self.handles[s["x"]]
            ms = s["ms"]
            kw = rt.kwargs(ms["fields"])
            node["children"].append(dict(kind="message", mtype=ms["mtype"], fields=self.typed(kw, ms.get("sers"))))
            sysinterp._log_with(rt, a, ms)
        elif op == "log":
            ms = s["ms"]
            kw = rt.kwargs(ms["fields"])
            self.attach(dict(kind="message", mtype=ms["mtype"], fields=self.typed(kw, ms.get("sers"))))
            sysinterp._log_with(rt, None, ms)
        elif op == "raise":
            raise rt.make_exc(s["e"])
        elif op == "try":
            try:
                self.block(s["body"])
            except (ApiRaised, Stuck):
                raise
            except BaseException as e:  # noqa
                rt.cur_exc.append(e)
                try:
                    self.block(s["handler"])
                finally:
                    rt.cur_exc.pop()
        elif op == "tb":
            e = rt.cur_exc[-1]
            self.attach(dict(kind="message", mtype="eliot:traceback",
                             fields=dict(self.extracted(e), reason=safe_str(e), exception=qualname(type(e)), traceback=("tb", type(e).__name__))))
            api(rt, "write_traceback", eliot.write_traceback, exc_info=(type(e), e, e.__traceback__))
        elif op == "addSuccess" and s.get("x") is not None:
            if s["x"] not in self.handles:
                raise Stuck()
            a, node, _ = self.handles[s["x"]]
            kw = rt.kwargs(s["fs"])
            node["succ"].update(kw)
            api(rt, "add_success_fields", a.add_success_fields, **kw)
        elif op == "addSuccess":
            if not self.stack:
                raise Stuck()
            kw = rt.kwargs(s["fs"])
            self.stack[-1]["succ"].update(kw)
            from eliot import _action
            api(rt, "add_success_fields", _action.current_action().add_success_fields, **kw)
        elif op == "startAs":
            sp = s["spec"]
            sers = sp.get("sers")
            kw = rt.kwargs(sp["fields"])
            node = dict(kind="action", atype=sp["atype"], start=self.typed(kw, sers and sers["start"]), children=[], succ={},
                        status=None, end=None)
            self.attach(node, own_tree=s["task"])
            self.handles[s["x"]] = (sysinterp._make_action2(rt, s["task"], sp), node, sers)
        elif op in ("inContext", "runIn"):
            if s["x"] not in self.handles:
                raise Stuck()
            a, node, _ = self.handles[s["x"]]
            self.stack.append(node)
            try:
                if op == "inContext":
                    with api(rt, "Action.context", a.context):
                        self.block(s["body"])
                else:
                    a.run(lambda: self.block(s["body"]))
            finally:
                self.stack.pop()
        elif op == "finish":
            if s["x"] not in self.handles:
                raise Stuck()
            a, node, sers = self.handles[s["x"]]
            if s.get("exc") is None:
                if node["status"] is None:
                    node["status"] = "succeeded"
                    node["end"] = self.typed(node["succ"], sers and sers["success"])
                api(rt, "Action.finish", a.finish)
            else:
                exc = rt.make_exc(s["exc"])
                if node["status"] is None:
                    node["status"] = "failed"
                    node["end"] = dict(self.extracted(exc), exception=qualname(type(exc)), reason=safe_str(exc))
                api(rt, "Action.finish", a.finish, exc)
        elif op == "addDests":
            api(rt, "add_destinations", eliot.add_destinations, *[rt.dest(d) for d in s["ds"]])
        elif op == "probe":
            pass
        else:
            raise ValueError(op)


def run_real(case, tmpdir):
    """Execute the case on the real eliot. Returns (observation, oracle forest, runtime)."""
    import eliot
    from eliot import _action, _output, _errors

    rt = RT(case["env"], tmpdir)
    dst = _output.Logger._destinations
    saved_dst = (dst._destinations, dst._any_added, dst._globalFields)
    dst.__init__()
    saved_reg = dict(_errors._error_extraction.registry)
    _errors._error_extraction.registry.clear()
    saved_time, saved_uuid = _action.time, getattr(_action, "uuid4", None)  # (a source that no longer uses uuid4 shows up as a broken tie)
    _action.time = sysinterp.Clock()
    uu = itertools.count()
    _action.uuid4 = lambda: "uuid-%d" % next(uu)
    for spec in case["env"]["extractors"]:
        eliot.register_exception_extractor(rt.classes[spec["cls"]], rt.extractor(spec))
    orc = Oracle(rt, case["env"])
    result = {}

    def body():
        try:
            orc.block(case["prog"])
            result["outcome"] = "ok"
        except ApiRaised as e:
            result["outcome"] = {"api-raised": str(e)}
        except Stuck:
            result["outcome"] = "stuck"
        except BaseException as e:  # noqa
            result["outcome"] = {"raised": rt.exc_tag(e)}

    try:
        contextvars.Context().run(body)
    finally:
        dst._destinations, dst._any_added, dst._globalFields = saved_dst
        _errors._error_extraction.registry.clear()
        _errors._error_extraction.registry.update(saved_reg)
        _action.time = saved_time
        if saved_uuid is not None:
            _action.uuid4 = saved_uuid
        else:
            del _action.uuid4
        for path, f in rt.files.values():
            try:
                f.close()
            except Exception:  # noqa
                pass
    result["accepted0"] = [m for d, m in rt.accepted if d == 0]
    for d in (2, 3):
        result["file%d" % d] = read_back(rt.files.get(d, (None, None))[0], d == 2)
    return result, orc.trees, rt


def read_back(path, binary):
    """The reader: split on newlines, json.loads every line.  Never raises."""
    if path is None:
        return {"error": "destination never created"}
    try:
        if binary:
            data = open(path, "rb").read()
            text = data.decode("utf-8")
        else:
            text = open(path, "r", encoding="utf-8", newline="").read()
    except Exception as e:  # noqa
        return {"error": "unreadable: %s" % type(e).__name__}
    lines = text.split("\n")
    tail = lines.pop()
    out = {"lines": [], "tail": tail, "bad": []}
    for i, l in enumerate(lines):
        try:
            v = json.loads(l)
        except ValueError:
            out["bad"].append([i, l[:200]])
            continue
        out["lines"].append(v)
    return out


# ---- parsed tasks -> trees ---------------------------------------------------------------------

def node_of(n):
    from eliot._message import WrittenMessage

    if isinstance(n, WrittenMessage):
        c = dict(n.contents)
        return dict(kind="message", mtype=c.pop("message_type", None), fields=c, idx=c.pop("_idx", None), uuid=n.task_uuid)

    def part(m):
        if m is None:
            return None
        c = dict(m.contents)
        c.pop("_idx", None)
        c.pop("action_type", None)
        c.pop("action_status", None)
        return c

    return dict(kind="action", atype=n.action_type, status=n.status, start=part(n.start_message), end=part(n.end_message),
                children=[node_of(k) for k in n.children], uuid=n.task_uuid,
                idx=None if n.start_message is None else n.start_message.contents.get("_idx"))


def first_idx(node):
    if node.get("idx") is not None:
        return node["idx"]
    return min([first_idx(k) for k in node.get("children", [])] or [10 ** 9])


def parse_all(dicts):
    """parse_stream on the given dicts; returns (list of (complete?, tree), error)."""
    from eliot.parse import Parser

    try:
        tasks = list(Parser.parse_stream(dicts))
        out = []
        for t in tasks:
            out.append((bool(t.is_complete()), node_of(t.root())))
        return out, None
    except Exception as e:  # noqa
        return None, "%s: %s" % (type(e).__name__, str(e)[:200])


def same_value(logged, loaded):
    """the value read back from the log is the value logged: same JSON type at every level (True is not 1, 1 is not 1.0), floats
    bit for bit, tuples as lists, dict members in order"""
    return c10gen.matches(c10gen.expected(logged, False), c10gen.loaded_canon(loaded))


def cmp_value(exp, got, ks, where):
    if isinstance(exp, tuple) and exp and exp[0] == "typed":
        if not (isinstance(got, dict) and set(got) == {"ser"} and isinstance(got["ser"], list) and len(got["ser"]) == 3):
            return "%s: typed field is %r, not the output of its serializer" % (where, got)
        sid, k, v = got["ser"]
        if sid != exp[1] or not same_value(exp[2], v):
            return "%s: typed field went through serializer %r on %r, expected serializer %r on %r" % (where, sid, v, exp[1], exp[2])
        if k in ks:
            return "%s: serializer call %r appears twice in the log" % (where, k)
        ks.add(k)
        return None
    if isinstance(exp, tuple) and exp and exp[0] == "tb":
        if not (isinstance(got, str) and exp[1] in got):
            return "%s: traceback text %r does not mention %s" % (where, str(got)[:80], exp[1])
        return None
    if not same_value(exp, got):
        return "%s: value %s, expected %s" % (where, repr(got)[:200], repr(exp)[:200])
    return None


def cmp_fields(exp, got, ks, where):
    if got is None:
        return "%s: missing" % where
    if set(exp) != set(got):
        return "%s: fields %s, expected %s" % (where, sorted(got), sorted(exp))
    for k in exp:
        d = cmp_value(exp[k], got[k], ks, "%s.%s" % (where, k))
        if d:
            return d
    return None


def cmp_tree(exp, got, ks, where):
    if exp["kind"] != got["kind"]:
        return "%s: a %s where the program performed a %s" % (where, got["kind"], exp["kind"])
    if exp["kind"] == "message":
        if exp["mtype"] != got["mtype"]:
            return "%s: message_type %r, expected %r" % (where, got["mtype"], exp["mtype"])
        return cmp_fields(exp["fields"], got["fields"], ks, where + "(%s)" % exp["mtype"])
    if exp["atype"] != got["atype"]:
        return "%s: action_type %r, expected %r" % (where, got["atype"], exp["atype"])
    w = "%s/%s" % (where, exp["atype"])
    if exp["status"] != got["status"]:
        return "%s: status %r, expected %r" % (w, got["status"], exp["status"])
    d = cmp_fields(exp["start"], got["start"], ks, w + ".start") or cmp_fields(exp["end"], got["end"], ks, w + ".end")
    if d:
        return d
    if len(exp["children"]) != len(got["children"]):
        return "%s: %d children, the program performed %d" % (w, len(got["children"]), len(exp["children"]))
    for i, (a, b) in enumerate(zip(exp["children"], got["children"])):
        d = cmp_tree(a, b, ks, "%s[%d]" % (w, i))
        if d:
            return d
    return None


def count_msgs(node):
    return 1 if node["kind"] == "message" else 2 + sum(count_msgs(k) for k in node["children"])


def flatten_own_trees(trees):
    """Oracle forest -> list of trees in creation order (tasks started inside actions were attached at
    the top by `attach`, in creation order, already)."""
    return trees


def oracle(ctx, case, real, trees, orders):
    """Model-free check of the property statement.  Returns True when everything held."""
    key = lambda what: dict(prop="C01", what=what)  # noqa
    if real["outcome"] == "stuck":
        return True
    if isinstance(real["outcome"], dict) and "api-raised" in real["outcome"]:
        ctx.violation("an eliot API call raised into the program: %s" % real["outcome"]["api-raised"][:300], case, key=key("api-raised"))
        return False
    nmsgs = sum(count_msgs(t) for t in trees)
    files = {}
    for d in (2, 3):
        f = real["file%d" % d]
        name = "binary" if d == 2 else "text"
        if "error" in f:
            ctx.violation("%s log file: %s" % (name, f["error"]), case, key=key("file-unreadable"))
            return False
        if f["bad"] or f["tail"] != "":
            ctx.violation("%s log file is not one JSON value per newline-terminated line: bad lines %s, unterminated tail %r"
                          % (name, f["bad"][:2], f["tail"][:80]), case, key=key("file-lines"))
            return False
        if len(f["lines"]) != nmsgs:
            ctx.violation("%s log file holds %d lines, the program performed %d messages" % (name, len(f["lines"]), nmsgs), case,
                          key=key("file-count"))
            return False
        files[d] = f["lines"]
    if files[2] != files[3]:
        i = next(i for i, (a, b) in enumerate(zip(files[2], files[3])) if a != b)
        ctx.violation("binary and text file differ at line %d: %s vs %s" % (i, canon(files[2][i])[:200], canon(files[3][i])[:200]), case,
                      key=key("bin-vs-text"))
        return False
    for i, m in enumerate(files[2]):
        if not isinstance(m, dict):
            ctx.violation("line %d is not a JSON object: %r" % (i, m), case, key=key("not-object"))
            return False
    for oname, order in orders:
        dicts = [dict(files[2][i], _idx=i) for i in order]
        parsed, err = parse_all(dicts)
        if err:
            ctx.violation("Parser.parse_stream raised on the decoded log (%s order): %s" % (oname, err), case, key=key("parser-raised"))
            return False
        if len(parsed) != len(trees):
            ctx.violation("parsing (%s order) yields %d tasks, the program performed %d top-level actions / context-less messages / tasks"
                          % (oname, len(parsed), len(trees)), case, key=key("task-count"))
            return False
        if not all(c for c, _ in parsed):
            ctx.violation("parsing (%s order) yields an incomplete task although every message is in the log" % oname, case,
                          key=key("incomplete"))
            return False
        got = sorted((t for _, t in parsed), key=first_idx)
        uuids = [repr(t.get("uuid")) for t in got]
        if len(set(uuids)) != len(uuids):
            ctx.violation("two of the parsed tasks (%s order) carry the same task_uuid %s" % (oname, sorted(u for u in uuids if uuids.count(u) > 1)[0]),
                          case, key=key("shared-uuid"))
            return False
        ks = set()
        for n, (e, g) in enumerate(zip(trees, got)):
            d = cmp_tree(e, g, ks, "task %d" % n)
            if d:
                ctx.violation("parsed tree differs from what the program performed (%s order): %s" % (oname, d), case, key=key("tree"))
                return False
    return True


# ---- ties --------------------------------------------------------------------------------------

def pmsgs(lines):
    out = []
    for i, m in enumerate(lines):
        d = dict(uuid=str(m.get("task_uuid")), level=list(m.get("task_level") or []), body=i)
        if m.get("action_type") is not None:
            d["atype"] = m["action_type"]
        if "action_status" in m:
            d["status"] = m["action_status"]
        out.append(d)
    return out


def real_steps(lines, order):
    from eliot.parse import Parser

    p = Parser()
    steps = []
    for i in order:
        m = dict(lines[i], body=i)
        try:
            done, p = p.add(m)
        except Exception as e:  # noqa
            steps.append({"err": c09.ERRMAP.get(type(e).__name__, "other:" + type(e).__name__)})
            break
        try:
            steps.append({"y": [c09.dump_task(t, False) for t in done], "i": {u: c09.dump_task(t, False) for u, t in p._tasks.items()}})
        except Exception as e:  # noqa
            steps.append({"err": "dump:" + type(e).__name__})
            break
    return steps


def orders_for(ctx, case, n):
    rng = ctx.rng("order:" + canon(case)[:0] + str(n) + ":" + str(len(canon(case))))
    out = [("emission", list(range(n))), ("reversed", list(range(n - 1, -1, -1)))]
    for k in range(ctx.budget(2, 4)):
        p = list(range(n))
        rng.shuffle(p)
        out.append(("shuffle%d" % k, p))
    return out


def in_fragment(case):
    """Is the case inside the quantifier of the theorems (Sys.C01.roundtrip ...)?  The program: destinations registered first,
    then Block.structured; every declared (typed) field of a start message / message is there (`wf`; success fields are added by
    normalise), no field is called like a key the parser reads (`clean`).  The environment (EnvOK): no serializer, no extractor and
    none of the registered destinations ever raises (serializer / extractor results may depend on the call number); an extractor
    returns no action_type / action_status (extClean)."""
    prog, env = case["prog"], case["env"]
    if not prog or prog[0]["op"] != "addDests" or not structured(prog[1:], False, False):
        return False
    if env["serFail"] or any(e["failAt"] for e in env["extractors"]) or any(d in prog[0]["ds"] for d, _, _ in env["destFail"]):
        return False
    reserved = ("task_uuid", "task_level", "timestamp", "action_type", "action_status")
    if any(k in reserved for e in env["extractors"] for k, _ in e["fields"]):
        return False

    def fields_ok(block):
        for s in block:
            for k in ("body", "handler"):
                if not fields_ok(s.get(k, [])):
                    return False
            sp, ms = s.get("spec"), s.get("ms")
            if sp is not None:
                have = [k for k, _ in sp["fields"]]
                if any(k in reserved for k in have) or any(k not in have for k, _ in ((sp.get("sers") or {}).get("start") or [])):
                    return False
            if ms is not None:
                have = [k for k, _ in ms["fields"]]
                if any(k in reserved for k in have) or any(k not in have for k, _ in (ms.get("sers") or [])):
                    return False
            if any(k in reserved for k, _ in s.get("fs", [])):
                return False
        return True

    return fields_ok(prog[1:])


def check_cases(ctx, cases, batch, model=True):
    """`model=False`: oracle-only cases (field values / API spellings the core model does not have): no tie with Driver/Sys."""
    sys_model = lean_driver("Driver/Sys.lean", cases) if model else [None] * len(cases)
    runs = []
    with tempfile.TemporaryDirectory(prefix="c01-") as top:
        for n, case in enumerate(cases):
            d = os.path.join(top, str(n))
            os.mkdir(d)
            real, trees, rt = run_real(case, d)
            runs.append((case, real, trees))
    parse_jobs, parse_index = [], []
    results = []
    for (case, real, trees), mo in zip(runs, sys_model):
        st = sysgen.stats(case["prog"])
        lines = real["file2"].get("lines") if isinstance(real.get("file2"), dict) else None
        nlines = len(lines) if lines is not None else 0
        orders = orders_for(ctx, case, nlines)
        ok = oracle(ctx, case, real, trees, orders)
        failed = canon(trees).count('"status":"failed"')
        typed = canon(trees).count('"typed"') + sum(1 for s in canon(case["prog"]).split('"task":true')[1:])
        ctx.case(case, nontrivial=(st["depth"] >= 2 and nlines >= 6 and failed >= 1 and typed >= 1),
                 tags=["batch:" + batch, "depth:%d" % min(st["depth"], 6), "trees:%d" % min(len(trees), 6)] + ["op:" + o for o in st["ops"]],
                 sample=(st["stmts"] <= 10))
        ctx.count("oracle_only" if not model else "in_theorems_fragment" if in_fragment(case) else "outside_theorems_fragment")
        ctx.count("messages", n=nlines)
        ctx.count("orders_parsed", n=len(orders))
        # --- tie 1: core model vs real destinations (recording, binary file, text file)
        name = "correspondence:sys-model"
        if not model:
            pass
        elif "bad" in mo:
            ctx.broken_tie(name, "model driver rejected the case: %s" % mo["bad"], case)
        elif mo.get("outcome") == "stuck":
            ctx.broken_tie(name, "model is stuck on a structured program", case)
        else:
            rtc = RT(case["env"], None)
            got = {0: real["accepted0"]}
            for d in (2, 3):
                f = real["file%d" % d]
                got[d] = [rtc.canon_msg(m) if isinstance(m, dict) else {"not-a-dict": repr(m)[:100]} for m in f.get("lines", [])] if isinstance(f, dict) else []
            diff = None
            for d in DESTS:
                mm = [m for dd, m in mo["accepted"] if dd == d]
                if canon(mm) != canon(got[d]):
                    i = next((i for i, (a, b) in enumerate(zip(mm, got[d])) if canon(a) != canon(b)), min(len(mm), len(got[d])))
                    diff = "destination %d (%s): message %d: real=%s model=%s (real %d messages, model %d)" % (
                        d, {0: "recording", 2: "binary file", 3: "text file"}[d], i,
                        canon(got[d][i])[:300] if i < len(got[d]) else None, canon(mm[i])[:300] if i < len(mm) else None, len(got[d]), len(mm))
                    break
            if diff is None and canon(mo.get("outcome")) != canon(real["outcome"]):
                diff = "outcome: real=%s model=%s" % (canon(real["outcome"]), canon(mo.get("outcome")))
            if diff:
                ctx.broken_tie(name, diff[:1500], case)
            else:
                ctx.traces += 1
        # --- tie 2: parser model vs real parser, every order, step by step
        if lines is not None and all(isinstance(m, dict) for m in lines):
            ms = pmsgs(lines)
            for oname, order in orders:
                parse_jobs.append({"msgs": [ms[i] for i in order]})
                parse_index.append((case, lines, oname, order))
        results.append(ok)
    if parse_jobs:
        pm = lean_driver("Driver/C09.lean", parse_jobs)
        for (case, lines, oname, order), mo in zip(parse_index, pm):
            name = "correspondence:parser-model"
            if "bad" in mo:
                ctx.broken_tie(name, "model rejected the history: %s" % mo["bad"], case)
                continue
            rs = real_steps(lines, order)
            msteps = c09.norm_model(mo.get("steps", []))
            if rs != msteps:
                i = next((k for k, (a, b) in enumerate(zip(rs, msteps)) if a != b), min(len(rs), len(msteps)))
                ctx.broken_tie(name, "real parser and trie model differ at step %d of the %s order: real=%s model=%s" % (
                    i, oname, canon(rs[i])[:400] if i < len(rs) else None, canon(msteps[i])[:400] if i < len(msteps) else None), case)
            else:
                ctx.traces += 1
    return results


def run(ctx):
    n = ctx.budget(300, 10000)
    chunk = 500
    for batch, profile, share, make in (("A", PROFILE_A, 0.4, gen), ("B", PROFILE_B, 0.15, gen), ("E", PROFILE_B, 0.25, gen_explicit),
                                        ("V", PROFILE_B, 0.2, gen_values)):
        rng = ctx.rng("gen" + batch)
        todo = int(n * share)
        while todo > 0:
            k = min(chunk, todo)
            check_cases(ctx, [make(rng, profile) for _ in range(k)], batch, model=(batch != "V"))
            todo -= k
    for name, what in (("correspondence:sys-model", "real destinations (recording, binary and text FileDestination read back with json.loads) received exactly the dicts the core model stages; same outcome"),
                       ("correspondence:parser-model", "real eliot.parse.Parser and the trie model agree after every add, on every order")):
        if name not in ctx.broken:
            ctx.obligation(name, "correspondence", True, what)


def oracle_only(case):
    def walk(block):
        return any(s["op"] == "logCall" or any("j" in v for fs in (s.get("fs", []), s.get("args", []), (s.get("spec") or {}).get("fields", []),
                                                                   (s.get("ms") or {}).get("fields", [])) for _, v in fs)
                   or walk(s.get("body", [])) or walk(s.get("handler", [])) for s in block)
    return walk(case["prog"]) or any("j" in v for e in case["env"]["extractors"] for _, v in e["fields"])


def replay(ctx, obj):
    case = obj["case"]
    res = check_cases(ctx, [case], "replay", model=not oracle_only(case))
    print("oracle held" if all(res) else "oracle failed")
