"""C19 - the threaded writer passes every message to its destination in order, off-thread.

Tie: the real `eliot.logwriter.ThreadedWriter` (imported against the 30-line Twisted stand-in in
harness/stubs) under the deterministic line-level scheduler on eliot/logwriter.py: 1-3 producer
threads x 0-5 messages calling the writer, a controller thread running 1-3 startService /
stopService cycles (so the stop request lands at every possible point of the interleaving), the
reader thread of each cycle and the thread that joins it, failure masks on the wrapped destination.
Every executed schedule is mapped to a schedule of the Lean model (Driver/C19.lean) which must
predict the same destination calls (message, reader thread, raised or not), completion events,
queue history and left-over queue.
Oracle (model-free): per cycle, the destination calls = the messages put before that cycle's STOP
(and after the previous one), in put order, each once, all on one thread that is neither a producer
nor the controller and differs per cycle, all before that cycle's stop result completes; a raising
destination loses only that message; what was put after the last STOP is still queued.
"""
import itertools
import json
import sys
import time

from .. import sched
from ..framework import REPO, VERIF, InfraError, lean_driver
from ..extractors import e4_threaded_writer

PROP = "C19"
LEAN_TARGETS = ["Eliot.Conc.Writer", "Eliot.Generated.Writer", "Eliot.Properties.C19"]
AUDIT = "Eliot/Audit/C19.lean"
THEOREMS = ["Eliot.C19.fifo_exactly_once", "Eliot.C19.stop_drains", "Eliot.C19.calls_before_stop_result",
            "Eliot.C19.dest_failure_loses_one", "Eliot.C19.single_reader_thread", "Eliot.C19.cycles"]
GENERATED_OBLIGATIONS = ["Generated.writer = Writer.assumed"]
RULE = ("configurations: 1-3 producers x 0-5 messages, failure masks (none / first / last / every other / all), 1-3 start/stop cycles; "
        "schedules: context-bounded DFS (<= 2 preemptions quick, <= 3 thorough) from the real code's enabled sets plus seeded random schedules; "
        "some messages are empty / zero objects ({}, [], 0, "", b"", ()) since the writer accepts any object; "
        "redundant stopService calls (again after a completed stop / before any start) between the cycles; "
        "two writers in one process with interleaved offers (oracle per writer); "
        "plus bursts of 1 500 / 12 000 (thorough: 50 000) messages offered before the writer thread runs (backlog dimension, oracle only); "
        "a case = (configuration, executed schedule); non-trivial = >= 1 message, >= 1 preemption, and at least one put happens after the "
        "first startService statement ran; distinct by canonical hash")
TRUSTED = ["queue.SimpleQueue (unbounded FIFO, atomic put/get), threading.Thread start/join",
           "harness/stubs/twisted: Service.running flag, deferToThreadPool = fresh thread + completion handle",
           "harness/sched.py: interleavings at source-line boundaries of eliot/logwriter.py"]
ASSUMPTIONS = ["startService is not called again before the previous stop result has completed (the model refuses a second live reader)",
               "the wrapped destination raises only Exception subclasses and does not call the writer",
               "producers call the writer directly (what Destinations.send does for a registered destination)"]
EXPLANATION = ("invariant proofs over a queue/reader/stop model; model tied to the code by running real threads under a deterministic scheduler "
               "and comparing destination calls, completion events and queue history per executed schedule")

LOGWRITER = str(REPO / "eliot" / "logwriter.py")
STUBS = str(VERIF / "harness" / "stubs")


def load_logwriter():
    if STUBS not in sys.path:
        sys.path.insert(1, STUBS)
    try:
        import twisted
        import eliot.logwriter as lw
    except Exception as e:  # noqa
        raise InfraError("cannot import eliot.logwriter against the Twisted stand-in: %r" % (e,))
    if not (getattr(twisted, "__file__", "") or "").startswith(STUBS):
        raise InfraError("a real Twisted is on the path; this check is written for the stand-in")
    return lw


class Reactor(object):
    def getThreadPool(self):
        return None


class RecQueue(object):
    """Delegates to the writer's real SimpleQueue; records the order of puts."""

    def __init__(self, q, S, stop, ident=None):
        self._q, self._S, self._stop, self.puts = q, S, stop, []
        self._ident = ident or (lambda item: item.get("id") if isinstance(item, dict) else repr(item))

    def _record(self, item):
        self.puts.append(("stop" if item is self._stop else self._ident(item), self._S.current()[0]))

    def put(self, item, block=True, timeout=None):
        full = getattr(self._q, "full", None)
        if block and full is not None and full():
            # a bounded queue that is full: the real call would block the caller (and, under the scheduler, everything);
            # turn it into an observation
            raise WouldBlock("put() on a full queue would block the caller")
        if hasattr(self._q, "full"):
            r = self._q.put(item, block, timeout)
        else:
            r = self._q.put(item)
        self._record(item)
        return r

    def put_nowait(self, item):
        r = self._q.put_nowait(item)
        self._record(item)
        return r

    def get(self, *a, **kw):
        return self._q.get(*a, **kw)

    def get_nowait(self):
        return self._q.get_nowait()

    def empty(self):
        return self._q.empty()

    def qsize(self):
        return self._q.qsize()


class DiskFull(Exception):
    pass


FALSY = {"dict": lambda: {}, "list": lambda: [], "zero": lambda: 0, "str": lambda: "", "bytes": lambda: b"", "tuple": lambda: ()}


class Payloads(object):
    """The objects offered to the writer (it accepts any object): ordinarily `{"id": k}`, for the ids listed in
    `falsy` an empty / zero object of the given kind.  Identified by object identity (each falsy kind at most once per case)."""

    def __init__(self, falsy):
        self.falsy = {int(k): v for k, v in (falsy or {}).items()}
        self.made = []

    def make(self, k):
        obj = FALSY[self.falsy[k]]() if k in self.falsy else {"id": k}
        self.made.append((obj, k))
        return obj

    def ident(self, obj):
        for o, k in self.made:
            if o is obj:
                return k
        return obj.get("id") if isinstance(obj, dict) and "id" in obj else "foreign:%r" % (obj,)


class WouldBlock(Exception):
    """Raised by the recording queue proxy instead of blocking forever."""


EXCS = [IOError, ValueError, DiskFull, KeyError]


def make_scheduler(timeout=30.0):
    return sched.Scheduler([LOGWRITER], [sched.QueueGetLines(LOGWRITER), sched.LockLines(LOGWRITER)], timeout=timeout)


def run_real(S, case, chooser):
    lw = load_logwriter()
    from eliot import Logger

    D = Logger._destinations
    saved = (D._destinations, D._any_added)
    D._destinations, D._any_added = [], True
    fails = set(case["fails"])
    pay = Payloads(case.get("falsy"))
    log = []

    def dest(msg):
        k = pay.ident(msg)
        ok = k not in fails
        log.append(["call", k, S.current()[0], ok])
        if not ok:
            raise EXCS[k % len(EXCS)]("destination failed on %r" % (k,))

    w = lw.ThreadedWriter(dest, Reactor())
    q = RecQueue(w._queue, S, lw._STOP, pay.ident)
    w._queue = q

    def producer(ids):
        def body():
            for k in ids:
                w(pay.make(k))
        return body

    redundant = list(case.get("redundant") or [])
    skip = []  # step ranges of redundant stopService calls (not part of any cycle)

    def redundant_stop(tag):
        # stopService on a service that is not running: whatever it answers (the pinned code raises ValueError from
        # removeDestination), it must leave nothing behind for the next cycle
        a = S.current()[1]
        try:
            d2 = w.stopService()
            out = "returned"
            if hasattr(d2, "called"):
                S.pseudo_gate("<await-redundant-stop>", lambda d2=d2: d2.called)
        except Exception as e:  # noqa - observation
            out = type(e).__name__
        skip.append([a, S.current()[1]])
        log.append(["redundant-stop", tag, out])

    def controller():
        if "pre" in redundant:
            redundant_stop("pre")
        for c in range(case["cycles"]):
            w.startService()
            d = w.stopService()
            d.addCallback(lambda r, c=c: (log.append(["stopped", c, S.current()[0]]), r)[1])
            S.pseudo_gate("<await-stop>", lambda d=d: d.called)
            if c in redundant:
                redundant_stop(c)

    try:
        res = S.run([producer(p) for p in case["producers"]] + [controller], chooser)
        left = []
        while not q.empty():
            it = q.get_nowait()
            left.append("stop" if it is lw._STOP else pay.ident(it))
    finally:
        try:
            while w in D._destinations:
                D._destinations.remove(w)
        except Exception:
            pass
        D._destinations, D._any_added = saved
    errors = {t: type(e).__name__ for t, e in res.errors.items()}
    for e in res.errors.values():
        if isinstance(e, InfraError):
            raise e
    return res, dict(log=log, puts=q.puts, left=left, errors=errors, running=bool(getattr(w, "running", None)), skip=skip)


def run_real_two(S, case, chooser):
    """Two writers in one process, each with its own wrapped destination, its own producers (`owner[i]` = writer of
    producer i) and its own controller thread running `cycles` start/stop cycles.  Returns the scheduler result and one
    observation per writer, with thread ids renumbered so that the single-writer oracle applies to each of them."""
    lw = load_logwriter()
    from eliot import Logger

    D = Logger._destinations
    saved = (D._destinations, D._any_added)
    D._destinations, D._any_added = [], True
    fails = set(case["fails"])
    pay = Payloads(None)
    nw = 2
    logs = [[] for _ in range(nw)]

    def mkdest(wi):
        def dest(msg):
            k = pay.ident(msg)
            ok = k not in fails
            logs[wi].append(["call", k, S.current()[0], ok])
            if not ok:
                raise EXCS[k % len(EXCS)]("destination failed on %r" % (k,))
        return dest

    writers = [lw.ThreadedWriter(mkdest(wi), Reactor()) for wi in range(nw)]
    queues = []
    for w in writers:
        q = RecQueue(w._queue, S, lw._STOP, pay.ident)
        w._queue = q
        queues.append(q)

    def producer(ids, w):
        def body():
            for k in ids:
                w(pay.make(k))
        return body

    def controller(wi):
        def body():
            for c in range(case["cycles"]):
                writers[wi].startService()
                d = writers[wi].stopService()
                d.addCallback(lambda r, c=c: (logs[wi].append(["stopped", c, S.current()[0]]), r)[1])
                S.pseudo_gate("<await-stop>", lambda d=d: d.called)
        return body

    nprod = len(case["producers"])
    try:
        res = S.run([producer(p, writers[case["owner"][i]]) for i, p in enumerate(case["producers"])] + [controller(wi) for wi in range(nw)], chooser)
        lefts = []
        for q in queues:
            left = []
            while not q.empty():
                it = q.get_nowait()
                left.append("stop" if it is lw._STOP else pay.ident(it))
            lefts.append(left)
    finally:
        for w in writers:
            try:
                while w in D._destinations:
                    D._destinations.remove(w)
            except Exception:
                pass
        D._destinations, D._any_added = saved
    for e in res.errors.values():
        if isinstance(e, InfraError):
            raise e
    nworkers = nprod + nw
    per = []
    for wi in range(nw):
        mine = [i for i in range(nprod) if case["owner"][i] == wi]
        tmap = {t: j for j, t in enumerate(mine)}
        tmap[nprod + wi] = len(mine)

        def rm(t, tmap=tmap):
            if t in tmap:
                return tmap[t]
            return 100 + t if (t is not None and t < nworkers) else t

        log = [[e[0], e[1], rm(e[2])] + e[3:] for e in logs[wi]]
        per.append(dict(case=dict(producers=[case["producers"][i] for i in mine], cycles=case["cycles"], fails=case["fails"]),
                        obs=dict(log=log, puts=[(item, rm(t)) for item, t in queues[wi].puts], left=lefts[wi],
                                 errors={rm(t): type(e).__name__ for t, e in res.errors.items() if t in tmap or t >= nworkers}, skip=[])))
    return res, per


def oracle_two(case, res, per):
    bad = []
    for wi, p in enumerate(per):
        for b in oracle(p["case"], res, p["obs"]):
            if "process-wide" in b and wi:
                continue
            bad.append("writer %d: %s" % (wi, b))
    return bad


def two_writer_configs(rng, thorough):
    ids = itertools.count(5000)

    def mk(sizes, owner, cycles, nfail):
        prods = [[next(ids) for _ in range(k)] for k in sizes]
        flat = [m for p in prods for m in p]
        return dict(kind="two-writers", producers=prods, owner=owner, cycles=cycles, fails=sorted(rng.sample(flat, min(nfail, len(flat)))))

    out = [mk([1, 1], [0, 1], 1, 0), mk([2, 1], [0, 1], 1, 1), mk([1, 2], [0, 1], 2, 0), mk([1, 1, 1], [0, 1, 0], 1, 0)]
    if thorough:
        out += [mk([3, 2], [0, 1], 2, 1), mk([2, 2, 1], [0, 1, 1], 2, 2), mk([2, 0], [0, 1], 1, 0), mk([1, 1, 1], [1, 0, 1], 3, 1)]
    return out


def thread_roles(res, nprod):
    readers = [t for t in sorted(res.names) if "_reader" in res.names[t]]
    joiners = [t for t in sorted(res.names) if "deferToThreadPool" in res.names[t]]
    others = [t for t in sorted(res.names) if t not in readers and t not in joiners]
    return readers, joiners, others


# ---- oracle (model-free) -----------------------------------------------------------------------------

def oracle(case, res, obs):
    bad = ["the writer changed process-wide state: %s" % c for c in getattr(res, "state_changes", [])]
    nprod = len(case["producers"])
    callers = set(range(nprod + 1))
    for t, name in sorted(obs["errors"].items()):
        if t <= nprod:
            bad.append("%s raised %s into its caller" % ("the writer call" if t < nprod else "startService/stopService", name))
        else:
            bad.append("a writer thread (scheduler id %d) died with %s" % (t, name))
    if res.deadlock:
        return bad + ["deadlock: stopService's result never completes / threads stuck at %s" % sorted(res.deadlock.items())]
    readers, joiners, others = thread_roles(res, nprod)
    log, puts = obs["log"], obs["puts"]
    # segments of the put history
    segs, cur = [], []
    for item, _ in puts:
        if item == "stop":
            segs.append(cur)
            cur = []
        else:
            cur.append(item)
    tail = cur
    for t, offered in enumerate(case["producers"]):
        mine = [item for item, tid in puts if tid == t and item != "stop"]
        if mine != offered[: len(mine)] or (len(mine) != len(offered) and t not in obs["errors"]):
            bad.append("producer %d offered %s but the queue received %s from it: each offer must become one put, in the order offered" % (t, offered, mine))
    if len(segs) != case["cycles"]:
        bad.append("%d STOP markers were put in %d cycles" % (len(segs), case["cycles"]))
    stopped_at = {}
    for i, e in enumerate(log):
        if e[0] == "stopped":
            stopped_at.setdefault(e[1], i)
    for c in range(case["cycles"]):
        if c not in stopped_at:
            bad.append("the stop result of cycle %d never completed" % c)
    calls = [(i, e[1], e[2], e[3]) for i, e in enumerate(log) if e[0] == "call"]
    tids = []
    for _, _, t, _ in calls:
        if t not in tids:
            tids.append(t)
    if any(t in callers or t is None for t in tids):
        bad.append("the destination was called on a caller's thread: threads %s" % tids)
    all_ids = [m for p in case["producers"] for m in p]
    called_ids = [m for _, m, _, _ in calls]
    if len(set(called_ids)) != len(called_ids):
        bad.append("a message was passed to the destination more than once: %s" % called_ids)
    # per cycle: calls between the previous stop result and this one
    prev = -1
    for c in range(min(case["cycles"], len(segs))):
        end = stopped_at.get(c, len(log))
        mine = [(i, m, t, ok) for (i, m, t, ok) in calls if prev < i < end]
        late = [m for (i, m, t, ok) in calls if i > end and m in segs[c]]
        got = [m for _, m, _, _ in mine]
        if got != segs[c]:
            bad.append("cycle %d: messages put before its STOP %s, but the destination got %s before the stop result completed%s"
                       % (c, segs[c], got, (" (and %s afterwards)" % late) if late else ""))
        ts = sorted(set(t for _, _, t, _ in mine))
        if len(ts) > 1:
            bad.append("cycle %d: destination called on several threads %s" % (c, ts))
        prev = end
    after = [m for (i, m, t, ok) in calls if i > prev]
    if after:
        bad.append("destination called after the last stop result completed: %s" % after)
    per_cycle_threads = []
    prev = -1
    for c in range(case["cycles"]):
        end = stopped_at.get(c, len(log))
        ts = set(t for (i, m, t, ok) in calls if prev < i < end)
        per_cycle_threads.append(ts)
        prev = end
    flat = [t for ts in per_cycle_threads for t in ts]
    if len(flat) != len(set(flat)):
        bad.append("one thread served more than one start/stop cycle: %s" % per_cycle_threads)
    if obs["left"] != tail:
        bad.append("put after the last STOP: %s, left in the queue: %s" % (tail, obs["left"]))
    lost = [m for m in all_ids if m not in called_ids and m not in obs["left"]]
    if lost and not bad:
        bad.append("messages neither passed on nor queued: %s" % lost)
    return bad


# ---- model schedule -----------------------------------------------------------------------------------

def model_case(sk, case, res, obs=None):
    nprod = len(case["producers"])
    readers, joiners, _ = thread_roles(res, nprod)
    L = sk["lines"]
    start, stop = L.get("start", []), L.get("stop", [])
    get_line = (L.get("reader") or [None])[0]
    dest_lines = set(L.get("dest_call", []))
    call_lines = set(L.get("call", []))
    out = []
    skip = (obs or {}).get("skip") or []
    for i, s in enumerate(res.trace):
        t = s.tid
        if t == nprod and any(a <= i < b for a, b in skip):
            continue  # a redundant stopService: no step of the cycle model
        if t < nprod:
            if s.file == LOGWRITER and s.line in call_lines:
                out.append(["p", t])
        elif t == nprod:
            if s.file == "<await-stop>":
                out.append("c")
            elif s.file == LOGWRITER and start and s.line == start[0] and s.func == "startService":
                out.extend(["c", "c"])
            elif s.file == LOGWRITER and ((s.line in start and s.func == "startService") or (s.line in stop and s.func == "stopService")):
                out.append("c")
        elif t in readers:
            if s.file == LOGWRITER and (s.line == get_line or s.line in dest_lines) and s.func == "_reader":
                out.append(["r", readers.index(t)])
        elif t in joiners:
            if s.file == "<join>":
                out.append(["j", joiners.index(t)])
    return dict(prog=case["producers"], cycles=case["cycles"], fails=case["fails"], sched=out)


def compare(ctx, case, res, obs, mo):
    name = "correspondence:writer-model"
    if "bad" in mo:
        ctx.broken_tie(name, "model driver rejected the case: %s" % mo["bad"], case)
        return False
    nprod = len(case["producers"])
    readers, joiners, _ = thread_roles(res, nprod)
    ridx = {t: k for k, t in enumerate(readers)}
    real_events = []
    for e in obs["log"]:
        if e[0] == "redundant-stop":
            continue
        if e[0] == "call":
            real_events.append(["call", e[1], ridx.get(e[2], "thread-%s" % e[2]), e[3]])
        else:
            real_events.append(["stopped", e[1]])
    real = dict(events=real_events, puts=[p for p, _ in obs["puts"]], queue=obs["left"], ctlDone=not res.deadlock and nprod not in obs["errors"],
                prodDone=True)
    model = dict(events=mo["events"], puts=mo["puts"], queue=mo["queue"], ctlDone=mo["ctlDone"], prodDone=mo["prodDone"])
    if res.deadlock:
        real.pop("ctlDone"), model.pop("ctlDone")
    if real != model:
        ctx.broken_tie(name, "model and real run differ", dict(case, real=real, model=model))
        return False
    return True


# ---- generation -----------------------------------------------------------------------------------------

def configs(rng, n, thorough):
    ids = itertools.count(1)

    def mk(sizes, cycles, mask):
        prods = [[next(ids) for _ in range(k)] for k in sizes]
        flat = [m for p in prods for m in p]
        if mask == "none":
            f = []
        elif mask == "first":
            f = flat[:1]
        elif mask == "last":
            f = flat[-1:]
        elif mask == "alt":
            f = flat[::2]
        elif mask == "all":
            f = list(flat)
        else:
            f = [m for m in flat if rng.random() < 0.4]
        return dict(producers=prods, cycles=cycles, fails=f, mask=mask, falsy={})

    fixed = [([1], 1, "none"), ([2], 1, "first"), ([0], 1, "none"), ([1, 1], 1, "none"), ([2, 1], 1, "last"), ([1], 2, "none"),
             ([2], 2, "all"), ([1, 1], 2, "alt"), ([3], 1, "alt"), ([1, 1, 1], 1, "first"), ([2, 2], 2, "random"), ([5], 1, "random"),
             ([1], 3, "none"), ([2, 1], 3, "random"), ([3, 2], 1, "last"), ([4, 0], 2, "alt")]
    out = [mk(*f) for f in fixed]
    while len(out) < n:
        np_ = rng.choice([1, 2, 2, 3])
        sizes = [rng.randint(0, 5 if np_ == 1 else (3 if np_ == 2 else 2)) for _ in range(np_)]
        out.append(mk(sizes, rng.choice([1, 1, 2, 3]), rng.choice(["none", "first", "last", "alt", "all", "random"])))
    out = out[:n]
    # the writer accepts any object: some of the messages are empty / zero objects (each kind at most once per configuration)
    kinds = sorted(FALSY)
    for j, c in enumerate(out):
        flat = [m for p in c["producers"] for m in p]
        if not flat or (j % 3 != 1 and rng.random() > 0.25):
            continue
        picks = rng.sample(flat, min(len(flat), rng.choice([1, 1, 2])))
        ks = rng.sample(kinds, len(picks))
        c["falsy"] = {str(m): k for m, k in zip(picks, ks)}
    # redundant stopService calls: again after a completed stop, or before the service was ever started
    for j, c in enumerate(out):
        if c["cycles"] >= 2 and j % 2 == 1:
            c["redundant"] = [rng.randrange(c["cycles"] - 1)] + (["pre"] if rng.random() < 0.3 else [])
        elif j % 7 == 3:
            c["redundant"] = ["pre"] if rng.random() < 0.5 else [c["cycles"] - 1]
    return out


def first_start_step(res, sk, nprod):
    start = sk["lines"].get("start", [])
    for i, s in enumerate(res.trace):
        if s.tid == nprod and s.file == LOGWRITER and start and s.line == start[0]:
            return i
    return None


def max_backlog(obs):
    """messages queued before the first STOP (with the producer-first schedule: before the reader ran at all)"""
    n = 0
    for item, _ in obs["puts"]:
        if item == "stop":
            break
        n += 1
    return n


def run(ctx):
    load_logwriter()
    sk = e4_threaded_writer.skeleton(REPO)
    ctx.obligation("skeleton-recognised:E4 (eliot/logwriter.py has the shape the model is written for)", "generated-skeleton",
                   not sk["problems"], "; ".join(sk["problems"]))
    broken = any(n in ctx.broken for n in GENERATED_OBLIGATIONS) or bool(sk["problems"])
    if broken:
        ctx.notes.append("skeleton E4 differs from the assumed shape: failing-input search on the real code with the enlarged budget")
    rng = ctx.rng("configs")
    srng = ctx.rng("schedules")
    cfgs = configs(rng, ctx.budget(28, 80), not ctx.quick)
    bound = ctx.budget(2, 3)
    dfs_limit = ctx.budget(160, 3000) * (2 if broken else 1)
    nrandom = ctx.budget(25, 250) * (2 if broken else 1)
    deadline = time.time() + ctx.budget(45, 800) * sched.budget_scale()
    MINCFG, MINPER = 16, 63  # minimum exploration, whatever the clock says: 16 configurations x 63 schedules (>= 1000)
    S = make_scheduler()
    model_in, model_ctx = [], []
    nviol = 0
    call_lines = set(sk["lines"].get("call", []))
    done = nsched = 0
    for ci, cfg in enumerate(cfgs):
        left = deadline - time.time()
        if (left <= 0 and done >= MINCFG) or nviol >= 3:
            break
        done += 1
        per_end = time.time() + max(0.0, left / (len(cfgs) - ci) * 2)
        ran = [0]
        case0 = dict(producers=cfg["producers"], cycles=cfg["cycles"], fails=cfg["fails"], falsy=cfg.get("falsy") or {}, redundant=cfg.get("redundant") or [])
        nprod = len(cfg["producers"])
        nmsgs = sum(len(p) for p in cfg["producers"])

        def gen():
            # a third of the random schedules first (they reach deep alternatives the bounded DFS only gets to late), then
            # the DFS, then the rest of the random ones; the clock cuts only beyond MINPER schedules of this configuration
            first = max(1, nrandom // 3)
            for _ in range(first):
                yield "random", run_real(S, case0, sched.RandomChooser(srng, stay=srng.choice([0.0, 0.5, 0.8, 0.9])))
            for r in sched.explore(lambda ch: run_real(S, case0, ch), bound=bound, limit=dfs_limit, result=lambda r: r[0]):
                yield "dfs", r
                if time.time() > per_end and ran[0] >= MINPER:
                    ctx.count("budget:cut")
                    return
            for _ in range(nrandom - first):
                if time.time() > per_end and ran[0] >= MINPER:
                    ctx.count("budget:cut")
                    return
                yield "random", run_real(S, case0, sched.RandomChooser(srng, stay=srng.choice([0.0, 0.5, 0.8, 0.9])))

        for how, (res, obs) in gen():
            nsched += 1
            ran[0] += 1
            case = dict(case0, schedule=res.schedule)
            fs = first_start_step(res, sk, nprod)
            late_put = fs is not None and any(s.tid < nprod and s.line in call_lines for s in res.trace[fs:])
            ctx.case(case, nontrivial=nmsgs >= 1 and res.preemptions >= 1 and late_put,
                     tags=["producers:%d" % nprod, "messages:%d" % nmsgs, "cycles:%d" % cfg["cycles"], "mask:" + cfg["mask"], "sched:" + how, "falsy-messages:%d" % len(cfg.get("falsy") or {}), "redundant-stops:%d" % len(cfg.get("redundant") or []),
                           "preemptions:%d" % min(res.preemptions, 4)])
            ctx.count("steps", n=len(res.trace))
            bad = oracle(case0, res, obs)
            if bad:
                nviol += 1
                ctx.violation(bad[0], dict(case, observed=obs, also=bad[1:4]), key=None)
            model_in.append(model_case(sk, case0, res, obs))
            model_ctx.append((case, res, obs))
            if bad:
                break
    ctx.count("explored:configurations", n=done)
    ctx.count("explored:schedules", n=nsched)
    # bursts: a large backlog builds up before the writer thread gets to run (the queue is unbounded: nothing may be
    # refused, dropped or reordered however many messages are pending); oracle only, the model is not run on these
    for n in ctx.budget([1500, 12000], [1500, 12000, 50000]):
        if nviol >= 3:
            break
        case0 = dict(producers=[list(range(1, n + 1))], cycles=1, fails=[7, n // 2, n])
        SB = sched.Scheduler([LOGWRITER], [sched.QueueGetLines(LOGWRITER), sched.LockLines(LOGWRITER)], timeout=600.0, max_steps=12 * n + 1000)
        res, obs = run_real(SB, case0, sched.Explicit([]))  # producer first, then start/stop, then the reader drains
        backlog = max_backlog(obs)
        ctx.case(dict(burst=n, cycles=1, fails=case0["fails"], schedule="producer-first"), nontrivial=backlog >= n,
                 tags=["burst:%d" % n, "burst:backlog>=%d" % (10 ** (len(str(max(backlog, 1))) - 1))])
        ctx.count("steps", n=len(res.trace))
        bad = oracle(case0, res, obs)
        if bad:
            nviol += 1
            small = dict(obs, log=obs["log"][:20], puts=obs["puts"][:20], left=obs["left"][:20])
            ctx.violation("burst of %d messages: %s" % (n, bad[0]), dict(kind="burst", burst=n, fails=case0["fails"], observed=small, also=bad[1:4]), key=None)
    # two writers in one process (oracle only: per writer as for a single one)
    tw_done = tw_sched = 0
    tw_end = time.time() + ctx.budget(24, 200) * sched.budget_scale()
    for cfg in two_writer_configs(rng, not ctx.quick):
        if nviol >= 3 or (time.time() > tw_end and tw_done >= 2):
            break
        tw_done += 1
        tw_here = 0
        c0 = {k: cfg[k] for k in ("kind", "producers", "owner", "cycles", "fails")}
        runs = itertools.chain(
            (("random", run_real_two(S, c0, sched.RandomChooser(srng, stay=srng.choice([0.0, 0.5, 0.8])))) for _ in range(ctx.budget(10, 100))),
            (("dfs", r) for r in sched.explore(lambda ch: run_real_two(S, c0, ch), bound=bound, limit=ctx.budget(45, 2000), result=lambda r: r[0])))
        for how, (res, per) in runs:
            tw_sched += 1
            tw_here += 1
            case = dict(c0, schedule=res.schedule)
            ctx.case(case, nontrivial=res.preemptions >= 1, tags=["two-writers:sched:" + how, "two-writers:cycles:%d" % cfg["cycles"]])
            bad = oracle_two(c0, res, per)
            if bad:
                nviol += 1
                ctx.violation(bad[0], dict(case, observed=[p["obs"] for p in per], also=bad[1:4]), key=None)
                break
            if time.time() > tw_end and tw_here >= 30:
                ctx.count("budget:cut")
                break
    ctx.count("explored:two-writers:configurations", n=tw_done)
    ctx.count("explored:two-writers:schedules", n=tw_sched)
    if model_in:
        answers = lean_driver("Driver/C19.lean", model_in)
        agree = 0
        for (case, res, obs), mo in zip(model_ctx, answers):
            if compare(ctx, case, res, obs, mo):
                ctx.traces += 1
                agree += 1
            elif len(ctx.extra.get("disagreements", [])) > 20:
                break
        if "correspondence:writer-model" not in ctx.broken:
            ctx.obligation("correspondence:writer-model", "correspondence", True,
                           "%d executed schedules: model predicts the same destination calls, completion events, queue history and left-over queue" % agree)


def replay(ctx, obj):
    case = obj.get("case") or {}
    if case.get("kind") == "burst":
        n = case["burst"]
        c0 = dict(producers=[list(range(1, n + 1))], cycles=1, fails=case["fails"])
        SB = sched.Scheduler([LOGWRITER], [sched.QueueGetLines(LOGWRITER), sched.LockLines(LOGWRITER)], timeout=600.0, max_steps=12 * n + 1000)
        res, obs = run_real(SB, c0, sched.Explicit([]))
        print("burst of %d messages, producer first; errors: %s; destination calls: %d; left in queue: %d" % (
            n, obs["errors"], sum(1 for e in obs["log"] if e[0] == "call"), len(obs["left"])))
        bad = oracle(c0, res, obs)
        if bad:
            ctx.violation("burst of %d messages: %s" % (n, bad[0]), dict(case, also=bad[1:4]))
        return
    if case.get("kind") == "two-writers":
        c0 = {k: case[k] for k in ("kind", "producers", "owner", "cycles", "fails")}
        res, per = run_real_two(make_scheduler(), c0, sched.Explicit(case["schedule"]))
        for wi, p in enumerate(per):
            print("writer %d: offered %s, put history %s, event log %s, left %s" % (wi, p["case"]["producers"], p["obs"]["puts"], p["obs"]["log"], p["obs"]["left"]))
        bad = oracle_two(c0, res, per)
        if bad:
            ctx.violation(bad[0], dict(case, also=bad[1:4]))
        return
    if "producers" not in case:
        run(ctx)
        return
    S = make_scheduler()
    c0 = dict(producers=case["producers"], cycles=case["cycles"], fails=case["fails"], falsy=case.get("falsy") or {}, redundant=case.get("redundant") or [])
    res, obs = run_real(S, c0, sched.Explicit(case["schedule"]))
    print("configuration:", json.dumps(c0))
    print("executed     :", res.lines[:600])
    print("threads      :", res.names)
    print("put history  :", obs["puts"])
    print("event log    :", obs["log"])
    print("left in queue:", obs["left"], " errors:", obs["errors"], " deadlock:", res.deadlock)
    bad = oracle(c0, res, obs)
    if bad:
        ctx.violation(bad[0], dict(case, observed=obs, also=bad[1:4]))
