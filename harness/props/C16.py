"""C16 - loggers are safe to write to from many threads at once.

Tie: real threads under the deterministic line-level scheduler (harness/sched.py) on eliot/_output.py:
  (a) 2-3 threads mixing write / validate / serialize / flush_tracebacks / reset on one MemoryLogger,
  (a') the same with 3 threads and reset among the calls, where the lock is a scheduler gate of its own, so that a thread
       can be parked queued on a lock object it has already picked (oracle only),
  (b) 2-4 threads writing through one real FileDestination (binary and text file).
Every executed schedule is mapped to a schedule of the Lean model (Driver/C16.lean; the MemoryLogger
model is compiled from the regenerated skeleton table E1, the file model from skeleton E2) and the
model must predict the same final lists / file content and what every reader saw.
  (c) 2-3 threads logging through the default Logger to a destination that fails on every ordinary message
      (no model: oracle only - as many eliot:destination_failure reports as failed deliveries, each message offered once),
  (d) 2-3 threads writing typed messages whose serializers fail on chosen calls through ONE shared Logger (oracle only:
      one eliot:traceback and one eliot:serialization_failure per failed write, every successful write delivered once).
Oracles (model-free): pairing message <-> own serializer, equal lengths, nothing duplicated or
lost, traceback list = sequential specification in the *observed* lock-acquisition order, readers
see paired lists; file: every line intact, multiset of lines = expected, per-thread order kept.
If the lock discipline is broken in the source the same search runs on the real code (smallest
programs first, larger budget) and reports the failing schedule as replay.
"""
import io
import itertools
import json
import re
import os
import tempfile
import time

from .. import sched
from ..framework import REPO, InfraError, lean_driver
from ..extractors import e1_memory_logger

PROP = "C16"
LEAN_TARGETS = ["Eliot.Conc.MemLog", "Eliot.Conc.FileLines", "Eliot.Generated.MemLog", "Eliot.Properties.C16"]
AUDIT = "Eliot/Audit/C16.lean"
SKELETON_TARGETS = {"Eliot.ShapesSkel.C16_shapes (E16: the lock decorator `exclusively` as a statement list)": ("Eliot.Properties.ShapesSkel", "Eliot/Audit/ShapesSkel.lean", ["Eliot.ShapesSkel.exclusivelyBody_shape"])}
THEOREMS = ["Eliot.C16.memlog_mutex", "Eliot.C16.memlog_linearizable", "Eliot.C16.pairs_consistent",
            "Eliot.C16.spec_tracebacks_filter", "Eliot.C16.lines_never_torn"]
GENERATED_OBLIGATIONS = ["AllLocked Generated.memoryLogger ∧ WritePairs Generated.memoryLogger",
                         "Generated.exclusivelyOk ∧ Generated.lockOk",
                         "OneWritePerLine (Generated.fileDestCall as file-model operations)"]
RULE = ("thread programs: 2-3 threads x 1-3 calls, family A = write (some failing validation) / validate / serialize / reset, "
        "family B = write (ordinary and traceback-typed of two exception classes) / flush_tracebacks(class|all) / reset; "
        "file programs: 2-4 threads x 1-2 messages through one FileDestination (binary / text file, direct or via a Logger); "
        "schedules: context-bounded DFS (<= 2 preemptions quick, <= 3 thorough) from the real code's own enabled sets, plus seeded random "
        "schedules; a case = (program, executed schedule); non-trivial = calls of >= 2 threads interleave in the observed order and "
        ">= 1 decision point had a thread blocked on the lock (MemoryLogger) or >= 1 preemption between a thread's file operations (file); "
        "distinct by canonical hash")
TRUSTED = ["CPython: threading.Lock, atomicity of one list.append and one file.write call under the GIL",
           "harness/sched.py: sys.settrace gating gives the interleavings of source lines of eliot/_output.py; code between two line events of one thread is atomic"]
ASSUMPTIONS = ["granularity: interleavings at source-line boundaries inside eliot/_output.py (the model interleaves at single shared accesses, which is finer)",
               "serializer / validator callbacks do not touch the logger"]
EXPLANATION = ("theorems over lock-discipline and file models compiled from regenerated skeleton tables; models tied to the code by running real threads "
               "under a deterministic scheduler and comparing final state and reader observations per executed schedule")

OUTPUT = str(REPO / "eliot" / "_output.py")
TB_TYPE = "eliot:traceback"


# ---- program generation --------------------------------------------------------------------------

def gen_programs(rng, n, big):
    """Smallest first (so that a broken lock discipline is found quickly)."""
    progs = []
    cid = itertools.count(1)

    def W(tag=0, fails=False):
        return dict(meth="write", cid=next(cid), tag=tag, fails=fails)

    def C(meth, tag=0):
        return dict(meth=meth, cid=next(cid), tag=tag, fails=False)

    fixed = [
        ("A", [[W()], [W()]]),
        ("B", [[W(1)], [W()]]),
        ("A", [[W(), W()], [W()]]),
        ("A", [[W()], [C("serialize")]]),
        ("A", [[W(fails=True)], [C("validate")]]),
        ("A", [[W()], [C("reset")]]),
        ("B", [[W(1)], [C("flushTracebacks", 0)]]),
        ("B", [[W(1), W(2)], [C("flushTracebacks", 2)]]),
        ("A", [[W()], [W()], [W()]]),
        ("A", [[W(), C("serialize")], [W(), C("validate")]]),
        ("B", [[W(1), C("reset")], [W(2), C("flushTracebacks", 1)]]),
        ("A", [[W(), W()], [W(), W()]]),
    ]
    progs.extend(fixed)
    while len(progs) < n:
        fam = rng.choice("AB")
        nthreads = rng.choice([2, 2, 3])
        maxcalls = 3 if big else 2
        threads = []
        for _ in range(nthreads):
            calls = []
            for _ in range(rng.randint(1, maxcalls if nthreads == 2 else min(2, maxcalls))):
                r = rng.random()
                if fam == "A":
                    if r < 0.55:
                        calls.append(W(fails=rng.random() < 0.25))
                    elif r < 0.7:
                        calls.append(C("validate"))
                    elif r < 0.88:
                        calls.append(C("serialize"))
                    else:
                        calls.append(C("reset"))
                else:
                    if r < 0.6:
                        calls.append(W(tag=rng.choice([0, 1, 1, 2])))
                    elif r < 0.88:
                        calls.append(C("flushTracebacks", rng.choice([0, 1, 2])))
                    else:
                        calls.append(C("reset"))
            threads.append(calls)
        if sum(1 for t in threads for c in t if c["meth"] == "write") == 0:
            continue
        progs.append((fam, threads))
    return progs


# ---- real side: MemoryLogger ----------------------------------------------------------------------

class E1(Exception):
    pass


class E2(Exception):
    pass


EXC = {0: Exception, 1: E1, 2: E2}


class Ser(object):
    """A per-call serializer object (distinct identity per call)."""

    def __init__(self, cid, fails):
        self.cid, self.fails = cid, fails

    def validate(self, d):
        if self.fails:
            from eliot import ValidationError
            raise ValidationError("cid=%d" % self.cid)

    def serialize(self, d):
        d["ser"] = self.cid


def do_call(lg, c):
    from eliot._traceback import TRACEBACK_MESSAGE

    m = c["meth"]
    if m == "write":
        if c["tag"]:
            cls = EXC[c["tag"]]
            msg = {"message_type": TB_TYPE, "reason": cls("r%d" % c["cid"]), "traceback": "tb", "exception": cls,
                   "cid": c["cid"], "task_uuid": "u", "task_level": [1], "timestamp": 1.0}
            lg.write(msg, TRACEBACK_MESSAGE._serializer)
        else:
            lg.write({"message_type": "m", "cid": c["cid"]}, Ser(c["cid"], c["fails"]))
        return {"ok": True}
    if m == "validate":
        lg.validate()
        return {"ok": True}
    if m == "serialize":
        return {"ret": [[d.get("cid"), d.get("ser")] for d in lg.serialize()]}
    if m == "flushTracebacks":
        f = lg.flush_tracebacks if c["cid"] % 2 else lg.flushTracebacks
        return {"ret": [d.get("cid") for d in f(EXC[c["tag"]])]}
    if m == "reset":
        lg.reset()
        return {"ok": True}
    raise InfraError("unknown call %r" % (c,))


def make_scheduler(timeout=30.0):
    return sched.Scheduler([OUTPUT], [sched.LockLines(OUTPUT)], timeout=timeout)


def run_memlog(S, threads, chooser, creator=None):
    """`creator`: None = the logger is built by the harness thread before the workers start; 0 = worker 0 builds it
    itself (ungated, as part of its start-up: the workers are started one after the other) and goes on using it."""
    from eliot import MemoryLogger
    from eliot._traceback import TRACEBACK_MESSAGE

    box = {}
    if creator is None:
        box["lg"] = MemoryLogger()
    obs = {}

    def worker(t, calls):
        def body():
            if creator == t:
                with S.ungated():
                    box["lg"] = MemoryLogger()
            lg = box["lg"]
            for c in calls:
                try:
                    obs[c["cid"]] = do_call(lg, c)
                except InfraError:
                    raise
                except BaseException as e:  # noqa - observation
                    obs[c["cid"]] = {"raised": type(e).__name__}
        return body

    res = S.run([worker(t, calls) for t, calls in enumerate(threads)], chooser)
    for e in res.errors.values():
        if isinstance(e, InfraError):
            raise e
    lg = box.get("lg")
    tbser = TRACEBACK_MESSAGE._serializer
    try:
        final = dict(
            messages=[m.get("cid") if isinstance(m, dict) else None for m in lg.messages],
            types=[m.get("message_type") if isinstance(m, dict) else None for m in lg.messages],
            serializers=["tb" if s is tbser else getattr(s, "cid", None) for s in lg.serializers],
            tracebacks=[m.get("cid") if isinstance(m, dict) else None for m in lg.tracebackMessages],
            tb_identical=all(any(t is m for m in lg.messages) for t in lg.tracebackMessages),
            failed=[_failed_cid(s) for s in lg._failed_validations],
        )
    except Exception as e:  # noqa - a mutated logger may not even have the lists
        final = {"raised": type(e).__name__}
    return res, obs, final


def _failed_cid(s):
    try:
        return int(str(s).split("cid=")[1].split(":")[0].split("\n")[0].strip("'\") ,"))
    except Exception:
        return None


# ---- MemoryLogger again, with threads that can be *queued on the lock* ------------------------------------

class GatedLock(object):
    """What `threading.Lock()` returns inside eliot/_output.py during these runs: a real lock whose blocking acquire is
    a scheduler gate of its own.  A thread can so be parked *after* it has picked the lock object and *before* it owns
    it - the state "queued on the lock" that the plain line-level gating (lock picked and taken in one step) cannot show."""

    def __init__(self, S):
        import _thread
        self._l = _thread.allocate_lock()
        self._S = S

    def acquire(self, blocking=True, timeout=-1):
        if blocking:
            self._S.pseudo_gate("acquire", lambda: not self._l.locked())
        return self._l.acquire(blocking, timeout) if blocking else self._l.acquire(False)

    def release(self):
        self._l.release()

    def locked(self):
        return self._l.locked()

    def __enter__(self):
        self.acquire()
        return self

    def __exit__(self, *a):
        self._l.release()
        return False


def run_memlog_queued(S, threads, chooser):
    """Like run_memlog, but every lock created by eliot/_output.py while the case runs is a GatedLock."""
    import eliot._output as O

    saved = O.Lock
    O.Lock = lambda: GatedLock(S)
    try:
        return run_memlog(S, threads, chooser)
    finally:
        O.Lock = saved


def queued_scheduler(timeout=30.0):
    # no LockLines rule here: the locks gate themselves; only the logger's own methods are gated (not the validation helpers)
    return sched.Scheduler([OUTPUT], [], timeout=timeout,
                           only_funcs={"exclusively_f", "write", "reset", "validate", "serialize", "flushTracebacks", "__init__"})


def run_memlog_lockqueue(ctx, srng):
    ids = itertools.count(900)

    def W():
        return dict(meth="write", cid=next(ids), tag=0, fails=False)

    def C(meth):
        return dict(meth=meth, cid=next(ids), tag=0, fails=False)

    progs = [[[C("reset")], [W()], [W()]],
             [[W(), C("reset")], [W()], [W()]],
             [[C("reset")], [W()], [C("serialize")]],
             [[C("reset"), W()], [W(), W()]]]
    S = queued_scheduler()
    total = Budget(ctx.budget(25, 240))
    nviol = 0
    done = nsched = 0
    for pi, threads in enumerate(progs):
        if (total.left() <= 0 and done >= MIN_PROGRAMS["memlog-queued"]) or nviol:
            break
        done += 1
        budget = Budget(max(1.0, total.left() / (len(progs) - pi)))
        for how, (res, obs, final) in schedules(ctx, lambda ch: run_memlog_queued(S, threads, ch), srng, ctx.budget(2, 3), ctx.budget(1500, 20000),
                                                ctx.budget(30, 500), budget, min_per_program("memlog-queued")):
            nsched += 1
            case = dict(kind="memlog-queued", program=threads, schedule=res.schedule)
            ctx.case(case, nontrivial=any(res.blocked), tags=["memlog-queued:threads:%d" % len(threads), "memlog-queued:sched:" + how,
                                                              "memlog-queued:preemptions:%d" % min(res.preemptions, 4)])
            bad = oracle_memlog(threads, res, obs, final)
            if bad:
                nviol += 1
                ctx.violation(bad[0], dict(case, observed=dict(final=final, obs=obs), also=bad[1:4]), key=None)
                break
    explored(ctx, "memlog-queued", done, nsched)


# ---- two MemoryLoggers: application code run under one logger's lock writes to another logger --------------------

class NestSer(Ser):
    """A serializer whose validation hook logs to ANOTHER MemoryLogger (an application's serializer / validator / JSON default
    that calls instrumented code): it runs while the outer logger's lock is held."""

    def __init__(self, cid, other, inner):
        Ser.__init__(self, cid, False)
        self.other, self.inner = other, inner

    def validate(self, d):
        for c in self.inner:
            self.other.write({"message_type": "m", "cid": c["cid"]}, Ser(c["cid"], False))


def run_memlog_nested_once(S, plan, chooser):
    """plan = (outer, others): thread 0 writes the `outer` messages to logger A, each with a serializer that writes the listed
    inner messages to logger B; threads 1.. write their messages straight to B.  Returns B's final state in the shape
    `oracle_memlog` judges, with B's calls per thread (thread 0: its inner writes)."""
    from eliot import MemoryLogger
    from eliot._traceback import TRACEBACK_MESSAGE

    outer, others = plan
    A, B = MemoryLogger(), MemoryLogger()
    obs = {}

    def w0():
        for c in outer:
            try:
                A.write({"message_type": "m", "cid": c["cid"]}, NestSer(c["cid"], B, c["inner"]))
                for i in c["inner"]:
                    obs[i["cid"]] = {"ok": True}
            except InfraError:
                raise
            except BaseException as e:  # noqa - observation
                for i in c["inner"]:
                    obs[i["cid"]] = {"raised": type(e).__name__}

    def wk(calls):
        def body():
            for c in calls:
                try:
                    obs[c["cid"]] = do_call(B, c)
                except InfraError:
                    raise
                except BaseException as e:  # noqa - observation
                    obs[c["cid"]] = {"raised": type(e).__name__}
        return body

    res = S.run([w0] + [wk(calls) for calls in others], chooser)
    for e in res.errors.values():
        if isinstance(e, InfraError):
            raise e
    tbser = TRACEBACK_MESSAGE._serializer
    finals = []
    for lg in (B, A):
        try:
            finals.append(dict(
                messages=[m.get("cid") if isinstance(m, dict) else None for m in lg.messages],
                types=[m.get("message_type") if isinstance(m, dict) else None for m in lg.messages],
                serializers=["tb" if s_ is tbser else getattr(s_, "cid", None) for s_ in lg.serializers],
                tracebacks=[m.get("cid") if isinstance(m, dict) else None for m in lg.tracebackMessages],
                tb_identical=all(any(t is m for m in lg.messages) for t in lg.tracebackMessages),
                failed=[_failed_cid(x) for x in lg._failed_validations]))
        except Exception as e:  # noqa - a mutated logger may not even have the lists
            finals.append({"raised": type(e).__name__})
    threadsB = [[dict(meth="write", cid=i["cid"], tag=0, fails=False) for c in outer for i in c["inner"]]] + [list(calls) for calls in others]
    return res, obs, finals[0], finals[1], threadsB


def run_memlog_nested(ctx, srng):
    ids = itertools.count(1500)

    def W():
        return dict(meth="write", cid=next(ids), tag=0, fails=False)

    def O(n):
        return dict(cid=next(ids), inner=[W() for _ in range(n)])

    plans = [([O(1)], [[W()]]),
             ([O(1)], [[W(), W()]]),
             ([O(2)], [[W()], [W()]]),
             ([O(1), O(1)], [[W(), dict(meth="serialize", cid=next(ids), tag=0, fails=False)]])]
    S = make_scheduler()
    total = Budget(ctx.budget(15, 200))
    nviol = done = nsched = 0
    for pi, plan in enumerate(plans):
        if (total.left() <= 0 and done >= MIN_PROGRAMS["memlog-nested"]) or nviol:
            break
        done += 1
        budget = Budget(max(1.0, total.left() / (len(plans) - pi)))
        for how, (res, obs, finalB, finalA, threadsB) in schedules(ctx, lambda ch: run_memlog_nested_once(S, plan, ch), srng, ctx.budget(2, 3),
                                                                  ctx.budget(600, 6000), ctx.budget(20, 300), budget, min_per_program("memlog-nested")):
            nsched += 1
            case = dict(kind="memlog-nested", plan=plan, schedule=res.schedule)
            ctx.case(case, nontrivial=any(res.blocked), tags=["memlog-nested:threads:%d" % (1 + len(plan[1])), "memlog-nested:sched:" + how,
                                                              "memlog-nested:preemptions:%d" % min(res.preemptions, 4)])
            bad = oracle_memlog(threadsB, res, obs, finalB)
            if "raised" not in finalA and finalA["messages"] != finalA["serializers"]:
                bad.append("outer logger: messages %s paired with serializers %s" % (finalA["messages"], finalA["serializers"]))
            if bad:
                nviol += 1
                ctx.violation(bad[0], dict(case, observed=dict(final=finalB, outer=finalA, obs=obs), also=bad[1:4]), key=None)
                break
    explored(ctx, "memlog-nested", done, nsched)


# ---- oracles (model-free) -------------------------------------------------------------------------

def state_oracle(res):
    """Logging must not alter the application: interpreter-wide settings (warning filters, excepthooks, std streams,
    root logging handlers) are the same after the scheduled run as before it."""
    return ["logging changed process-wide state: %s" % c for c in getattr(res, "state_changes", [])]


def acquisition_order(res, threads):
    """cids in the order in which their calls acquired the lock, or None if the calls did not all
    pass through `with self._lock` exactly once (then only the weak oracles apply)."""
    count = [0] * len(threads)
    order = []
    for s in res.trace:
        if s.note == "acquire" and s.tid < len(threads):
            k = count[s.tid]
            if k >= len(threads[s.tid]):
                return None
            order.append(threads[s.tid][k])
            count[s.tid] += 1
    if count != [len(t) for t in threads]:
        return None
    return order


def seq_spec(order):
    tagof, msgs, tb = {}, [], []
    for c in order:
        if c["meth"] == "write":
            tagof[c["cid"]] = c["tag"]
            msgs.append(c["cid"])
            if c["tag"]:
                tb.append(c["cid"])
        elif c["meth"] == "reset":
            msgs, tb = [], []
        elif c["meth"] == "flushTracebacks":
            tb = [x for x in tb if not (c["tag"] == 0 or tagof[x] == c["tag"])]
    return msgs, tb


def oracle_memlog(threads, res, obs, final):
    """Returns a list of failure descriptions (empty = property holds on this run)."""
    bad = []
    calls = [c for t in threads for c in t]
    bycid = {c["cid"]: c for c in calls}
    bad += state_oracle(res)
    if res.deadlock:
        return bad + ["threads deadlocked at %s" % sorted(res.deadlock.items())]
    if "raised" in final:
        return ["logger state unreadable: %s" % final["raised"]]
    msgs, sers, tbs = final["messages"], final["serializers"], final["tracebacks"]
    for c in calls:
        o = obs.get(c["cid"])
        if o is None:
            bad.append("call %d never returned" % c["cid"])
        elif "raised" in o and not (c["meth"] == "validate" and o["raised"] in ("ValidationError", "TypeError")):
            bad.append("%s (call %d) raised %s" % (c["meth"], c["cid"], o["raised"]))
    if len(msgs) != len(sers):
        bad.append("len(messages)=%d != len(serializers)=%d" % (len(msgs), len(sers)))
    for i, (m, t, s) in enumerate(zip(msgs, final["types"], sers)):
        want = "tb" if t == TB_TYPE else m
        if s != want:
            bad.append("messages[%d] is from call %s but serializers[%d] is from call %s" % (i, m, i, s))
            break
    written = [c["cid"] for c in calls if c["meth"] == "write"]
    if len(set(msgs)) != len(msgs) or any(m not in written for m in msgs):
        bad.append("messages contains duplicates or foreign entries: %s" % msgs)
    has_reset = any(c["meth"] == "reset" for c in calls)
    has_flush = any(c["meth"] == "flushTracebacks" for c in calls)
    if not has_reset and sorted(msgs) != sorted(written):
        bad.append("written messages %s but recorded %s" % (sorted(written), sorted(msgs)))
    for t in threads:  # per-thread order is kept
        mine = [c["cid"] for c in t if c["meth"] == "write"]
        got = [m for m in msgs if m in mine]
        if got != [m for m in mine if m in got]:
            bad.append("order of one thread's messages changed: %s" % got)
    tb_in_msgs = [m for m, t in zip(msgs, final["types"]) if t == TB_TYPE]
    it = iter(tb_in_msgs)
    if not all(x in it for x in tbs) or not final["tb_identical"]:
        bad.append("tracebackMessages %s is not a sub-sequence of the traceback-typed messages %s" % (tbs, tb_in_msgs))
    elif not has_flush and tbs != tb_in_msgs:
        bad.append("tracebackMessages %s != traceback-typed messages %s (nothing was flushed)" % (tbs, tb_in_msgs))
    # readers see paired lists
    for c in calls:
        o = obs.get(c["cid"]) or {}
        if c["meth"] == "serialize" and "ret" in o:
            if any(a != b for a, b in o["ret"]):
                bad.append("serialize() (call %d) paired a message with another call's serializer: %s" % (c["cid"], o["ret"]))
        if c["meth"] == "flushTracebacks" and "ret" in o:
            if any(bycid.get(x, {}).get("tag", 0) == 0 or (c["tag"] and bycid[x]["tag"] != c["tag"]) for x in o["ret"]):
                bad.append("flush_tracebacks (call %d, class %d) returned %s" % (c["cid"], c["tag"], o["ret"]))
    # strong oracle: sequential specification in the observed lock-acquisition order
    order = acquisition_order(res, threads)
    if order is not None and not bad:
        # validate() must raise exactly when a message that fails validation has been written since the last reset
        failing = []
        for c in order:
            if c["meth"] == "write" and c["fails"]:
                failing.append(c["cid"])
            elif c["meth"] == "reset":
                failing = []
            elif c["meth"] == "validate":
                o = obs.get(c["cid"]) or {}
                raised = o.get("raised")
                if failing and raised not in ("ValidationError", "TypeError"):
                    bad.append("validate() (call %d) returned normally although the failing messages %s had been written before it (lock-acquisition order %s)"
                               % (c["cid"], failing, [x["cid"] for x in order]))
                elif not failing and raised:
                    bad.append("validate() (call %d) raised %s although no failing message had been written since the last reset (lock-acquisition order %s)"
                               % (c["cid"], raised, [x["cid"] for x in order]))
    if order is not None and not bad:
        em, et = seq_spec(order)
        if msgs != em or tbs != et:
            bad.append("final lists messages=%s tracebacks=%s differ from the sequential execution in lock-acquisition order %s: messages=%s tracebacks=%s"
                       % (msgs, tbs, [c["cid"] for c in order], em, et))
    return bad


# ---- mapping an executed schedule to model steps --------------------------------------------------

def model_schedule(sk, threads, res):
    """Map the executed real schedule to a schedule of the MemLog model (one entry per model step).
    Returns (schedule, exact) - `exact` False when the line mapping did not add up and the call
    order was used instead."""
    meths = sk["methods"]
    n = len(threads)
    out = []
    nxt = [0] * n  # index of the next call to open
    cur = [None] * n  # open call: dict(body, ptr, locked, started, emitted, need)
    ok = [True]

    def open_call(t):
        if nxt[t] >= len(threads[t]):
            return
        c = threads[t][nxt[t]]
        nxt[t] += 1
        m = meths.get(c["meth"])
        if m is None:
            ok[0] = False
            return
        body = m["accesses"]
        shared = [a for a in body if a[0] != "call"]
        st = dict(meth=c["meth"], body=body, ptr=0, locked=m["locked"], emitted=0, started=False, closed=False)
        if m["locked"]:
            st["need"] = len(body) + 2
        elif not shared:
            st["need"] = 1
        else:
            st["need"] = len(body) + 2
        cur[t] = st
        if not m["locked"]:
            emit(t, 1)
            st["started"] = True
            if not shared:
                st["closed"] = True

    def emit(t, k):
        out.extend([t] * k)
        if cur[t] is not None:
            cur[t]["emitted"] += k

    def close(t):
        st = cur[t]
        if st is None or st["closed"]:
            return
        if not st["started"]:
            ok[0] = False
            return
        emit(t, len(st["body"]) - st["ptr"] + 1)
        st["ptr"] = len(st["body"])
        st["closed"] = True

    def finish(t):
        st = cur[t]
        if st is not None:
            if not st["closed"]:
                close(t)
            if st["emitted"] != st["need"]:
                ok[0] = False
        cur[t] = None

    top = {}  # code name -> True for methods that programs call
    for t in threads:
        for c in t:
            top[c["meth"]] = True
    calls_at = {}
    for idx, tid, func in res.calls:
        calls_at.setdefault(idx, []).append((tid, func))
    for i in range(len(res.trace) + 1):
        for tid, func in calls_at.get(i, []):
            if tid >= n:
                continue
            expect = threads[tid][nxt[tid]]["meth"] if nxt[tid] < len(threads[tid]) else None
            st = cur[tid]
            inside = st is not None and not st["closed"] and st["locked"] and st["started"]
            if func == "exclusively_f" and expect is not None and meths.get(expect, {}).get("decorated") and not inside:
                finish(tid)
                open_call(tid)
            elif func == expect and not meths.get(expect, {}).get("decorated") and not inside and (st is None or st["closed"] or not st["locked"]):
                finish(tid)
                open_call(tid)
        if i == len(res.trace):
            break
        s = res.trace[i]
        t = s.tid
        if t >= n:
            continue
        st = cur[t]
        if st is None:
            continue
        if s.note == "acquire" and st["locked"] and not st["started"]:
            emit(t, 1)
            st["started"] = True
        elif s.note == "release" and st["locked"] and st["started"] and not st["closed"]:
            close(t)
        elif st["started"] and not st["closed"] and s.func == st["meth"]:
            body, ptr = st["body"], st["ptr"]
            j = next((k for k in range(ptr, len(body)) if body[k][3] == s.line), None)
            if j is not None:
                while j + 1 < len(body) and body[j + 1][3] == s.line:
                    j += 1
                emit(t, j - ptr + 1)
                st["ptr"] = j + 1
    for t in range(n):
        finish(t)
        if nxt[t] != len(threads[t]):
            ok[0] = False
    if ok[0]:
        return out, True
    # fallback: whole calls, one after the other, in the observed order of their first step
    order = acquisition_order(res, threads)
    if order is None:
        order = [c for t in threads for c in t]
    tid_of = {c["cid"]: k for k, t in enumerate(threads) for c in t}
    out = []
    for c in order:
        m = meths.get(c["meth"], {"accesses": []})
        out.extend([tid_of[c["cid"]]] * (len(m["accesses"]) + 2))
    return out, False


def compare_model(ctx, case, threads, obs, final, mo, exact):
    """Model prediction vs. real observation; differences are broken ties, never verdicts."""
    name = "correspondence:memlog-model"
    if "bad" in mo:
        ctx.broken_tie(name, "model driver rejected the case: %s" % mo["bad"], case)
        return False
    if "raised" in final:
        ctx.broken_tie(name, "real logger state unreadable", case)
        return False
    tag = {c["cid"]: c["tag"] for t in threads for c in t}
    real = dict(messages=final["messages"], serializers=final["serializers"], tracebacks=final["tracebacks"], failed=final["failed"])
    model = dict(messages=mo["messages"], serializers=["tb" if tag.get(x) else x for x in mo["serializers"]],
                 tracebacks=mo["tracebacks"], failed=mo["failed"])
    if not mo["done"] or mo["lock"] is not None:
        ctx.broken_tie(name, "model did not finish on the mapped schedule (exact=%s): done=%s lock=%s" % (exact, mo["done"], mo["lock"]), case)
        return False
    if real != model:
        ctx.broken_tie(name, "final lists differ (exact mapping=%s)" % exact, dict(case, real=real, model=model))
        return False
    # what readers saw
    reads = {}
    for cid, f, seen in mo["reads"]:
        reads.setdefault(cid, {})[f] = seen
    for t in threads:
        for c in t:
            o = obs.get(c["cid"]) or {}
            if "ret" not in o:
                continue
            if c["meth"] == "serialize":
                r = reads.get(c["cid"], {})
                want = [a for a, _ in zip(r.get("messages", []), r.get("serializers", []))]
                if [a for a, _ in o["ret"]] != want:
                    ctx.broken_tie(name, "serialize() saw other messages than the model's reader", dict(case, real=o["ret"], model=want))
                    return False
            if c["meth"] == "flushTracebacks":
                seen = reads.get(c["cid"], {}).get("tracebacks", [])
                want = [x for x in seen if c["tag"] == 0 or tag.get(x) == c["tag"]]
                if o["ret"] != want:
                    ctx.broken_tie(name, "flush_tracebacks returned other messages than the model's reader saw", dict(case, real=o["ret"], model=want))
                    return False
    return True


# ---- real side: FileDestination --------------------------------------------------------------------

class RecFile(object):
    """Delegates to a real file; logs (thread, operation) in call order."""

    def __init__(self, f, S):
        self._f, self._S, self.events = f, S, []

    def write(self, data):
        r = self._f.write(data)
        if len(data):
            self.events.append((self._S.current()[0], "write", data))
        return r

    def flush(self):
        self.events.append((self._S.current()[0], "flush", None))
        return self._f.flush()

    def writable(self):
        return True


def file_messages(nthreads, per, uni):
    out = []
    for t in range(nthreads):
        out.append([{"message_type": "m", "thread": t, "n": k, "text": ("line-%d-%d " % (t, k)) + ("é中" if uni and (t + k) % 2 else "x") * (3 + t)}
                    for k in range(per[t])])
    return out


def run_file(S, case, chooser):
    from eliot._output import FileDestination, Destinations, Logger

    binary, via = case["mode"] == "binary", case["via"] == "logger"
    msgs = file_messages(case["threads"], case["per"], case["unicode"])
    fd, path = tempfile.mkstemp(prefix="c16-", dir=case.get("tmp"))
    os.close(fd)
    try:
        f = open(path, "wb") if binary else open(path, "w", encoding="utf-8")
        rec = RecFile(f, S)
        dest = FileDestination(file=rec)
        rec.events[:] = []
        errors = []
        unacked = []
        unflushed = []
        if via:
            D = Destinations()
            D.add(dest)

            class L(Logger):
                _destinations = D

            lg = L()
            send = lambda m: lg.write(m)  # noqa
        else:
            send = dest

        def worker(ms):
            def body():
                for m in ms:
                    try:
                        send(dict(m))
                    except BaseException as e:  # noqa - observation
                        errors.append(type(e).__name__)
                        continue
                    # the logging call has returned: its line must have been written by now
                    mark = ('"thread":%d,"n":%d,' % (m["thread"], m["n"]))
                    written = b"".join(d if isinstance(d, bytes) else d.encode("utf-8") for _, k, d in rec.events if k == "write").decode("utf-8", "replace")
                    if mark.replace(" ", "") not in written.replace(" ", ""):
                        unacked.append([m["thread"], m["n"]])
                    else:
                        # ... and handed on by a flush (this thread's or another's) that came after the write: a returned
                        # logging call means the line has left the process (C11)
                        evs = list(rec.events)
                        wi = [i for i, (_, k, d) in enumerate(evs) if k == "write" and mark.replace(" ", "") in
                              (d if isinstance(d, str) else d.decode("utf-8", "replace")).replace(" ", "")]
                        if wi and not any(k == "flush" for _, k, _d in evs[wi[-1] + 1:]):
                            unflushed.append([m["thread"], m["n"]])
            return body

        res = S.run([worker(ms) for ms in msgs], chooser)
        res.unacked = unacked
        res.unflushed = unflushed
        f.close()
        raw = open(path, "rb").read()
    finally:
        try:
            os.unlink(path)
        except OSError:
            pass
    return res, msgs, rec.events, raw, errors


def oracle_file(case, res, msgs, raw, errors):
    bad = state_oracle(res)
    if res.deadlock:
        return bad + ["threads deadlocked"]
    if errors:
        bad.append("destination raised %s" % errors)
    if getattr(res, "unacked", None):
        bad.append("logging calls returned although their lines were not in the file yet (thread, n): %s - acknowledged means written" % res.unacked)
    if getattr(res, "unflushed", None):
        bad.append("logging calls returned although no flush had followed the write of their lines (thread, n): %s - a crash now loses an acknowledged message" % res.unflushed)
    try:
        text = raw.decode("utf-8")
    except UnicodeDecodeError:
        return bad + ["file is not valid UTF-8 (torn multi-byte sequence)"]
    lines = text.split("\n")
    if lines[-1] != "":
        bad.append("file does not end with a line break")
    lines = lines[:-1]
    got = []
    for l in lines:
        try:
            d = json.loads(l)
        except ValueError:
            bad.append("torn or merged line: %r" % l[:80])
            continue
        got.append(d)
    want = [m for ms in msgs for m in ms]
    key = lambda d: json.dumps(d, sort_keys=True)  # noqa
    if sorted(map(key, got)) != sorted(map(key, want)):
        bad.append("lines in the file (%d) are not the multiset of written messages (%d)" % (len(got), len(want)))
    for t, ms in enumerate(msgs):
        mine = [d for d in got if isinstance(d, dict) and d.get("thread") == t]
        if [d.get("n") for d in mine] != [m["n"] for m in ms][: len(mine)] and not bad:
            bad.append("thread %d's lines are out of order" % t)
    return bad


OPMAP = {".write .dumpsPlusLinebreak": "writeWhole", ".write .dumps": "writeBody", ".write .linebreak": "writeBreak", ".flush": "flush"}


def file_ops(ctx):
    rep = (ctx.extra.get("extractor") or {}).get("FileDest.lean")
    if rep is None:
        try:
            from ..extractors import e2_file_destination
            rep = e2_file_destination.extract(REPO)[2]
        except Exception:
            return None
    ops = [OPMAP.get(s) for s in rep.get("shape", [])]
    return None if (not ops or None in ops) else ops


def file_model_case(case, msgs, events, ops, binary):
    """Model input: per-thread payloads (from a sequential reference rendering) and the schedule that
    performs the file operations in the observed order."""
    from eliot._output import FileDestination

    ref = io.BytesIO() if binary else io.StringIO()
    d = FileDestination(file=ref)
    prog = []
    for ms in msgs:
        th = []
        for m in ms:
            ref.seek(0)
            ref.truncate()
            d(dict(m))
            v = ref.getvalue()
            v = v[:-1] if v[-1:] in (b"\n", "\n") else v
            th.append(list(v) if binary else [ord(ch) for ch in v])
        prog.append(th)
    pos = [None] * len(msgs)  # index into ops of the current call
    schedule = []
    exact = True
    for tid, kind, _ in events:
        if tid is None or tid >= len(msgs):
            exact = False
            continue
        if pos[tid] is None or pos[tid] >= len(ops):
            if pos[tid] is not None:
                schedule.append(tid)  # finish the previous call
            schedule.append(tid)  # start
            pos[tid] = 0
        want = "flush" if kind == "flush" else "write"
        have = "flush" if ops[pos[tid]] == "flush" else "write"
        if want != have:
            exact = False
        schedule.append(tid)
        pos[tid] += 1
    for tid in range(len(msgs)):
        if pos[tid] is not None:
            schedule.append(tid)
    return dict(kind="file", ops=ops, prog=prog, sched=schedule), exact


# ---- driver of one family of runs ------------------------------------------------------------------

# Minimum exploration per family: explored whatever the wall clock says (the time budgets only cut what lies beyond it), so
# that a loaded machine makes the check slower, not weaker.  The framework's global time limit remains the only hard stop.
MIN_PROGRAMS = {"memlog": 12, "file": 6, "reports": 2, "serfail": 4, "memlog-queued": 4, "memlog-nested": 4}
MIN_SCHEDULES = {"memlog": 200, "file": 300, "reports": 100, "serfail": 200, "memlog-queued": 300, "memlog-nested": 2400}


def min_per_program(family):
    return -(-MIN_SCHEDULES[family] // MIN_PROGRAMS[family])


def explored(ctx, family, programs, schedules):
    ctx.count("explored:%s:programs" % family, n=programs)
    ctx.count("explored:%s:schedules" % family, n=schedules)


class Budget(object):
    def __init__(self, seconds):
        self.end = time.time() + seconds * sched.budget_scale()

    def left(self):
        return self.end - time.time()


def schedules(ctx, runner, rng, bound, dfs_limit, nrandom, budget, min_sched=0):
    """Yield results of DFS-enumerated then random schedules until limits / budget are hit; the budget does not cut
    before `min_sched` schedules of this program have been run."""
    n = 0
    for res in sched.explore(runner, bound=bound, limit=dfs_limit, result=lambda r: r[0]):
        n += 1
        yield "dfs", res
        if budget.left() <= 0 and n >= min_sched:
            ctx.count("budget:cut")
            return
    for _ in range(nrandom):
        if budget.left() <= 0 and n >= min_sched:
            ctx.count("budget:cut")
            return
        n += 1
        yield "random", runner(sched.RandomChooser(rng, stay=rng.choice([0.0, 0.5, 0.8])))


def interleaved(res, nworkers):
    """calls of >= 2 threads interleave: the sequence of acquiring threads is not sorted-by-blocks"""
    seq = [s.tid for s in res.trace if s.note == "acquire" and s.tid < nworkers]
    blocks = [k for k, _ in itertools.groupby(seq)]
    return len(blocks) > len(set(blocks))


def run(ctx):
    sk = e1_memory_logger.skeleton(REPO)
    broken = any(n in ctx.broken for n in GENERATED_OBLIGATIONS) or bool(sk["problems"]) or not all(
        m["locked"] or not [a for a in m["accesses"] if a[0] != "call"] for m in sk["methods"].values())
    if broken:
        ctx.notes.append("lock-discipline obligations are broken: failing-input search on the real code with the enlarged budget")
    rng = ctx.rng("programs")
    srng = ctx.rng("schedules")
    nprog = ctx.budget(40, 100)
    bound = ctx.budget(2, 3)
    dfs_limit = ctx.budget(200, 1500) * (3 if broken else 1)
    nrandom = ctx.budget(15, 125) * (3 if broken else 1)
    total = Budget(ctx.budget(45, 700))
    S = make_scheduler()
    model_in, model_ctx = [], []
    nviol = 0
    progs = gen_programs(rng, nprog, not ctx.quick)
    done = nsched = 0
    for pi, (fam, threads) in enumerate(progs):
        if (total.left() <= 0 and done >= MIN_PROGRAMS["memlog"]) or nviol >= 3:
            break
        done += 1
        per = Budget(max(1.0, total.left() / max(1, (len(progs) - pi)) * 2))
        found = False
        creator = 0 if pi % 3 == 0 else None  # in a third of the programs the first thread builds the logger itself
        for how, (res, obs, final) in schedules(ctx, lambda ch: run_memlog(S, threads, ch, creator), srng, bound, dfs_limit, nrandom, per, min_per_program("memlog")):
            nsched += 1
            case = dict(kind="memlog", program=threads, schedule=res.schedule, creator=creator)
            nontriv = interleaved(res, len(threads)) and any(res.blocked)
            ctx.case(case, nontrivial=nontriv, tags=["memlog:family:" + fam, "memlog:threads:%d" % len(threads), "memlog:sched:" + how,
                                                    "memlog:preemptions:%d" % min(res.preemptions, 4), "memlog:built-by:" + ("harness" if creator is None else "worker")])
            ctx.count("memlog:steps", n=len(res.trace))
            bad = oracle_memlog(threads, res, obs, final)
            if bad:
                nviol += 1
                ctx.violation(bad[0], dict(case, observed=dict(final=final, obs=obs), also=bad[1:4]), key=None)
                found = True
            msched, exact = model_schedule(sk, threads, res)
            ctx.count("memlog:mapping:" + ("exact" if exact else "call-order"))
            model_in.append(dict(kind="memlog", prog=threads, sched=msched))
            model_ctx.append((case, threads, obs, final, exact))
            if found:
                break
    explored(ctx, "memlog", done, nsched)
    # the model on the same schedules
    if model_in:
        answers = lean_driver("Driver/C16.lean", model_in)
        agree = 0
        for (case, threads, obs, final, exact), mo in zip(model_ctx, answers):
            if compare_model(ctx, case, threads, obs, final, mo, exact):
                ctx.traces += 1
                agree += 1
            elif len(ctx.extra.get("disagreements", [])) > 20:
                break
        if "correspondence:memlog-model" not in ctx.broken:
            ctx.obligation("correspondence:memlog-model", "correspondence", True, "%d executed schedules: model predicts the same final lists and reader observations" % agree)
    run_files(ctx, S, srng, broken)
    run_memlog_lockqueue(ctx, srng)
    run_memlog_nested(ctx, srng)
    run_reports(ctx, srng)
    run_serfail(ctx, srng)


def run_files(ctx, S, srng, broken):
    ops = file_ops(ctx)
    name = "correspondence:file-model"
    if ops is None:
        ctx.broken_tie(name, "skeleton E2 has a shape the file model cannot express", None)
    rng = ctx.rng("files")
    cases = []
    for mode in ("binary", "text"):
        cases.append(dict(mode=mode, via="direct", threads=2, per=[1, 1], unicode=False))
        cases.append(dict(mode=mode, via="direct", threads=2, per=[2, 1], unicode=True))
        cases.append(dict(mode=mode, via="direct", threads=3, per=[1, 1, 1], unicode=True))
        cases.append(dict(mode=mode, via="logger", threads=2, per=[1, 1], unicode=True))
        cases.append(dict(mode=mode, via="direct", threads=4, per=[1, 1, 1, 1], unicode=False))
    if not ctx.quick:
        for _ in range(10):
            n = rng.choice([2, 3, 4])
            cases.append(dict(mode=rng.choice(["binary", "text"]), via=rng.choice(["direct", "logger"]), threads=n,
                              per=[rng.randint(1, 2) for _ in range(n)], unicode=rng.random() < 0.5))
    total = Budget(ctx.budget(25, 300))
    bound = ctx.budget(2, 3)
    dfs_limit = ctx.budget(120, 1500)
    nrandom = ctx.budget(5, 400)
    tmp = tempfile.mkdtemp(prefix="c16-files-", dir="/dev/shm" if os.path.isdir("/dev/shm") else None)
    model_in, model_ctx = [], []
    nviol = 0
    try:
        done = nsched = 0
        for ci, fc in enumerate(cases):
            if (total.left() <= 0 and done >= MIN_PROGRAMS["file"]) or nviol >= 2:
                break
            done += 1
            fc = dict(fc, tmp=tmp)
            per = Budget(max(1.0, total.left() / (len(cases) - ci) * 2))
            for how, (res, msgs, events, raw, errors) in schedules(ctx, lambda ch: run_file(S, fc, ch), srng, bound, dfs_limit, nrandom, per, min_per_program("file")):
                nsched += 1
                case = dict(kind="file", file={k: v for k, v in fc.items() if k != "tmp"}, schedule=res.schedule)
                order = [e[0] for e in events if e[1] == "write"]
                blocks = [k for k, _ in itertools.groupby([e[0] for e in events])]
                ctx.case(case, nontrivial=len(blocks) > len(set(blocks)), tags=["file:mode:" + fc["mode"], "file:via:" + fc["via"], "file:threads:%d" % fc["threads"],
                                                                                 "file:sched:" + how, "file:preemptions:%d" % min(res.preemptions, 4)])
                bad = oracle_file(fc, res, msgs, raw, errors)
                if bad:
                    nviol += 1
                    ctx.violation(bad[0], dict(case, content=raw.decode("utf-8", "replace")[:2000], also=bad[1:4]), key=None)
                if ops is not None:
                    mi, exact = file_model_case(fc, msgs, events, ops, fc["mode"] == "binary")
                    model_in.append(mi)
                    model_ctx.append((case, raw, fc["mode"] == "binary", exact, order))
                if bad:
                    break
    finally:
        try:
            os.rmdir(tmp)
        except OSError:
            pass
    explored(ctx, "file", done, nsched)
    if model_in:
        answers = lean_driver("Driver/C16.lean", model_in)
        agree = 0
        for (case, raw, binary, exact, order), mo in zip(model_ctx, answers):
            if "bad" in mo:
                ctx.broken_tie(name, "model driver rejected the case: %s" % mo["bad"], case)
                break
            real = list(raw) if binary else [ord(ch) for ch in raw.decode("utf-8", "replace")]
            whole = ops.count("writeWhole") == 1 and all(o in ("writeWhole", "flush") for o in ops)
            if mo["content"] != real or not mo["done"] or not exact or (whole and [w[0] for w in mo["log"]] != order):
                ctx.broken_tie(name, "file model and real file differ (exact mapping=%s, model done=%s)" % (exact, mo["done"]),
                               dict(case, real=raw.decode("utf-8", "replace")[:500], model="".join(chr(c) for c in mo["content"])[:500] if not binary else bytes(mo["content"]).decode("utf-8", "replace")[:500]))
                if len(ctx.extra.get("disagreements", [])) > 20:
                    break
            else:
                ctx.traces += 1
                agree += 1
        if name not in ctx.broken:
            ctx.obligation(name, "correspondence", True, "%d executed schedules: model predicts the same file content and write order" % agree)


# ---- real side: destination-failure reports from several threads ---------------------------------

def report_scheduler(timeout=30.0):
    import ast

    names = {"<lambda>"}
    tree = ast.parse(open(OUTPUT).read())
    for c in tree.body:
        if isinstance(c, ast.ClassDef) and c.name in ("BufferingDestination", "Destinations"):
            names |= {f.name for f in c.body if isinstance(f, ast.FunctionDef)}
    return sched.Scheduler([OUTPUT], [sched.LockLines(OUTPUT)], timeout=timeout, only_funcs=names - {"__init__"})


def run_reports_once(S, per, chooser):
    """`per[t]` ordinary messages are logged by thread t through the default Logger machinery to two
    destinations: `flaky` raises on every ordinary message, `healthy` records everything."""
    import eliot._output as O

    D = O.Destinations()
    saved = O.Logger._destinations
    O.Logger._destinations = D
    seen, offered = [], []

    def flaky(m):
        offered.append((m.get("message_type"), m.get("n")))
        if m.get("message_type") == "m":
            raise IOError("flaky destination")

    def healthy(m):
        seen.append(dict(message_type=m.get("message_type"), n=m.get("n"), about=str(m.get("message"))))

    try:
        D.add(flaky, healthy)
        errors = []

        def worker(t, k):
            def body():
                for j in range(k):
                    try:
                        O.Logger().write({"message_type": "m", "n": 10 * t + j})
                    except BaseException as e:  # noqa - observation
                        errors.append(type(e).__name__)
            return body

        res = S.run([worker(t, k) for t, k in enumerate(per)], chooser)
    finally:
        O.Logger._destinations = saved
    return res, dict(seen=seen, offered=offered, errors=errors)


def oracle_reports(per, res, obs):
    bad = state_oracle(res)
    if res.deadlock:
        return bad + ["threads deadlocked"]
    ids = [10 * t + j for t, k in enumerate(per) for j in range(k)]
    if obs["errors"]:
        bad.append("logging raised into the application: %s" % obs["errors"])
    ordinary = [m["n"] for m in obs["seen"] if m["message_type"] == "m"]
    reports = [m for m in obs["seen"] if m["message_type"] == "eliot:destination_failure"]
    if sorted(ordinary) != sorted(ids):
        bad.append("healthy destination received ordinary messages %s, logged %s" % (sorted(ordinary), sorted(ids)))
    off = [n for t, n in obs["offered"] if t == "m"]
    if sorted(off) != sorted(ids):
        bad.append("failing destination was offered ordinary messages %s, logged %s" % (sorted(off), sorted(ids)))
    about = []
    for r in reports:
        mm = re.search(r"'n'\W+(\d+)", r["about"] or "")
        about.append(int(mm.group(1)) if mm else None)
    if len(reports) != len(ids) or sorted(x for x in about if x is not None) != sorted(ids):
        bad.append("%d deliveries failed (messages %s) but %d eliot:destination_failure reports were delivered (about %s)"
                   % (len(ids), sorted(ids), len(reports), about))
    nrep_offered = sum(1 for t, _ in obs["offered"] if t == "eliot:destination_failure")
    if nrep_offered != len(reports):
        bad.append("reports offered to the two destinations differ: %d vs %d" % (nrep_offered, len(reports)))
    return bad


def run_reports(ctx, srng):
    S = report_scheduler()
    total = Budget(ctx.budget(20, 200))
    nviol = 0
    done = nsched = 0
    for pi, per in enumerate([[1, 1], [2, 1]] + ([] if ctx.quick else [[1, 1, 1], [2, 2]])):
        if (total.left() <= 0 and done >= MIN_PROGRAMS["reports"]) or nviol:
            break
        done += 1
        budget = Budget(max(1.0, total.left() / 2))
        for how, (res, obs) in schedules(ctx, lambda ch: run_reports_once(S, per, ch), srng, ctx.budget(2, 3), ctx.budget(250, 4000),
                                         ctx.budget(20, 300), budget, min_per_program("reports")):
            nsched += 1
            case = dict(kind="reports", per=per, schedule=res.schedule)
            ctx.case(case, nontrivial=res.preemptions >= 1, tags=["reports:threads:%d" % len(per), "reports:sched:" + how,
                                                                  "reports:preemptions:%d" % min(res.preemptions, 4)])
            bad = oracle_reports(per, res, obs)
            if bad:
                nviol += 1
                ctx.violation(bad[0], dict(case, observed=obs, also=bad[1:3]), key=None)
                break
    explored(ctx, "reports", done, nsched)


# ---- real side: serialization failures from several threads through one Logger -------------------------

VALIDATION = str(REPO / "eliot" / "_validation.py")


def serfail_scheduler(timeout=30.0):
    import ast

    names = {"<lambda>", "serialize"}  # also the typed serializer's own `serialize` in eliot/_validation.py
    tree = ast.parse(open(OUTPUT).read())
    for c in tree.body:
        if isinstance(c, ast.ClassDef) and c.name in ("BufferingDestination", "Destinations", "Logger"):
            names |= {f.name for f in c.body if isinstance(f, ast.FunctionDef)}
    return sched.Scheduler([OUTPUT, VALIDATION], [sched.LockLines(OUTPUT)], timeout=timeout, only_funcs=names - {"__init__"})


class FailingSerializer(object):
    def __init__(self, fails):
        self.fails = fails

    def serialize(self, d):
        if self.fails:
            raise ValueError("cannot serialize n=%s" % d.get("n"))
        d["serialized"] = True


def run_serfail_once(S, plan, chooser):
    """plan[t] = list of booleans: thread t writes one typed message per entry through ONE shared Logger; True = its
    serializer raises.  One healthy destination records everything."""
    import eliot._output as O

    D = O.Destinations()
    saved = O.Logger._destinations
    O.Logger._destinations = D
    seen = []
    D.add(lambda m: seen.append(dict(message_type=m.get("message_type"), n=m.get("n"), reason=str(m.get("reason")), about=str(m.get("message")),
                                     a=m.get("a"), b=m.get("b"))))
    lg = O.Logger()
    errors = []
    # one message type shared by all threads and never used before they start: its serializer is fresh in every run
    from eliot import MessageType, Field
    mt = MessageType("typed", [Field("n", lambda v: v, "id"), Field("a", lambda v: ["ser", v], "a"), Field("b", lambda v: ["ser", v], "b")], "C16 typed message")
    try:
        def worker(t, fl):
            def body():
                for j, f in enumerate(fl):
                    n = 10 * t + j
                    try:
                        if f:
                            lg.write({"message_type": "typed", "n": n}, FailingSerializer(True))
                        else:
                            lg.write({"message_type": "typed", "n": n, "a": n, "b": -n}, mt._serializer)
                    except BaseException as e:  # noqa - observation
                        errors.append(type(e).__name__)
            return body

        res = S.run([worker(t, fl) for t, fl in enumerate(plan)], chooser)
    finally:
        O.Logger._destinations = saved
    return res, dict(seen=seen, errors=errors)


def oracle_serfail(plan, res, obs):
    bad = state_oracle(res)
    if res.deadlock:
        return bad + ["threads deadlocked"]
    if obs["errors"]:
        bad.append("Logger.write raised into the application: %s" % obs["errors"])
    ok = sorted(10 * t + j for t, fl in enumerate(plan) for j, f in enumerate(fl) if not f)
    failed = sorted(10 * t + j for t, fl in enumerate(plan) for j, f in enumerate(fl) if f)
    delivered = sorted(m["n"] for m in obs["seen"] if m["message_type"] == "typed")
    if delivered != ok:
        bad.append("successfully serialized messages %s, delivered %s" % (ok, delivered))
    for m in obs["seen"]:
        if m["message_type"] == "typed" and (m["a"] != ["ser", m["n"]] or m["b"] != ["ser", -m["n"]]):
            bad.append("typed message %s was delivered with fields a=%r b=%r: every declared field must be serialized exactly once (a=['ser', n], b=['ser', -n])"
                       % (m["n"], m["a"], m["b"]))
            break
    tbs, sfs = [], []
    for m in obs["seen"]:
        if m["message_type"] == "eliot:traceback":
            mm = re.search(r"n=(\d+)", m["reason"])
            tbs.append(int(mm.group(1)) if mm else None)
        elif m["message_type"] == "eliot:serialization_failure":
            mm = re.search(r"'n'\W+(\d+)", m["about"])
            sfs.append(int(mm.group(1)) if mm else None)
    if sorted(x for x in tbs if x is not None) != failed or len(tbs) != len(failed):
        bad.append("serializers failed on messages %s but the eliot:traceback messages delivered are about %s" % (failed, tbs))
    if sorted(x for x in sfs if x is not None) != failed or len(sfs) != len(failed):
        bad.append("serializers failed on messages %s but the eliot:serialization_failure messages delivered are about %s" % (failed, sfs))
    return bad


def run_serfail(ctx, srng):
    S = serfail_scheduler()
    total = Budget(ctx.budget(20, 200))
    plans = [[[True], [True]], [[False], [False]], [[True, False], [False]], [[False, True], [True, True]]] + ([] if ctx.quick else [[[True], [True], [True]], [[True, True], [False, True], [True]]])
    nviol = 0
    done = nsched = 0
    for pi, plan in enumerate(plans):
        if (total.left() <= 0 and done >= MIN_PROGRAMS["serfail"]) or nviol:
            break
        done += 1
        budget = Budget(max(1.0, total.left() / (len(plans) - pi)))
        for how, (res, obs) in schedules(ctx, lambda ch: run_serfail_once(S, plan, ch), srng, ctx.budget(2, 3), ctx.budget(200, 4000),
                                         ctx.budget(15, 300), budget, min_per_program("serfail")):
            nsched += 1
            case = dict(kind="serfail", plan=plan, schedule=res.schedule)
            ctx.case(case, nontrivial=res.preemptions >= 1, tags=["serfail:threads:%d" % len(plan), "serfail:sched:" + how,
                                                                  "serfail:preemptions:%d" % min(res.preemptions, 4)])
            bad = oracle_serfail(plan, res, obs)
            if bad:
                nviol += 1
                ctx.violation(bad[0], dict(case, observed=obs, also=bad[1:3]), key=None)
                break
    explored(ctx, "serfail", done, nsched)


# ---- replay ------------------------------------------------------------------------------------------

def replay(ctx, obj):
    case = obj.get("case") or {}
    S = make_scheduler()
    if case.get("kind") == "memlog":
        threads = case["program"]
        res, obs, final = run_memlog(S, threads, sched.Explicit(case["schedule"]), case.get("creator"))
        print("program :", json.dumps(threads))
        print("executed:", res.lines[:400])
        print("final   :", final)
        print("returned:", obs)
        bad = oracle_memlog(threads, res, obs, final)
        if bad:
            ctx.violation(bad[0], dict(case, observed=dict(final=final, obs=obs), also=bad[1:4]))
    elif case.get("kind") == "file":
        fc = case["file"]
        res, msgs, events, raw, errors = run_file(S, fc, sched.Explicit(case["schedule"]))
        print("file case:", fc)
        print("executed :", res.lines[:400])
        print("content  :", raw.decode("utf-8", "replace"))
        bad = oracle_file(fc, res, msgs, raw, errors)
        if bad:
            ctx.violation(bad[0], dict(case, content=raw.decode("utf-8", "replace")[:2000], also=bad[1:4]))
    elif case.get("kind") == "memlog-queued":
        threads = case["program"]
        res, obs, final = run_memlog_queued(queued_scheduler(), threads, sched.Explicit(case["schedule"]))
        print("program :", json.dumps(threads))
        print("executed:", [(s.tid, s.line, s.func, s.note) for s in res.trace][:400])
        print("final   :", final)
        bad = oracle_memlog(threads, res, obs, final)
        if bad:
            ctx.violation(bad[0], dict(case, observed=dict(final=final, obs=obs), also=bad[1:4]))
    elif case.get("kind") == "memlog-nested":
        plan = (case["plan"][0], case["plan"][1])
        res, obs, finalB, finalA, threadsB = run_memlog_nested_once(S, plan, sched.Explicit(case["schedule"]))
        print("plan    :", json.dumps(plan))
        print("executed:", res.lines[:400])
        print("shared logger:", finalB, " outer logger:", finalA)
        bad = oracle_memlog(threadsB, res, obs, finalB)
        if "raised" not in finalA and finalA["messages"] != finalA["serializers"]:
            bad.append("outer logger: messages %s paired with serializers %s" % (finalA["messages"], finalA["serializers"]))
        if bad:
            ctx.violation(bad[0], dict(case, observed=dict(final=finalB, outer=finalA, obs=obs), also=bad[1:4]))
    elif case.get("kind") == "serfail":
        res, obs = run_serfail_once(serfail_scheduler(), case["plan"], sched.Explicit(case["schedule"]))
        print("executed:", [(s.tid, s.line, s.func) for s in res.trace][:600])
        print("destination saw:", obs["seen"])
        bad = oracle_serfail(case["plan"], res, obs)
        if bad:
            ctx.violation(bad[0], dict(case, observed=obs, also=bad[1:3]))
    elif case.get("kind") == "reports":
        res, obs = run_reports_once(report_scheduler(), case["per"], sched.Explicit(case["schedule"]))
        print("executed:", [(s.tid, s.line, s.func) for s in res.trace][:600])
        print("healthy destination saw:", obs["seen"])
        bad = oracle_reports(case["per"], res, obs)
        if bad:
            ctx.violation(bad[0], dict(case, observed=obs, also=bad[1:3]))
    else:
        # broken-obligation replays carry no single case: re-run the whole check
        run(ctx)
