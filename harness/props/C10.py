"""C10 - the JSON log file holds one valid, faithful line per message.

Tie (model = lean/Eliot/Model/Json.lean + File.lean through Driver/C10.lean):
  * values: `eliot.json._dumps_bytes(v, default=...)` / `_dumps_unicode` byte-exact against the model's
    `dumpsBytes` / `dumpsText` (or the error kind), for plain `json_default` and for a caller's wrapper;
  * `json.loads` (with and without `object_pairs_hook`) against the model's `decode` / `loads` on the
    real encoder output, on truncations / one-character substitutions of it and on a fixed corpus;
  * files: the exact `write()` / `flush()` sequence received by instrumented binary and text file
    objects from a real `FileDestination` (called directly, and installed with `eliot.to_file` under
    real `log_message` / `start_action` calls) against the model's `fileCalls`.
Oracles (model-free, on the real observations): per message exactly one `write` whose data ends in
exactly one newline and holds no other (nor a carriage return), then exactly one `flush`, nothing
else; every line is valid UTF-8 and `json.loads` to the logged message (JSON-native part equal, rich
types in their documented form, NaN/inf as null); a message of the documented domain is never
refused; a refused message leaves no trace in the file; text-mode content == binary-mode content.
"""
import datetime as _dt
import io
import json
import os
import pathlib
import struct
import tempfile

from ..framework import lean_driver, InfraError, REPO

PROP = "C10"
LEAN_TARGETS = ["Eliot.Properties.C10"]
AUDIT = "Eliot/Audit/C10.lean"
SKELETON_TARGETS = {"Eliot.ShapesSkel.C10_shapes (E16: json_default and FileDestination.__new__ (mode detection) as statement lists)": ("Eliot.Properties.ShapesSkel", "Eliot/Audit/ShapesSkel.lean", ["Eliot.ShapesSkel.jsonDefaultBody_shape", "Eliot.ShapesSkel.fileDestinationNewBody_shape"])}
THEOREMS = [
    "EJ.C10.encode_no_newline", "EJ.C10.encode_is_object", "EJ.C10.encode_valid_utf8",
    "EJ.C10.nonfinite_to_null", "EJ.C10.rich_types_documented",
    "EJ.C10.decode_encode", "EJ.C10.native_encodes", "EJ.C10.encodes_native", "EJ.C10.encode_valid_json",
    "EJ.C10.deep_nesting_refused", "EJ.C10.deep_message_no_line",
    "EJ.C10.one_line_per_message", "EJ.C10.no_partial_between_calls", "EJ.C10.bytes_text_same",
    "EJ.C10.line_faithful",
]
GENERATED_OBLIGATIONS = ["Generated.fileDestCall = EJ.stdShape"]
RULE = ("values = random trees over the JSON-native domain (every C0 control, 0x7f, U+2028/2029, BMP edges, astral "
        "characters, +-2^63, 2^64-1, 2^64, -0.0, subnormals, 1e22, random bit-pattern floats, NaN/inf, empty containers, long "
        "keys/strings, nesting chains to depth 60 quick / 200 thorough and, around orjson's limit, of depth 253, 254, 255, 300), the documented rich types (Path, date, datetime, "
        "time - exact classes and user subclasses, naive and aware -, set, complex) under three default functions (eliot's json_default; a caller's function chaining to it; a caller's function "
        "that knows only its own type and raises TypeError otherwise - dates/times must still be written, paths/sets/complex are then "
        "out of domain), passed as json_default= or as a deprecated encoder= class, and out-of-domain leaves (bytes, non-str keys, lone surrogates, "
        "unsupported objects, aware time, over-range ints); messages = dicts of such values fed in groups of 1-6 to a "
        "binary and a text instrumented file, 30% of the groups offering the same dict object again after a change (key added / "
        "changed / removed, nested list grown in place), every fifth group through one Destinations.send in front of 2-3 "
        "FileDestinations with different default functions; logging programs = nested start_action / log_message with such fields "
        "under to_file with 2-4 files registered together, 40% of them with differing default functions (each file judged against its own); "
        "non-trivial = the value holds an escape-requiring character, a boundary number or nesting >= 3; distinct by canonical hash")
TRUSTED = ["orjson's float printer (the float token handed to the model is orjson's own text for that float) and Python's float parser",
           "CPython's UTF-8 codec as the meaning of bytes<->text (the model has its own UTF-8 codec, compared byte-exactly)",
           "harness translation tree_of(): Python object -> tagged tree (type dispatch mirrors orjson's exact-type rules)"]
ASSUMPTIONS = ["decode/loads model whitespace-free JSON without the NaN/Infinity literals (what the encoder emits)",
               "orjson's second limit (more than 255 default calls along one path: 'default serializer exceeds recursion limit') is not modelled; generated values stay far below it",
               "float tokens are opaque: FloatCodec (the token is a JSON number with fraction/exponent that scans back to itself) is checked by the model's encoder at run time",
               "timezone offsets of aware datetimes are whole minutes (orjson truncates seconds, isoformat() does not)"]
EXPLANATION = ("theorems over the executable model of orjson's compact encoder, json.loads and the FileDestination call sequence; "
               "model tied to the code by byte-exact comparison and by the regenerated skeleton of FileDestination.__call__")

NL_B, NL_T = b"\n", "\n"


# ---- generation (G-trees: JSON-able, enough to rebuild the Python object) -------------------

C0 = list(range(32))
SPECIAL = C0 + [0x22, 0x5C, 0x2F, 0x7F, 0x80, 0x85, 0xA0, 0xFF, 0x7FF, 0x800, 0x2028, 0x2029, 0xD7FF, 0xE000, 0xFEFF,
                0xFFFD, 0xFFFF, 0x10000, 0x1F600, 0xE0001, 0x10FFFF]
SURR = [0xD800, 0xDBFF, 0xDC00, 0xDFFF]
INT_EDGES = [0, 1, -1, 9, 10, -10, 2**31 - 1, 2**31, -2**31, 2**53 - 1, 2**53, 2**53 + 1, 2**63 - 1, 2**63, 2**63 + 1,
             -2**63, -2**63 + 1, 2**64 - 1, 2**64 - 2, 10**18, -10**18]
INT_BAD = [2**64, -2**63 - 1, 2**64 + 1, 10**30, -10**30, 2**200]
FLOAT_EDGES = ["-0x0.0p+0", "0x0.0p+0", "0x0.0000000000001p-1022", "0x1.0000000000000p-1022", "0x0.fffffffffffffp-1022",
               "0x1.fffffffffffffp+1023", "-0x1.fffffffffffffp+1023", "0x1.0f0cf064dd592p+73", "0x1.52d02c7e14af6p+76",
               "0x1.b1ae4d6e2ef50p+69", "0x1.1c37937e08000p+53", "0x1.c6bf526340000p+49", "0x1.4f8b588e368f1p-17",
               "0x1.ad7f29abcaf48p-24", "0x1.999999999999ap-4", "0x1.5555555555555p-2", "0x1.0000000000000p+0",
               "0x1.8000000000000p+0", "0x1.0000000000000p+53", "0x1.0000000000001p+53", "0x1.a36e2eb1c432dp-14",
               "0x1.0c6f7a0b5ed8dp-20"]
NONFINITE = ["nan", "inf", "-inf"]
UNSUPPORTED = ["bytes", "object", "frozenset", "purepath", "timedelta", "instance", "bytearray", "decimal"]


def g_str(rng, surr=False, long_ok=True):
    r = rng.random()
    if r < 0.1:
        n = 0
    elif r < 0.8:
        n = rng.randint(1, 8)
    elif r < 0.97 or not long_ok:
        n = rng.randint(9, 40)
    else:
        n = rng.randint(200, 1500)
    cps = []
    for _ in range(n):
        q = rng.random()
        if q < 0.45:
            cps.append(rng.randint(0x20, 0x7E))
        elif q < 0.8:
            cps.append(rng.choice(SPECIAL))
        elif q < 0.9:
            cps.append(rng.randint(0, 0xD7FF))
        else:
            cps.append(rng.randint(0xE000, 0x10FFFF))
    if surr:
        cps.insert(rng.randint(0, len(cps)), rng.choice(SURR))
        if rng.random() < 0.3:   # a well-formed looking pair is still two surrogates in a str
            cps[-1:] = [0xD83D, 0xDE00]
    return {"t": "str", "v": cps}


def g_int(rng, bad=False):
    if bad:
        return {"t": "int", "v": str(rng.choice(INT_BAD))}
    r = rng.random()
    if r < 0.5:
        return {"t": "int", "v": str(rng.choice(INT_EDGES))}
    if r < 0.75:
        return {"t": "int", "v": str(rng.randint(-1000, 1000))}
    return {"t": "int", "v": str(rng.randint(-2**63, 2**64 - 1))}


def g_float(rng, nonfinite_ok=True):
    r = rng.random()
    if r < 0.4:
        return {"t": "float", "hex": rng.choice(FLOAT_EDGES)}
    if r < 0.5 and nonfinite_ok:
        return {"t": "float", "hex": rng.choice(NONFINITE)}
    if r < 0.75:
        x = struct.unpack("<d", struct.pack("<Q", rng.getrandbits(64)))[0]
        if x != x or x in (float("inf"), float("-inf")):
            return {"t": "float", "hex": "nan" if x != x else ("inf" if x > 0 else "-inf")} if nonfinite_ok else {"t": "float", "hex": "0x1.0p+0"}
        return {"t": "float", "hex": x.hex()}
    if r < 0.9:
        return {"t": "float", "hex": float(rng.randint(-10**6, 10**6) / rng.choice([1, 10, 100, 1000, 3, 7])).hex()}
    return {"t": "float", "hex": float("%de%d" % (rng.randint(1, 99), rng.randint(-330, 308))).hex()}


def g_leaf(rng, prof):
    r = rng.random()
    if prof["bad"] and r < prof["bad"]:
        k = rng.choice(["int", "surr", "unsupported", "timetz", "surrpath"] + ([] if prof["ext"] else ["custom"])
                       + (["ownpath", "owncomplex", "ownset", "ownsub", "ownsub"] if prof["ext"] == "own" else []))
        if k == "ownsub":
            if rng.random() < 0.5:
                return {"t": "date", "k": "datetime", "sub": True, "args": [2024, 2, 29, 23, 59, 59, rng.choice([0, 123456])], "tz": rng.choice([None, 0, 330])}
            return {"t": "time", "args": [1, 2, 3, rng.choice([0, 66507])], "tz": rng.choice([None, 60]), "sub": True}
        if k == "ownpath":
            return {"t": "path", "v": g_str(rng, long_ok=False)["v"]}
        if k == "owncomplex":
            return {"t": "complex", "re": g_float(rng)["hex"], "im": g_float(rng)["hex"]}
        if k == "ownset":
            return {"t": "set", "v": [g_hashable(rng) for _ in range(rng.randint(0, 3))]}
        if k == "int":
            return g_int(rng, bad=True)
        if k == "surr":
            return g_str(rng, surr=True, long_ok=False)
        if k == "unsupported":
            return {"t": "unsupported", "k": rng.choice(UNSUPPORTED)}
        if k == "timetz":
            return {"t": "time", "args": [rng.randint(0, 23), rng.randint(0, 59), rng.randint(0, 59), 0], "tz": rng.choice([0, 60, -330])}
        if k == "surrpath":
            return {"t": "path", "v": [97, 47] + [rng.choice(SURR)]}
        return {"t": "custom", "v": {"t": "null"}}
    r = rng.random()
    if prof["rich"] and r < prof["rich"]:
        k = rng.choice(["date", "datetime", "time", "custom", "custom"] if prof["ext"] == "own" else
                       ["path", "date", "datetime", "time", "complex", "set", "custom"] if prof["ext"] else
                       ["path", "date", "datetime", "time", "complex", "set"])
        if k == "path":
            s = g_str(rng, long_ok=False)
            return {"t": "path", "v": s["v"]}
        # instances of subclasses reach the default function; a caller's function that does not chain refuses them
        sub = prof["ext"] != "own" and rng.random() < 0.4
        if k == "date":
            return {"t": "date", "k": "date", "args": [rng.choice([1, 999, 1970, 2024, 9999]), rng.randint(1, 12), rng.randint(1, 28)], "tz": None, "sub": sub}
        if k == "datetime":
            return {"t": "date", "k": "datetime", "sub": sub,
                    "args": [rng.choice([1, 999, 1970, 2024, 9999]), rng.randint(1, 12), rng.randint(1, 28), rng.randint(0, 23),
                             rng.randint(0, 59), rng.randint(0, 59), rng.choice([0, 0, 1, 500000, 999999, rng.randint(0, 999999)])],
                    "tz": rng.choice([None, None, 0, 330, -90, 840, -720])}
        if k == "time":
            return {"t": "time", "args": [rng.randint(0, 23), rng.randint(0, 59), rng.randint(0, 59), rng.choice([0, 1, 999999, rng.randint(0, 999999)])],
                    "tz": rng.choice([None, None, 0, 330, -90]) if sub else None, "sub": sub}
        if k == "complex":
            return {"t": "complex", "re": g_float(rng)["hex"], "im": g_float(rng)["hex"]}
        if k == "set":
            return {"t": "set", "v": [g_hashable(rng) for _ in range(rng.randint(0, 5))]}
        return {"t": "custom", "v": g_value(rng, dict(prof, bad=0), 2)}
    r = rng.random()
    if r < 0.08:
        return {"t": "null"}
    if r < 0.16:
        return {"t": "bool", "v": rng.random() < 0.5}
    if r < 0.4:
        return g_int(rng)
    if r < 0.6:
        return g_float(rng)
    return g_str(rng)


def g_hashable(rng):
    r = rng.random()
    if r < 0.3:
        return g_int(rng)
    if r < 0.5:
        return g_float(rng, nonfinite_ok=False)
    if r < 0.6:
        return {"t": "null"}
    if r < 0.65:
        return {"t": "bool", "v": rng.random() < 0.5}
    return g_str(rng, long_ok=False)


def g_key(rng, prof):
    if prof["bad"] and rng.random() < prof["bad"] / 2:
        if rng.random() < 0.5:
            return {"t": "other", "k": rng.choice(["int", "none", "tuple", "float", "bool"])}
        return g_str(rng, surr=True, long_ok=False)
    r = rng.random()
    if r < 0.6:
        return {"t": "str", "v": [rng.randint(97, 122) for _ in range(rng.randint(1, 6))]}
    if r < 0.95:
        return g_str(rng, long_ok=False)
    return {"t": "str", "v": [rng.choice([97, 0x1F600, 34, 10]) for _ in range(rng.randint(300, 3000))]}   # long key


def g_value(rng, prof, depth):
    r = rng.random()
    if depth <= 0 or r < 0.45:
        return g_leaf(rng, prof)
    n = rng.choice([0, 0, 1, 1, 2, 2, 3, 4, 6]) if depth < 3 else rng.choice([0, 1, 2, 3])
    if r < 0.72:
        return {"t": "list", "tuple": rng.random() < 0.15, "v": [g_value(rng, prof, depth - 1) for _ in range(n)]}
    return {"t": "dict", "v": [[g_key(rng, prof), g_value(rng, prof, depth - 1)] for _ in range(n)]}


def g_chain(rng, prof, depth):
    """a nesting chain of the given depth with a leaf at the bottom and a few siblings on the way"""
    v = g_leaf(rng, prof)
    for _ in range(depth):
        if rng.random() < 0.5:
            sib = [g_leaf(rng, prof)] if rng.random() < 0.2 else []
            v = {"t": "list", "tuple": False, "v": sib + [v]}
        else:
            sib = [[g_key(rng, dict(prof, bad=0)), g_leaf(rng, prof)]] if rng.random() < 0.2 else []
            v = {"t": "dict", "v": [[{"t": "str", "v": [rng.randint(97, 122)]}, v]] + sib}
    return v


def pure_chain(n, kind, leaf=None):
    """exactly n nested containers: lists, dicts or alternating"""
    v = leaf if leaf is not None else {"t": "int", "v": "1"}
    for i in range(n):
        if kind == "list" or (kind == "mixed" and i % 2):
            v = {"t": "list", "tuple": False, "v": [v]}
        else:
            v = {"t": "dict", "v": [[{"t": "str", "v": [97]}, v]]}
    return v


# orjson's recursion limit is 254 containers: both sides of it, and well beyond
LIMIT_DEPTHS = [253, 254, 255, 300]


def g_message(rng, prof, top_dict=True):
    """a message dictionary as handed to a destination"""
    if not top_dict:
        return g_value(rng, prof, 2)
    n = rng.choice([0, 1, 1, 2, 3, 5])
    return {"t": "dict", "v": [[g_key(rng, prof), g_value(rng, prof, rng.choice([0, 1, 2, 3]))] for _ in range(n)]}


PROFILES = [
    ("native", dict(rich=0.0, bad=0.0)),
    ("rich", dict(rich=0.3, bad=0.0)),
    ("bad", dict(rich=0.15, bad=0.08)),
]


def pick_profile(rng):
    r = rng.random()
    name, p = PROFILES[0] if r < 0.5 else PROFILES[1] if r < 0.78 else PROFILES[2]
    r = rng.random()
    # False: eliot's json_default; True: a caller's function that handles its own type and ends with eliot's json_default;
    # "own": a caller's function that handles its own type only and raises TypeError otherwise
    return name, dict(p, ext=False if r < 0.55 else True if r < 0.78 else "own")


# ---- G-tree -> Python object ----------------------------------------------------------------

class Custom(object):
    """a class only the caller's json_default knows"""

    def __init__(self, payload):
        self.payload = payload


class Opaque(object):
    pass


class SubDate(_dt.date):
    """user subclasses of the date/time classes (pendulum, freezegun, ORM types ...): orjson serialises only the
    exact classes itself, instances of subclasses are handed to the default function"""


class SubDateTime(_dt.datetime):
    pass


class SubTime(_dt.time):
    pass


def fl(hexs):
    return float(hexs) if hexs in NONFINITE else float.fromhex(hexs)


def tzinfo(m):
    return None if m is None else _dt.timezone(_dt.timedelta(minutes=m))


def build(t):
    k = t["t"]
    if k == "null":
        return None
    if k == "bool":
        return bool(t["v"])
    if k == "int":
        return int(t["v"])
    if k == "float":
        return fl(t["hex"])
    if k == "str":
        return "".join(map(chr, t["v"]))
    if k == "list":
        xs = [build(x) for x in t["v"]]
        return tuple(xs) if t.get("tuple") else xs
    if k == "dict":
        d = {}
        for i, (kk, vv) in enumerate(t["v"]):
            d[build_key(kk, i)] = build(vv)
        return d
    if k == "path":
        return pathlib.Path("".join(map(chr, t["v"])))
    if k == "date":
        if t["k"] == "date":
            return (SubDate if t.get("sub") else _dt.date)(*t["args"])
        return (SubDateTime if t.get("sub") else _dt.datetime)(*t["args"], tzinfo=tzinfo(t["tz"]))
    if k == "time":
        return (SubTime if t.get("sub") else _dt.time)(*t["args"], tzinfo=tzinfo(t["tz"]))
    if k == "set":
        return set(build(x) for x in t["v"])
    if k == "complex":
        return complex(fl(t["re"]), fl(t["im"]))
    if k == "custom":
        return Custom(build(t["v"]))
    if k == "unsupported":
        u = t["k"]
        if u == "bytes":
            return b"abc"
        if u == "bytearray":
            return bytearray(b"ab")
        if u == "object":
            return object()
        if u == "frozenset":
            return frozenset([1])
        if u == "purepath":
            return pathlib.PurePosixPath("/x")
        if u == "timedelta":
            return _dt.timedelta(1)
        if u == "decimal":
            import decimal
            return decimal.Decimal("1.5")
        return Opaque()
    raise ValueError(k)


def build_key(t, i):
    if t["t"] == "str":
        return "".join(map(chr, t["v"]))
    u = t["k"]
    return {"int": 1000 + i, "none": None, "tuple": (i, 1), "float": i + 0.5, "bool": True}[u]


def bad_kinds(t, ext):
    """model-free: which refusals the statement allows for this value (empty = documented domain)"""
    k = t["t"]
    out = set()
    if k == "int":
        if not -2**63 <= int(t["v"]) <= 2**64 - 1:
            out.add("intRange")
    elif k in ("path", "set", "complex") and ext == "own":
        out.add("unsupported")          # only eliot's json_default knows these; the caller's function does not chain to it
    elif k in ("str", "path"):
        if any(0xD800 <= c <= 0xDFFF for c in t["v"]):
            out.add("surrogate")
    elif k == "list" or k == "set":
        for x in t["v"]:
            out |= bad_kinds(x, ext)
    elif k == "dict":
        for kk, vv in t["v"]:
            if kk["t"] != "str":
                out.add("nonStrKey")
            else:
                out |= bad_kinds(kk, ext)
            out |= bad_kinds(vv, ext)
    elif k in ("time", "date") and t.get("sub"):
        if ext == "own":
            out.add("unsupported")      # a subclass instance is handed to the caller's function, which does not know it
    elif k == "time":
        if t["tz"] is not None:
            out.add("timeTz")           # exact datetime.time with tzinfo: orjson itself refuses
    elif k == "custom":
        if ext:
            out |= bad_kinds(t["v"], ext)
        else:
            out.add("unsupported")
    elif k == "unsupported":
        out.add("unsupported")
    return out


def gdepth(t, ext):
    """model-free: number of nested containers the encoder meets in this value (a set becomes a list, a complex
    number a dict, a caller's object whatever its default returns)"""
    k = t["t"]
    if k in ("list", "set"):
        return 1 + max([gdepth(x, ext) for x in t["v"]] or [0])
    if k == "dict":
        return 1 + max([gdepth(vv, ext) for _, vv in t["v"]] or [0])
    if k == "complex":
        return 1
    if k == "custom":
        return gdepth(t["v"], ext) if ext else 0
    return 0


def features(t, depth=0):
    """(escape-requiring char?, boundary number?, max depth, tags)"""
    k = t["t"]
    esc = bnd = False
    d = depth
    tags = {k}
    if k in ("str", "path"):
        esc = any(c < 32 or c in (34, 92) for c in t["v"])
        if any(c > 0xFFFF for c in t["v"]):
            tags.add("astral")
        if any(c in (0x2028, 0x2029) for c in t["v"]):
            tags.add("u2028")
    elif k in ("date", "time") and t.get("sub"):
        tags.add("datetime-subclass")
    elif k == "int":
        bnd = abs(int(t["v"])) >= 2**53
    elif k == "float":
        bnd = t["hex"] in FLOAT_EDGES or t["hex"] in NONFINITE
        if t["hex"] in NONFINITE:
            tags.add("nonfinite")
    elif k in ("list", "set", "custom"):
        kids = t["v"] if k != "custom" else [t["v"]]
        if not kids:
            tags.add("empty")
        for x in kids:
            e, b, dd, tg = features(x, depth + 1)
            esc, bnd, d, tags = esc or e, bnd or b, max(d, dd), tags | tg
    elif k == "dict":
        if not t["v"]:
            tags.add("empty")
        for kk, vv in t["v"]:
            if kk["t"] == "str":
                esc = esc or any(c < 32 or c in (34, 92) for c in kk["v"])
                if len(kk["v"]) >= 300:
                    tags.add("longkey")
            e, b, dd, tg = features(vv, depth + 1)
            esc, bnd, d, tags = esc or e, bnd or b, max(d, dd), tags | tg
    return esc, bnd, d, tags


# ---- Python object -> tagged tree for the model (harness translation, trusted) ------------------

def ftok(x):
    import orjson
    if x != x:
        return "nan"
    if x in (float("inf"), float("-inf")):
        return "inf" if x > 0 else "-inf"
    return orjson.dumps(x).decode("ascii")


def cps(s):
    return [ord(c) for c in s]


def tree_of(o):
    if o is None:
        return {"t": "null"}
    ty = type(o)
    if ty is bool:
        return {"t": "bool", "v": o}
    if ty is int:
        return {"t": "int", "v": str(o)}
    if ty is float:
        return {"t": "float", "v": ftok(o)}
    if ty is str:
        return {"t": "str", "v": cps(o)}
    if ty is list or ty is tuple:
        return {"t": "list", "v": [tree_of(x) for x in o]}
    if ty is dict:
        return {"t": "dict", "v": [[{"t": "str", "v": cps(k)} if type(k) is str else {"t": "other"}, tree_of(v)] for k, v in o.items()]}
    if ty is Custom:
        return {"t": "custom", "v": tree_of(o.payload)}
    if isinstance(o, pathlib.Path):
        return {"t": "path", "v": cps(str(o))}
    if ty is _dt.datetime or ty is _dt.date:
        return {"t": "date", "v": o.isoformat()}
    if ty is _dt.time:
        return {"t": "timetz"} if o.tzinfo is not None else {"t": "time", "v": o.isoformat()}
    if isinstance(o, (_dt.date, _dt.time)):
        return {"t": "isosub", "v": o.isoformat()}        # instance of a subclass
    if ty is set:
        return {"t": "set", "v": [tree_of(x) for x in o]}
    if ty is complex:
        return {"t": "complex", "re": ftok(o.real), "im": ftok(o.imag)}
    return {"t": "unsupported"}


def gtree_of(o):
    """Python object -> G-tree (inverse of build on the native and rich types); used to shrink"""
    if o is None:
        return {"t": "null"}
    ty = type(o)
    if ty is bool:
        return {"t": "bool", "v": o}
    if ty is int:
        return {"t": "int", "v": str(o)}
    if ty is float:
        return {"t": "float", "hex": "nan" if o != o else ("inf" if o > 0 else "-inf") if o in (float("inf"), float("-inf")) else o.hex()}
    if ty is str:
        return {"t": "str", "v": cps(o)}
    if ty is list or ty is tuple:
        return {"t": "list", "tuple": ty is tuple, "v": [gtree_of(x) for x in o]}
    if ty is dict:
        return {"t": "dict", "v": [[{"t": "str", "v": cps(k)} if type(k) is str else {"t": "other", "k": "none"}, gtree_of(v)] for k, v in o.items()]}
    if ty is Custom:
        return {"t": "custom", "v": gtree_of(o.payload)}
    if isinstance(o, pathlib.Path):
        return {"t": "path", "v": cps(str(o))}
    if isinstance(o, (_dt.datetime, _dt.time)):
        sub = ty is not _dt.datetime and ty is not _dt.time
        off = o.utcoffset() if o.tzinfo is not None else None
        tz = None if o.tzinfo is None else int(off.total_seconds() // 60)
        if isinstance(o, _dt.time):
            return {"t": "time", "args": [o.hour, o.minute, o.second, o.microsecond], "tz": tz, "sub": sub}
        return {"t": "date", "k": "datetime", "args": [o.year, o.month, o.day, o.hour, o.minute, o.second, o.microsecond], "tz": tz, "sub": sub}
    if isinstance(o, _dt.date):
        return {"t": "date", "k": "date", "args": [o.year, o.month, o.day], "tz": None, "sub": ty is not _dt.date}
    if ty is set:
        return {"t": "set", "v": [gtree_of(x) for x in o]}
    if ty is complex:
        return {"t": "complex", "re": gtree_of(o.real)["hex"], "im": gtree_of(o.imag)["hex"]}
    return {"t": "unsupported", "k": "instance"}


def subtrees(t):
    yield t
    k = t["t"]
    if k in ("list", "set"):
        for x in t["v"]:
            for y in subtrees(x):
                yield y
    elif k == "dict":
        for kk, vv in t["v"]:
            for y in subtrees(vv):
                yield y
    elif k == "custom":
        for y in subtrees(t["v"]):
            yield y


def value_line_complaint(tree, ext):
    """the faithfulness oracle on the bare encoder for one value: None = fine or not applicable"""
    if bad_kinds(tree, ext):
        return None
    o = build(tree)
    from eliot.json import _dumps_bytes
    try:
        b = _dumps_bytes(o, default=default_for(ext))
    except Exception as e:  # noqa
        return "a value of the documented domain was refused by the encoder: %s" % errkind(e)
    if not isinstance(b, (bytes, bytearray)):
        return "_dumps_bytes returned %s" % type(b).__name__
    return check_line(bytes(b) + NL_B, False, o, ext)


def shrink(tree, ext):
    """smallest sub-value that on its own is already encoded unfaithfully"""
    best = tree
    size = len(json.dumps(tree))
    for sub in subtrees(tree):
        n = len(json.dumps(sub))
        if n < size and value_line_complaint(sub, ext):
            best, size = sub, n
    return best


def missing_zero_after_dot(written, iso):
    """is `written` the text `iso` with exactly one "0" removed right after the dot?"""
    if "." not in iso:
        return False
    i = iso.index(".") + 1
    return iso[i:i + 1] == "0" and written == iso[:i] + iso[i + 1:]


def key_of(sub, ext=False, why=""):
    """small structural key of a minimised unfaithful value (for KNOWN_FINDINGS matching)"""
    if "refused by the encoder: depth" in (why or "") and gdepth(sub, ext) >= 255:
        return {"refused": "depth", "nesting": ">=255"}
    if sub["t"] in ("time", "date") and sub.get("sub"):
        return {"leaf": "subclass of datetime." + (sub["k"] if sub["t"] == "date" else "time")}
    if sub["t"] == "time" and sub.get("tz") is None:
        us = sub["args"][3]
        known = False
        if 10000 <= us <= 99999:
            # the known deviation and nothing else: the written text is isoformat() minus the zero after the dot
            try:
                from eliot.json import _dumps_bytes
                o = build(sub)
                written = json.loads(_dumps_bytes(o, default=default_for(ext)).decode("utf-8"))
                known = isinstance(written, str) and missing_zero_after_dot(written, o.isoformat())
            except Exception:  # noqa
                known = False
        return {"leaf": "datetime.time", "microsecond": "10000..99999" if known else "other"}
    return {"leaf": sub["t"]}


def report_unfaithful(ctx, what, tree, ext, found_in):
    """violation with the minimised value as the replayable case"""
    sub = shrink(tree, ext)
    why = value_line_complaint(sub, ext)
    if why is None:          # only wrong in context: keep the whole thing
        ctx.violation(what, found_in)
        return
    extra = None
    if "refused by the encoder: depth" in why:
        extra = {"nesting": gdepth(sub, ext), "note": "orjson refuses more than 254 nested containers; the message is not written at all"}
        ctx.violation("%s [minimised to a single value: %s]" % (what, why), {"kind": "value", "tree": sub, "ext": ext},
                      key=key_of(sub, ext, why), extra=extra)
        return
    try:
        from eliot.json import _dumps_bytes
        o = build(sub)
        extra = {"written": _dumps_bytes(o, default=default_for(ext)).decode("utf-8", "replace")[:300], "logged": repr(o)[:300],
                 "documented_form": repr(expected(o, ext))[:300]}
    except Exception:  # noqa
        pass
    ctx.violation("%s [minimised to a single value: %s]" % (what, why), {"kind": "value", "tree": sub, "ext": ext}, key=key_of(sub, ext, why), extra=extra)


# ---- expected (documented) form, model-free ------------------------------------------------------

def expected(o, ext):
    """canonical form of what json.loads of the line must give for a logged object"""
    if o is None:
        return ("n",)
    ty = type(o)
    if ty is bool:
        return ("b", o)
    if ty is int:
        return ("i", o)
    if ty is float:
        if o != o or o in (float("inf"), float("-inf")):
            return ("n",)                       # documented: NaN / inf are serialised as null
        return ("f", repr(o))
    if ty is str:
        return ("s", o)
    if ty is list or ty is tuple:
        return ("l", [expected(x, ext) for x in o])
    if ty is dict:
        return ("d", [(k, expected(v, ext)) for k, v in o.items()])
    if ty is Custom and ext:
        return expected(o.payload, ext)
    if isinstance(o, pathlib.Path):
        return ("s", str(o))
    if isinstance(o, (_dt.date, _dt.time)):              # exact classes and subclasses alike
        return ("s", o.isoformat())
    if ty is set:
        return ("set", sorted((expected(x, ext) for x in o), key=repr))
    if ty is complex:
        return ("d", [("real", expected(o.real, ext)), ("imag", expected(o.imag, ext))])
    return ("?", type(o).__name__)


def loaded_canon(x):
    if x is None:
        return ("n",)
    if x is True or x is False:
        return ("b", x)
    if type(x) is int:
        return ("i", x)
    if type(x) is float:
        return ("f", repr(x))
    if type(x) is str:
        return ("s", x)
    if type(x) is list:
        return ("l", [loaded_canon(y) for y in x])
    if type(x) is dict:
        return ("d", [(k, loaded_canon(v)) for k, v in x.items()])
    if type(x) is _Pairs:
        return ("p", [(k, loaded_canon(v)) for k, v in x.ps])
    return ("?", type(x).__name__)


def matches(exp, got):
    if exp[0] == "set":
        return got[0] == "l" and len(got[1]) == len(exp[1]) and _match_multiset(exp[1], got[1])
    if exp[0] == "l":
        return got[0] == "l" and len(got[1]) == len(exp[1]) and all(matches(a, b) for a, b in zip(exp[1], got[1]))
    if exp[0] == "d":
        return got[0] == "d" and len(got[1]) == len(exp[1]) and all(ka == kb and matches(a, b) for (ka, a), (kb, b) in zip(exp[1], got[1]))
    return exp == got


def _match_multiset(exps, gots):
    gots = list(gots)
    for e in exps:
        for i, g in enumerate(gots):
            if matches(e, g):
                del gots[i]
                break
        else:
            return False
    return True


class _Pairs(object):
    def __init__(self, ps):
        self.ps = ps


# ---- real side ------------------------------------------------------------------------------------

ERRKIND = [("Integer exceeds 64-bit range", "intRange"), ("surrogates not allowed", "surrogate"), ("Dict key must be str", "nonStrKey"),
           ("Type is not JSON serializable", "unsupported"), ("must not have tzinfo", "timeTz"), ("Recursion limit", "depth")]
MODEL_ERR = {"EJ.EncErr.intRange": "intRange", "EJ.EncErr.surrogate": "surrogate", "EJ.EncErr.nonStrKey": "nonStrKey",
             "EJ.EncErr.unsupported": "unsupported", "EJ.EncErr.timeTz": "timeTz", "EJ.EncErr.badFloat": "badFloat",
             "EJ.EncErr.notUtf8": "notUtf8", "EJ.EncErr.depth": "depth"}


def default_for(ext):
    from eliot.json import json_default
    if not ext:
        return json_default

    if ext == "own":
        def own_default(o):
            if isinstance(o, Custom):
                return o.payload
            raise TypeError("cannot encode %r" % (o,))
        return own_default

    def caller_default(o):
        if isinstance(o, Custom):
            return o.payload
        return json_default(o)
    return caller_default


def encoder_for(ext):
    """the same three behaviours as a (deprecated) JSONEncoder subclass for `encoder=`"""
    from eliot.json import EliotJSONEncoder
    if not ext:
        return EliotJSONEncoder
    if ext == "own":
        class OwnEncoder(json.JSONEncoder):
            def default(self, o):
                if isinstance(o, Custom):
                    return o.payload
                return json.JSONEncoder.default(self, o)      # raises TypeError
        return OwnEncoder

    class ChainEncoder(EliotJSONEncoder):
        def default(self, o):
            if isinstance(o, Custom):
                return o.payload
            return EliotJSONEncoder.default(self, o)
    return ChainEncoder


def dest_kwargs(ext, via):
    return {"encoder": encoder_for(ext)} if via == "encoder" else {"json_default": default_for(ext)}


def mreq(ext):
    """how the model is told which default function is in use"""
    return {"ext": bool(ext), "own": ext == "own"}


def errkind(e):
    msg = str(e)
    for pat, k in ERRKIND:
        if pat in msg:
            return k
    return "other:%s:%s" % (type(e).__name__, msg[:60])


def real_dumps(obj, ext):
    from eliot.json import _dumps_bytes, _dumps_unicode
    d = default_for(ext)
    out = {}
    try:
        b = _dumps_bytes(obj, default=d)
        out["b"] = b.hex() if isinstance(b, (bytes, bytearray)) else {"not-bytes": type(b).__name__}
    except Exception as e:  # noqa
        out["b_err"] = errkind(e)
        out["b_exc"] = type(e).__name__
    try:
        t = _dumps_unicode(obj, default=d)
        out["t"] = cps(t) if isinstance(t, str) else {"not-str": type(t).__name__}
    except Exception as e:  # noqa
        out["t_err"] = errkind(e)
    return out


class RecFile(object):
    """file object that records every call it receives; binary or text like the real ones"""

    def __init__(self, text):
        self._text = text
        self.calls = []

    def write(self, data):
        ok = isinstance(data, str) if self._text else isinstance(data, (bytes, bytearray, memoryview))
        if not ok:
            self.calls.append(["w-rejected", type(data).__name__, len(data)])
            raise TypeError("write() argument must be %s, not %s" % ("str" if self._text else "bytes-like", type(data).__name__))
        self.calls.append(["w", data if self._text else bytes(data)])
        return len(data)

    def flush(self):
        self.calls.append(["f"])

    def __getattr__(self, name):
        if name.startswith("__"):
            raise AttributeError(name)
        self.calls.append(["attr", name])
        raise AttributeError(name)


def units(data):
    return cps(data) if isinstance(data, str) else list(data)


def calls_for_model(calls):
    out = []
    for c in calls:
        if c[0] == "w":
            out.append(["w", units(c[1])])
        elif c[0] == "w-rejected" and c[2] == 0:
            out.append(["w", []])          # the probe write(b"") on a text file
        elif c[0] == "f":
            out.append(["f"])
        else:
            out.append(["?", c[0]])
    return out


def morph(o, new):
    """turn the dict `o` IN PLACE into the dict `new` (same object afterwards: what a caller does who logs a dictionary,
    changes it and logs it again); a list value that stays a list is changed in place too"""
    items = []
    for k, v in new.items():
        if k in o and type(o[k]) is list and type(v) is list:
            o[k][:] = v
            items.append((k, o[k]))
        else:
            items.append((k, v))
    o.clear()
    o.update(items)


def mutate_tree(rng, tree, prof):
    """a changed copy of a message tree: add a key, change a value, grow a nested list, or nothing"""
    import copy
    t = copy.deepcopy(tree)
    kvs = t["v"]
    r = rng.random()
    lists = [kv for kv in kvs if kv[1]["t"] == "list" and not kv[1].get("tuple")]
    if r < 0.3 or not kvs:
        kvs.append([{"t": "str", "v": [110, 101, 119] + [48 + len(kvs) % 10]}, g_value(rng, prof, rng.choice([0, 1, 2]))])
    elif r < 0.6:
        rng.choice(kvs)[1] = g_value(rng, prof, rng.choice([0, 1, 2]))
    elif r < 0.85 and lists:
        rng.choice(lists)[1]["v"].append(g_value(rng, prof, 1))
    elif r < 0.92:
        del kvs[rng.randrange(len(kvs))]
    # keys must stay distinct
    seen, out = set(), []
    for kk, vv in kvs:
        key = json.dumps(kk, sort_keys=True)
        if key not in seen:
            seen.add(key)
            out.append([kk, vv])
    t["v"] = out
    return t


def with_reoffers(rng, msgs, prof):
    """insert offers of an object that was offered before, changed in between; returns (msgs, same): msgs[j] is the state
    of the object at offer j, same[j] the index of the first offer of that very object (None: a new object)"""
    msgs = list(msgs)
    same = [None] * len(msgs)
    for _ in range(rng.randint(1, 3)):
        cands = [i for i, m in enumerate(msgs) if m["t"] == "dict" and all(k["t"] == "str" for k, _ in m["v"])]
        if not cands:
            break
        i = rng.choice(cands)
        root = same[i] if same[i] is not None else i
        # the latest state of that object is its last offer
        last = max(j for j in range(len(msgs)) if j == root or same[j] == root)
        at = rng.randint(last + 1, len(msgs))
        msgs.insert(at, mutate_tree(rng, msgs[last], prof))
        same = [x + 1 if x is not None and x >= at else x for x in same]
        same.insert(at, root)
    return msgs, same


def offered_objects(msgs, same):
    """the objects in offer order, built / changed in place just before each offer"""
    objs = []
    for j, t in enumerate(msgs):
        if same and same[j] is not None and isinstance(objs[same[j]], dict):
            o = objs[same[j]]
            morph(o, build(t))
        else:
            o = build(t)
        objs.append(o)
        yield o


def snapshot(o):
    import copy
    try:
        return copy.deepcopy(o)
    except Exception:  # noqa
        return o


def direct_refuses(o, ext):
    """does orjson itself, asked directly with this default function, refuse the object?"""
    import orjson
    try:
        orjson.dumps(o, default=default_for(ext))
        return False
    except Exception:  # noqa
        return True


def feed_direct(msgs, same, ext, text, via="default"):
    """real FileDestination on an instrumented file; returns (calls, per-offer outcome, per-offer slice, per-offer copy
    of the object as it was when offered, per-offer model tree)"""
    from eliot import FileDestination
    rec = RecFile(text)
    try:
        dest = FileDestination(file=rec, **dest_kwargs(ext, via))
    except Exception as e:  # noqa
        return rec.calls, [{"raised": type(e).__name__, "where": "constructor"}], [], [], []
    outcomes, slices, snaps, mtrees = [], [], [], []
    for m in offered_objects(msgs, same):
        snaps.append(snapshot(m))
        mtrees.append(tree_of(m))
        n0 = len(rec.calls)
        try:
            dest(m)
            outcomes.append({"ok": True})
        except Exception as e:  # noqa
            outcomes.append({"raised": type(e).__name__, "kind": errkind(e)})
        slices.append([n0, len(rec.calls)])
    return rec.calls, outcomes, slices, snaps, mtrees


def feed_fanout(msgs, same, exts, via="default"):
    """several FileDestinations with different default functions registered together in one `Destinations`, every message
    object handed to all of them by `Destinations.send`; returns ([(ext, text, calls, slices)], snaps, mtrees, err)"""
    from eliot import FileDestination
    from eliot._output import Destinations
    recs = [(ext, i == len(exts) - 1 and len(exts) > 2, RecFile(i == len(exts) - 1 and len(exts) > 2)) for i, ext in enumerate(exts)]
    d = Destinations()
    err = None
    per = [[] for _ in recs]
    snaps, mtrees = [], []
    try:
        d.add(*[FileDestination(file=rec, **dest_kwargs(ext, via)) for ext, _, rec in recs])
        for m in offered_objects(msgs, same):
            snaps.append(snapshot(m))
            mtrees.append(tree_of(m))
            n0 = [len(rec.calls) for _, _, rec in recs]
            d.send(m)
            for k, (_, _, rec) in enumerate(recs):
                per[k].append([n0[k], len(rec.calls)])
    except Exception as e:  # noqa
        err = type(e).__name__
    return [(ext, text, rec.calls, per[k]) for k, (ext, text, rec) in enumerate(recs)], snaps, mtrees, err


# ---- oracles ------------------------------------------------------------------------------------

def check_line(data, text, obj, ext):
    """oracle on one written chunk for one logged object; returns a complaint or None"""
    nl = NL_T if text else NL_B
    cr = "\r" if text else b"\r"
    if not data.endswith(nl):
        return "the written chunk does not end with a newline"
    if data.count(nl) != 1:
        return "the written chunk holds %d newlines" % data.count(nl)
    if cr in data:
        return "the written chunk holds a carriage return"
    body = data[:-1]
    if text:
        try:
            body.encode("utf-8")
        except UnicodeError:
            return "the text line is not encodable as UTF-8"
    else:
        try:
            body = body.decode("utf-8")
        except UnicodeError:
            return "the line is not valid UTF-8"
    try:
        back = json.loads(body)
    except ValueError:
        return "the line is not valid JSON"
    if isinstance(obj, dict) and not isinstance(back, dict):
        return "the line is not a JSON object"
    exp = expected(obj, ext)
    if not matches(exp, loaded_canon(back)):
        return "json.loads(line) differs from the logged message (JSON-native part equal, rich types in documented form)"
    return None


def oracle_direct(ctx, case, msgs_obj, bad, ext, text, calls, outcomes, slices):
    mode = "text" if text else "binary"
    ok = True
    if outcomes and outcomes[0].get("where") == "constructor":
        ctx.violation("FileDestination(%s file) raised %s" % (mode, outcomes[0]["raised"]), case)
        return False
    probe = calls[:1]
    if not (len(probe) == 1 and ((probe[0][0] == "w" and len(probe[0][1]) == 0) or (probe[0][0] == "w-rejected" and probe[0][2] == 0))) \
            or (slices and slices[0][0] != 1) or (not slices and len(calls) != 1):
        ctx.violation("%s file: something other than the single empty probe write reached the file before the first message" % mode, case)
        return False
    for i, (o, out, (a, b)) in enumerate(zip(msgs_obj, outcomes, slices)):
        delta = calls[a:b]
        sub = dict(case, only=i, mode=mode)
        if "raised" in out:
            if not bad[i]:
                report_unfaithful(ctx, "%s file: a message of the documented domain was refused (%s %s)" % (mode, out["raised"], out.get("kind")),
                                  case["msgs"][i], ext, sub)
                ok = False
            if delta:
                ctx.violation("%s file: a refused message still reached the file: %s" % (mode, [c[0] for c in delta]), sub)
                ok = False
            continue
        shape = [c[0] for c in delta]
        if shape != ["w", "f"]:
            ctx.violation("%s file: one logging call made the calls %s instead of exactly one write then one flush" % (mode, shape), sub)
            ok = False
            continue
        if bad[i] and direct_refuses(o, ext):
            ctx.violation("%s file: a message that orjson refuses under this destination's own default function was written all the same" % mode, sub)
            ok = False
            continue
        if bad[i]:
            # outside the documented domain nothing is promised about the content except the framing
            data = delta[0][1]
            nl = NL_T if text else NL_B
            if not data.endswith(nl) or data.count(nl) != 1:
                ctx.violation("%s file: written chunk is not exactly one newline-terminated line" % mode, sub)
                ok = False
            continue
        why = check_line(delta[0][1], text, o, ext)
        if why:
            report_unfaithful(ctx, "%s file: %s" % (mode, why), case["msgs"][i], ext, sub)
            ok = False
    return ok


def content_of(calls, text):
    parts = [c[1] for c in calls if c[0] == "w"]
    return ("" if text else b"").join(parts)


# ---- decode corpus --------------------------------------------------------------------------------

LOADS_CORPUS = ["", "0", "-0", "01", "-", "-01", "1.", "1.e1", "1e", "1e+", "1E+2", "1e-2", "-1E-2", "0.0e0", "1e999", "-1e999", "1.5", "0.1e1",
                "123456789012345678901234567890", "-9223372036854775809", "[1,]", "[,1]", "[", "]", "[]", "{}", "{,}", "[1,2", "[1 2]",
                "{\"a\"}", "{\"a\":}", "{\"a\":1,}", "{1:2}", "{\"a\":1,\"a\":2}", "{\"a\":1,\"b\":2,\"a\":{\"c\":1,\"c\":2}}",
                "\"\\ud83d\\ude00\"", "\"\\ud800\"", "\"\\udc00\\ud800\"", "\"\\ud800\\ud800\\udc00\"", "\"\\uD83D\\uDE00\"", "\"\\ud83dx\"",
                "\"\\/\"", "\"\\x\"", "\"\\u12\"", "\"\\u12G4\"", "\"\\", "\"abc", "\"\"", "\"\x7f\"", "\"\x1f\"", "\"\u2028\"",
                "tru", "true", "truex", "nul", "null", "false", "fals", "nulll", "[null,true,false]", "[[[[[]]]]]", "[[[[[]]]]", "{\"a\":[{\"b\":[]}]}",
                "1,2", "[1]]", "\"a\"\"b\"", "+1", ".5", "0x10", "1e5", "1E5", "-0.0", "[-0]", "2e-2", "10", "100e-2", "9007199254740993"]
SUBST = [ord(c) for c in "[]{},:\"\\-.eE+0123456789tfnulaxs/"] + [0x1F600, 0xE9]


def real_loads(text):
    """(pairs view, dict view) or None"""
    try:
        a = json.loads(text, object_pairs_hook=_Pairs)
        b = json.loads(text)
    except (ValueError, RecursionError):
        return None
    return loaded_canon(a), loaded_canon(b)


def model_jtree(j, pairs):
    k = j["t"]
    if k == "null":
        return ("n",)
    if k == "bool":
        return ("b", j["v"])
    if k == "int":
        return ("i", int(j["v"]))
    if k == "num":
        return ("f", repr(float(j["v"])))
    if k == "str":
        return ("s", "".join(map(chr, j["v"])))
    if k == "arr":
        return ("l", [model_jtree(x, pairs) for x in j["v"]])
    if k == "obj":
        return ("p" if pairs else "d", [("".join(map(chr, kk)), model_jtree(vv, pairs)) for kk, vv in j["v"]])
    return ("?", k)


def loads_in_domain(text):
    # the model does not know JSON whitespace nor the NaN / Infinity literals
    return not any(c in text for c in " \t\n\r") and "N" not in text and "I" not in text


# ---- logging programs ----------------------------------------------------------------------------

class Boom(Exception):
    pass


def g_fields(rng, prof):
    out = []
    for i in range(rng.choice([0, 1, 1, 2, 3])):
        name = "k%d_" % i + "".join(chr(rng.choice([97, 98, 233, 0x1F600, 0x2028, 95])) for _ in range(rng.randint(0, 3)))
        out.append([name, g_value(rng, prof, rng.choice([0, 1, 2]))])
    return out


def g_program(rng, prof, depth):
    ops = []
    for _ in range(rng.randint(1, 3)):
        if depth > 0 and rng.random() < 0.45:
            ops.append({"op": "action", "type": "app:" + rng.choice(["a", "b\n", "c\""]), "fields": g_fields(rng, prof),
                        "body": g_program(rng, prof, depth - 1), "fail": rng.random() < 0.3, "end": g_fields(rng, prof)})
        else:
            ops.append({"op": "msg", "type": rng.choice(["m:1", "m:\u2028", "m\t"]), "fields": g_fields(rng, prof)})
    return ops


def run_program(ops):
    from eliot import start_action, log_message
    for op in ops:
        if op["op"] == "msg":
            log_message(message_type=op["type"], **{k: build(v) for k, v in op["fields"]})
        else:
            try:
                with start_action(action_type=op["type"], **{k: build(v) for k, v in op["fields"]}) as act:
                    run_program(op["body"])
                    act.add_success_fields(**{k: build(v) for k, v in op["end"]})
                    if op["fail"]:
                        raise Boom("boom \u2028\n\"")
            except Boom:
                pass


def feed_logging(ops, ext, via="default", more=()):
    """to_file(binary rec) + to_file(text rec) + a capturing destination (+ binary files with the other default functions
    `more`, registered together with them), then the program; returns (..., [(ext, calls)] for `more`)"""
    import eliot
    from eliot._output import Logger, FileDestination
    recb, rect = RecFile(False), RecFile(True)
    extra = [(e, RecFile(False)) for e in more]
    captured = []
    cap = lambda m: captured.append(dict(m))  # noqa
    dests = Logger._destinations
    before = list(dests._destinations)
    err = None
    try:
        # whatever was logged while no destination was registered (failure reports of the direct groups) is
        # handed to the first destination added: let a throw-away one take it
        drain = lambda m: None  # noqa
        eliot.add_destinations(drain)
        eliot.remove_destination(drain)
        eliot.add_destinations(cap)
        eliot.to_file(recb, **dest_kwargs(ext, via))
        eliot.to_file(rect, **dest_kwargs(ext, via))
        for e, rec in extra:
            eliot.to_file(rec, **dest_kwargs(e, via))
        run_program(ops)
    except Exception as e:  # noqa
        err = type(e).__name__
    finally:
        for d in list(dests._destinations):
            if d not in before:
                try:
                    dests.remove(d)
                except Exception:  # noqa
                    pass
    if more:
        return recb.calls, rect.calls, captured, err, [(e, rec.calls) for e, rec in extra]
    return recb.calls, rect.calls, captured, err


def oracle_logging(ctx, case, ext, callsb, callst, captured, err):
    if err:
        ctx.violation("a logging call raised %s into the program" % err, case)
        return False
    ok = True
    for text, calls in ((False, callsb), (True, callst)) if callst is not None else ((False, callsb),):
        mode = "text" if text else "binary"
        shape = [c[0] for c in calls[1:]]
        if shape != ["w", "f"] * len(captured):
            ctx.violation("%s file under to_file: %d logged messages are serialisable under this file's default function but the file received %s (expected one write + one flush each)"
                          % (mode, len(captured), _rle(shape)), case)
            ok = False
            continue
        for i, m in enumerate(captured):
            why = check_line(calls[1 + 2 * i][1], text, m, ext)
            if why:
                report_unfaithful(ctx, "%s file under to_file, message %d: %s" % (mode, i, why), gtree_of(m), ext, dict(case, only=i))
                ok = False
                break
    if ok and callst is not None:
        try:
            same = content_of(callsb, False).decode("utf-8") == content_of(callst, True)
        except UnicodeError:
            same = False
        if not same:
            ctx.violation("text-mode content differs from binary-mode content", case)
            ok = False
    return ok


def check_logging(ctx, case):
    """run one logging program under to_file (binary + text file with default `ext`, plus binary files with the default
    functions `more`), run the oracles per file against that file's own default, return (#messages, model requests)"""
    ext, via, more = case.get("ext", False), case.get("via", "default"), list(case.get("more") or [])
    r = feed_logging(case["ops"], ext, via, more)
    callsb, callst, captured, err = r[:4]
    extra = r[4] if more else []
    out = []
    # a message orjson itself refuses (asked directly, not through eliot) is reported by eliot as
    # eliot:destination_failure messages and must leave no trace in the file; the oracle is about the
    # accepted ones: one write + one flush each, in order, each line faithful
    accepted = accepted_of(captured, ext)
    if len(accepted) != len(captured):
        ctx.count("programs-with-refused-message")
    ok = oracle_logging(ctx, case, ext, callsb, callst, accepted, err)
    if not ok:
        ctx.count("tie-skipped:oracle-failed")
    files = [(ext, False, callsb, ok), (ext, True, callst, ok)]
    for k, (e, calls) in enumerate(extra):
        okk = oracle_logging(ctx, dict(case, dest=2 + k), e, calls, None, accepted_of(captured, e), err)
        if not okk:
            ctx.count("tie-skipped:oracle-failed")
        files.append((e, False, calls, okk))
    for e, text, calls, fine in files:
        if fine:
            out.append((dict(mreq(e), op="file", mode="text" if text else "binary", msgs=[tree_of(m) for m in captured]),
                        (case, "%s (default %s)" % ("text" if text else "binary", e), calls_for_model(calls))))
    return len(captured), out


def accepted_of(captured, ext):
    """the captured messages orjson itself (asked directly, not through eliot) serialises under this default function"""
    import orjson
    out = []
    for m in captured:
        try:
            orjson.dumps(m, default=default_for(ext))
            out.append(m)
        except Exception:  # noqa
            pass
    return out


def _rle(shape):
    return " ".join(shape[:12]) + (" ..." if len(shape) > 12 else "")


# ---- run ----------------------------------------------------------------------------------------

def check_group(ctx, case):
    """feed one direct group (kind "file": one FileDestination, binary then text; kind "fanout": several destinations with
    different default functions behind one Destinations.send), run the oracles, return the model requests"""
    out = []
    msgs, same, via = case["msgs"], case.get("same") or [None] * len(case["msgs"]), case.get("via", "default")
    if case["kind"] == "fanout":
        files, snaps, mtrees, err = feed_fanout(msgs, same, case["exts"], via)
        if err:
            ctx.violation("Destinations.send / FileDestination raised %s into the caller" % err, case)
            return out
        for k, (ext, text, calls, slices) in enumerate(files):
            bad = [bool(bad_kinds(m, ext)) for m in msgs]
            # Destinations.send swallows what a destination raises: a refusal shows as "nothing written"
            outcomes = [{"ok": True} if b > a else {"raised": "(caught by Destinations.send)", "kind": "?"} for a, b in slices]
            sub = dict(case, dest=k)
            if oracle_direct(ctx, sub, snaps, bad, ext, text, calls, outcomes, slices):
                out.append((dict(mreq(ext), op="file", mode="text" if text else "binary", msgs=mtrees),
                            (sub, "%s (destination %d of %d, default %s)" % ("text" if text else "binary", k, len(files), ext), calls_for_model(calls))))
            else:
                ctx.count("tie-skipped:oracle-failed")
        return out
    ext = case["ext"]
    bad = [bool(bad_kinds(m, ext)) for m in msgs]
    res = {}
    for text in (False, True):
        calls, outcomes, slices, snaps, mtrees = feed_direct(msgs, same, ext, text, via)
        res[text] = calls
        if oracle_direct(ctx, case, snaps, bad, ext, text, calls, outcomes, slices):
            out.append((dict(mreq(ext), op="file", mode="text" if text else "binary", msgs=mtrees),
                        (case, "text" if text else "binary", calls_for_model(calls))))
        else:
            ctx.count("tie-skipped:oracle-failed")
    try:
        eq = content_of(res[False], False).decode("utf-8") == content_of(res[True], True)
    except (UnicodeError, TypeError, AttributeError):
        eq = False
    if not eq:
        ctx.violation("text-mode content differs from binary-mode content", case)
    return out


def check_repo():
    import eliot
    f = os.path.realpath(eliot.__file__)
    if not f.startswith(os.path.realpath(str(REPO)) + os.sep):
        raise InfraError("eliot imported from %s, not from %s" % (f, REPO))
    return f


def run(ctx):
    import sys
    sys.setrecursionlimit(max(sys.getrecursionlimit(), 20000))     # the harness's own walks over 300-deep trees
    ctx.extra["eliot_file"] = check_repo()
    rng = ctx.rng("gen")
    nvalues = ctx.budget(2000, 100000)
    maxchain = ctx.budget(60, 200)
    reqs = []          # model requests
    after = []         # (kind, payload) per request, same order

    # -- 1. values ---------------------------------------------------------------------------------
    values = []
    for i in range(nvalues):
        pname, prof = pick_profile(rng)
        r = rng.random()
        if r < 0.04:
            depth = rng.choice([3, 10, 30, maxchain, maxchain]) if not ctx.quick or i % 7 else rng.choice([3, 10, maxchain])
            g = g_chain(rng, prof, depth)
        elif r < 0.12:
            g = g_leaf(rng, prof)
        else:
            g = g_value(rng, prof, rng.choice([1, 2, 3, 4]))
        values.append((g, prof["ext"], pname))
    for n in LIMIT_DEPTHS:
        values.append((pure_chain(n, "list"), False, "native"))
        values.append((pure_chain(n, "dict"), "own", "native"))
        values.append((pure_chain(n, "mixed", {"t": "list", "tuple": False, "v": []}), True, "native"))
        # the list a set becomes, the dict a complex number becomes and what a caller's default returns count as well
        values.append((pure_chain(n - 1, "mixed", {"t": "set", "v": [{"t": "int", "v": "7"}]}), False, "rich"))
        values.append((pure_chain(n - 1, "list", {"t": "complex", "re": "0x1.0p+0", "im": "-0x0.0p+0"}), True, "rich"))
        values.append((pure_chain(n - 2, "dict", {"t": "custom", "v": pure_chain(2, "list")}), True, "rich"))
        pname, prof = pick_profile(rng)
        values.append((g_chain(rng, prof, n), prof["ext"], pname))
    nloads = 0
    for g, ext, pname in values:
        obj = build(g)
        case = {"kind": "value", "tree": g, "ext": ext}
        esc, bnd, depth, tags = features(g)
        bad = bad_kinds(g, ext)
        ctx.case(case, nontrivial=esc or bnd or depth >= 3,
                 tags=["profile:" + pname, "ext:%s" % ext, "depth:%s" % ("0" if depth == 0 else "1-2" if depth < 3 else "3-9" if depth < 10 else "10-99" if depth < 100 else "100+")]
                 + ["has:" + t for t in sorted(tags)] + (["refused:" + k for k in sorted(bad)] or ["in-domain"]))
        real = real_dumps(obj, ext)
        # oracle on the bare encoder: in-domain values are never refused, decode back to the value,
        # and text == bytes decoded
        why = value_line_complaint(g, ext)
        if why:
            report_unfaithful(ctx, "encoder: %s" % why, g, ext, case)
        if why and "refused by the encoder" not in why:
            ctx.count("tie-skipped:oracle-failed")      # the written text deviates: the model keeps the documented form
        else:
            reqs.append(dict(mreq(ext), op="dumps", v=tree_of(obj)))
            after.append(("dumps", (case, real, bad)))
        if not bad and "t_err" in real and "b_err" not in real:
            ctx.violation("a value of the documented domain was refused by the text encoder: %s" % real.get("t_err"), case)
        if "b" in real and "t" in real and isinstance(real["b"], str) and isinstance(real["t"], list):
            try:
                same = cps(bytes.fromhex(real["b"]).decode("utf-8")) == real["t"]
            except UnicodeError:
                same = False
            if not same:
                ctx.violation("_dumps_unicode(v) differs from _dumps_bytes(v) decoded as UTF-8", case)
            # decode tie on the real output and on damaged copies of it
            if len(real["t"]) <= 6000:
                text = "".join(map(chr, real["t"]))
                texts = [text]
                if rng.random() < 0.5 and len(text) > 1:
                    texts.append(text[: rng.randrange(1, len(text))])
                if rng.random() < 0.5 and text:
                    k = rng.randrange(len(text))
                    texts.append(text[:k] + chr(rng.choice(SUBST)) + text[k + 1:])
                if rng.random() < 0.15:
                    texts.append("{\"a\":%s,\"b\":1,\"a\":%s}" % (text, text[:40] if text[:1] in "0123456789" and text.isdigit() else "null"))
                for tx in texts:
                    if loads_in_domain(tx):
                        reqs.append({"op": "loads", "s": cps(tx)})
                        after.append(("loads", tx))
                        nloads += 1
    for tx in LOADS_CORPUS:
        if loads_in_domain(tx):
            reqs.append({"op": "loads", "s": cps(tx)})
            after.append(("loads", tx))

    # -- 2. message groups through a real FileDestination --------------------------------------------
    ngroups = ctx.budget(260, 9000)
    grng = ctx.rng("groups")
    for gi in range(ngroups):
        pname, prof = pick_profile(grng)
        ext = prof["ext"]
        n = grng.randint(1, 6)
        msgs = [g_message(grng, prof, top_dict=grng.random() < 0.93) for _ in range(n)]
        if gi % 9 == 0:
            msgs.append({"t": "dict", "v": [[{"t": "str", "v": [100]}, g_chain(grng, prof, grng.choice([5, 40, maxchain - 2]))]]})
        if gi % 40 == 7:
            # a message is one more container around its fields: 253 below it is the last depth that is written
            at = grng.randint(0, len(msgs))
            msgs.insert(at, {"t": "dict", "v": [[{"t": "str", "v": [100]}, pure_chain(grng.choice([252, 253, 254, 299]), grng.choice(["list", "dict", "mixed"]))]]})
        via = "encoder" if grng.random() < 0.25 else "default"
        same = [None] * len(msgs)
        if gi % 5 == 3:
            # Destinations.send takes message dictionaries only
            msgs = [m if m["t"] == "dict" else {"t": "dict", "v": [[{"t": "str", "v": [118]}, m]]} for m in msgs]
        if grng.random() < 0.3:
            # the caller logs a dictionary, changes it and logs the same object again
            msgs, same = with_reoffers(grng, msgs, prof)
        if gi % 5 == 3:
            # several destinations with different default functions fed the same objects by Destinations.send
            exts = grng.choice([[True, False], [False, "own"], ["own", True], [True, "own", False], [ext, ext], ["own", False, True]])
            case = {"kind": "fanout", "msgs": msgs, "same": same, "exts": exts, "via": via}
        else:
            case = {"kind": "file", "msgs": msgs, "same": same, "ext": ext, "via": via}
        fs = [features(m) for m in msgs]
        ctx.case(case, nontrivial=any(e or b or d >= 3 for e, b, d, _ in fs),
                 tags=["file-group", "group:" + case["kind"], "profile:" + pname, "group-size:%d" % len(msgs), "file-ext:%s" % ext, "via:" + via]
                 + (["group-with-reoffer"] if any(x is not None for x in same) else [])
                 + (["group-with-refusal"] if any(bad_kinds(m, ext) for m in msgs) else []))
        for req, payload in check_group(ctx, case):
            reqs.append(req)
            after.append(("file", payload))
        ctx.count("messages-direct", n=2 * len(msgs))

    # -- 3. real files (BytesIO / StringIO / files on disk) -------------------------------------------
    real_files(ctx)

    # -- 4. logging programs under to_file --------------------------------------------------------------
    nprogs = ctx.budget(120, 4000)
    prng = ctx.rng("programs")
    for pi in range(nprogs):
        pname, prof = pick_profile(prng)
        prof = dict(prof, bad=0.0 if prng.random() < 0.85 else prof["bad"])
        ext = prof["ext"]
        ops = g_program(prng, prof, 3)
        via = "encoder" if prng.random() < 0.25 else "default"
        # other files with other default functions registered next to them: every destination gets the same dict object
        more = [] if prng.random() < 0.6 else prng.choice([[True], [False], ["own"], ["own", False], [True, "own"], [False, True]])
        case = {"kind": "logging", "ops": ops, "ext": ext, "via": via, "more": more}
        ncap, new = check_logging(ctx, case)
        ctx.case(case, nontrivial=ncap >= 3, tags=["logging-program", "profile:" + pname, "logging-ext:%s" % ext, "via:" + via,
                                                  "logging-destinations:%d" % (2 + len(more))])
        ctx.count("messages-logged", n=ncap)
        for req, payload in new:
            reqs.append(req)
            after.append(("file", payload))

    # -- 5. the model on all of it ------------------------------------------------------------------------
    answers = []
    CH = 20000
    for k in range(0, len(reqs), CH):
        answers += lean_driver("Driver/C10.lean", reqs[k:k + CH])
    tie_enc = "correspondence:encoder-model"
    tie_dec = "correspondence:json.loads-model"
    tie_file = "correspondence:file-call-sequence-model"
    n = {tie_enc: 0, tie_dec: 0, tie_file: 0}
    for (kind, payload), ans in zip(after, answers):
        if "bad" in ans:
            ctx.broken_tie("correspondence:driver", "the model driver rejected a request: %s" % ans["bad"], None)
            continue
        if kind == "dumps":
            case, real, bad = payload
            if "err" in ans:
                mk = MODEL_ERR.get(ans["err"], ans["err"])
                rk = real.get("b_err")
                if rk is None or real.get("t_err") is None:
                    ctx.broken_tie(tie_enc, "model refuses (%s) a value the real encoder serialises" % mk, case)
                elif rk != mk and not (len(bad) > 1 and rk in bad and mk in bad):
                    ctx.broken_tie(tie_enc, "refusal kinds differ: real %s, model %s" % (rk, mk), case)
                else:
                    n[tie_enc] += 1
                    ctx.traces += 1
                    ctx.count("encoder-refusal:" + mk)
            else:
                if real.get("b") != ans["b"] or real.get("t") != ans["t"]:
                    ctx.broken_tie(tie_enc, "encoder output differs from the model (bytes equal: %s, text equal: %s, real error: %s)"
                                   % (real.get("b") == ans["b"], real.get("t") == ans["t"], real.get("b_err")), case)
                else:
                    n[tie_enc] += 1
                    ctx.traces += 1
        elif kind == "loads":
            tx = payload
            real = real_loads(tx)
            if "none" in ans:
                mod = None
            else:
                mod = (model_jtree(ans["v"], True), model_jtree(ans["n"], False))
            ctx.count("loads:accepted" if real is not None else "loads:rejected")
            if real != mod:
                ctx.broken_tie(tie_dec, "json.loads and the model's decode differ", {"kind": "loads", "text": cps(tx)})
            else:
                n[tie_dec] += 1
        else:
            case, mode, calls = payload
            if ans["calls"] != calls:
                ctx.broken_tie(tie_file, "%s file: the real write/flush sequence differs from the model's fileCalls" % mode, case)
            else:
                n[tie_file] += 1
                ctx.traces += 1
    for name in (tie_enc, tie_dec, tie_file):
        if name not in ctx.broken:
            ctx.obligation(name, "correspondence", True, "%d comparisons" % n[name])


def real_files(ctx):
    """the same messages into real binary / text files: io objects and files on disk"""
    rng = ctx.rng("realfiles")
    for gi in range(ctx.budget(12, 200)):
        pname, prof = pick_profile(rng)
        prof = dict(prof, bad=0.0)
        ext = prof["ext"]
        msgs = [g_message(rng, prof) for _ in range(rng.randint(1, 8))]
        # every way an application opens its log: append / write / update / exclusive modes (`io.BufferedWriter`,
        # `io.BufferedRandom`, `io.TextIOWrapper` over either), default and explicit buffer sizes
        case = {"kind": "realfile", "msgs": msgs, "ext": ext,
                "modes": [rng.choice(["ab", "a+b", "w+b", "wb", "ab", "xb", "x+b"]), rng.choice(["a", "a+", "w", "w+", "a", "x"])],
                "buffering": None if rng.random() < 0.6 else rng.choice([16, 4096, 1 << 20]),
                # ... and text streams reconfigured by the application (`write_through` hands every write to the binary layer
                # at once - which still buffers; `line_buffering` flushes at line breaks)
                "text_opts": rng.choice([None, None, "write_through", "line_buffering"])}
        ctx.case(case, nontrivial=True, tags=["real-file-group", "real-file-mode:" + case["modes"][0], "real-file-mode:" + case["modes"][1]], sample=False)
        real_file_case(ctx, case)


def real_file_case(ctx, case):
    from eliot import FileDestination
    msgs, ext = case["msgs"], case["ext"]
    bmode, tmode = case.get("modes") or ["ab", "a"]
    objs = [build(m) for m in msgs]
    with tempfile.TemporaryDirectory(prefix="c10-") as d:
        fb = open(os.path.join(d, "b.log"), bmode, **({"buffering": case["buffering"]} if case.get("buffering") else {}))
        ft = open(os.path.join(d, "t.log"), tmode, encoding="utf-8", newline="")
        if case.get("text_opts"):
            ft.reconfigure(**{case["text_opts"]: True})
        bio, sio = io.BytesIO(), io.StringIO()
        seen, seen_t = [], []
        try:
            for f in (fb, ft, bio, sio):
                dest = FileDestination(file=f, json_default=default_for(ext))
                for o in objs:
                    dest(o)
                    # visible to a reader between calls, without closing: flush happened
                    if f is fb:
                        seen.append(open(os.path.join(d, "b.log"), "rb").read())
                    if f is ft:
                        seen_t.append(open(os.path.join(d, "t.log"), "rb").read())
        except Exception as e:  # noqa
            ctx.violation("FileDestination on a real file raised %s for a message of the documented domain" % type(e).__name__, case)
            return
        finally:
            fb.close()
            ft.close()
        disk_b = open(os.path.join(d, "b.log"), "rb").read()
        disk_t = open(os.path.join(d, "t.log"), "rb").read()
    if not (disk_b == disk_t == bio.getvalue() == sio.getvalue().encode("utf-8")):
        ctx.violation("binary-mode and text-mode files received different content", case)
        return
    lines = disk_b.split(b"\n")
    if lines[-1] != b"" or len(lines) != len(objs) + 1:
        ctx.violation("%d messages gave %d newline-terminated lines" % (len(objs), len(lines) - 1), case)
        return
    for i, (o, l) in enumerate(zip(objs, lines)):
        why = check_line(l + b"\n", False, o, ext)
        if why:
            report_unfaithful(ctx, "real binary file: %s" % why, msgs[i], ext, dict(case, only=i))
    for which, sn in (("binary", seen), ("text", seen_t)):
        acc = b""
        for i, s in enumerate(sn):
            acc += lines[i] + b"\n"
            if s != acc:
                ctx.violation("after logging call %d returned a reader of the %s file (opened %r) saw something other than the %d complete lines"
                              % (i, which, (bmode, tmode)[which == "text"], i + 1), dict(case, flush="not-visible"))
                break


# ---- replay --------------------------------------------------------------------------------------

def replay(ctx, obj):
    import sys
    sys.setrecursionlimit(max(sys.getrecursionlimit(), 20000))
    check_repo()
    case = obj.get("case") or {}
    kind = case.get("kind")
    ext = case.get("ext", False)
    if kind == "value":
        o = build(case["tree"])
        real = real_dumps(o, ext)
        print("real:", {k: (v if not isinstance(v, (str, list)) or len(v) < 400 else "...%d" % len(v)) for k, v in real.items()})
        bad = bad_kinds(case["tree"], ext)
        why = value_line_complaint(case["tree"], ext)
        if why:
            report_unfaithful(ctx, "encoder: %s" % why, case["tree"], ext, case)
            return
        if "b" in real and "t" in real:
            try:
                same = cps(bytes.fromhex(real["b"]).decode("utf-8")) == real["t"]
            except (UnicodeError, TypeError, ValueError):
                same = False
            if not same:
                ctx.violation("_dumps_unicode(v) differs from _dumps_bytes(v) decoded as UTF-8", case)
        msgs = [{"t": "dict", "v": [[{"t": "str", "v": [118]}, case["tree"]]]}]
        case = {"kind": "file", "msgs": msgs, "ext": ext}
        kind = "file"
    if kind in ("file", "realfile", "fanout"):
        base = {k: v for k, v in case.items() if k not in ("only", "mode", "dest", "modes", "buffering", "flush", "text_opts")}
        if kind == "realfile":
            base["kind"] = "file"
            if case.get("flush"):
                real_file_case(ctx, {k: v for k, v in case.items() if k not in ("only", "flush")})
                return
        check_group(ctx, base)
    elif kind == "logging":
        base = {k: v for k, v in case.items() if k not in ("only", "dest")}
        check_logging(ctx, base)
    elif kind == "loads":
        tx = "".join(map(chr, case["text"]))
        print("json.loads:", real_loads(tx))
        print("model     :", lean_driver("Driver/C10.lean", [{"op": "loads", "s": case["text"]}]))
