"""C07 - logging never raises into, or alters, the application."""
import io
import math
import random

from .. import syscorr, sysinterp

PROP = "C07"
LEAN_TARGETS = ["Eliot.Properties.C07"]
AUDIT = "Eliot/Audit/C07.lean"
SKELETON_TARGETS = {"Sys.C07.skeleton_E5": "Eliot.Properties.C07Skel",
                    "Eliot.ShapesSkel.extractor_lookup_shape (E16: get_fields_for_exception - guard, MRO walk, a failing extractor is logged under the guard and yields {})":
                    ("Eliot.Properties.ShapesSkel", "Eliot/Audit/ShapesSkel.lean", ["Eliot.ShapesSkel.extractor_lookup_shape", "Eliot.ShapesSkel.register_shape"])}
THEOREMS = ["Sys.C07.execS_outcome", "Sys.C07.execB_outcome", "Sys.C07.app_outcome_unchanged",
            "Sys.C07.outcome_env_independent", "Sys.C07.exc_identity"]
RULE = ("(a) programs of the core language with failure masks over every serializer / extractor / destination call and exceptions "
        "whose str() raises, aimed at start, end, in-action, context-less messages and at the reports themselves; (b) hostile-value "
        "stream: objects whose __str__/__repr__ raise, non-string dict keys, ints beyond 64 bits, NaN/inf, bytes, lone surrogates, "
        "unsupported objects, nesting to depth 200, logged through real binary and text FileDestinations and a list destination; "
        "non-trivial = at least one injected fault actually reached (a) / at least one hostile value reached a destination (b)")
TRUSTED = ["callbacks raise Exception subclasses (BaseException from a callback is outside the model)",
           "extractors return dicts when they return",
           "MemoryError/RecursionError inside eliot's own frames and warnings-as-errors are outside the model"]
ASSUMPTIONS = ["field names are valid Python keyword names not colliding with the API's own parameter names"]
EXPLANATION = "app_outcome_unchanged for every environment by mutual structural induction; handler structure tied to the source by skeleton E5"
PROFILE = dict(p_ext_reserved=0.25, p_dest_fail=0.4, p_ser_fail=0.35, p_typed=0.5, p_ext_fail=0.6, p_extractor=0.7, p_str_raises=0.4, p_missing_field=0.15,
               p_raise=0.45, n_dests=(1, 3))


def pure_outcome(block, handlers=None):
    """The application's own control flow, computed without eliot."""
    for s in block:
        op = s["op"]
        if op == "raise":
            return ("raised", s["e"])
        if op in ("with", "withHandle", "inContext", "runIn", "continueWith"):
            o = pure_outcome(s["body"])
            if o != "ok":
                return o
        elif op == "try":
            o = pure_outcome(s["body"])
            if o != "ok":
                o = pure_outcome(s["handler"])
                if o != "ok":
                    return o
    return "ok"


def oracle(ctx, case, real, rt):
    faults = len(rt.failures) + rt.ser_calls_failed() + rt.ext_calls_failed()
    ctx.count("faults_reached", n=faults)
    out = real["outcome"]
    if out == "stuck":
        return
    bad = [a for a in rt.api if a[1] != "ok"]
    if bad:
        ctx.violation("eliot API call %s %s" % bad[0], case)
        return
    for tag, what in rt.checks:
        if tag in ("ret", "app-object"):
            ctx.violation(what, case, key={"alters": "extractor-dict"} if tag == "app-object" else None)
            return
    want = pure_outcome(case["prog"])
    got = "ok" if out == "ok" else (("raised", out["raised"]["user"]) if isinstance(out, dict) and "raised" in out and "user" in out["raised"] else out)
    if got != want:
        ctx.violation("program outcome %r differs from the outcome of the application's own control flow %r" % (got, want), case)


# ---- hostile values ------------------------------------------------------------------------

class BadStr:
    def __str__(self):
        raise ValueError("no str")


class BadRepr:
    def __repr__(self):
        raise ValueError("no repr")


class BadBoth:
    def __str__(self):
        raise KeyError("no str")

    __repr__ = __str__


class BadExc(Exception):
    def __str__(self):
        raise RuntimeError("no str for exception")


# exception classes whose __module__ / __name__ are not what one expects of a class
OddModule = type("RemoteError", (Exception,), {"__module__": None})
OddModule2 = type("Weird", (KeyError,), {"__module__": 7})


class OneShot:
    """A one-shot iterator the application still wants to use after logging it (a generator, a file, a DB cursor): logging
    it must not consume it."""
    made = []

    def __init__(self):
        self.left = [1, 2, 3]
        self.touched = None
        OneShot.made.append(self)

    def __iter__(self):
        self.touched = self.touched or "__iter__"
        return self

    def __next__(self):
        self.touched = "__next__"
        if not self.left:
            raise StopIteration
        return self.left.pop(0)


def hostile_value(rng, depth=0):
    r = rng.randrange(17)
    if r == 16:
        return OneShot()
    if r == 0:
        return BadStr()
    if r == 1:
        return BadRepr()
    if r == 2:
        return BadBoth()
    if r == 3:
        return {1: 2, (1, 2): "t"}
    if r == 4:
        return 2 ** rng.choice([63, 64, 65, 200])
    if r == 5:
        return rng.choice([math.nan, math.inf, -math.inf])
    if r == 6:
        return rng.choice([b"bytes", b"\xff\xfe"])
    if r == 7:
        return rng.choice(["\ud800", "a\udfffb"])
    if r == 8:
        return object()
    if r == 9:
        v = []
        for _ in range(rng.choice([5, 200])):
            v = [v]
        return v
    if r == 10:
        return {rng.choice(["k", "\n"]): hostile_value(rng, depth + 1)} if depth < 3 else None
    if r == 11:
        return {BadRepr(): 1}
    if r == 12:
        return [hostile_value(rng, depth + 1) for _ in range(2)] if depth < 3 else []
    if r == 13:
        return BadExc("x")
    return rng.choice([1, "s", None, True, 1.5])


def thrower(e):
    marker = ["kept"]  # noqa: F841 - a local of a frame in the traceback of every exception the hostile programs raise
    raise e


def frames_intact(exc):
    tb = exc.__traceback__
    while tb is not None:
        if tb.tb_frame.f_code is thrower.__code__:
            return tb.tb_frame.f_locals.get("marker") == ["kept"]
        tb = tb.tb_next
    return True


def hostile_run(ctx, i):
    """One hostile program against the real library; returns (api problems, reached?)."""
    import contextvars
    import eliot
    from eliot import _output, _action

    rng = ctx.rng("hostile:%d" % i)
    dst = _output.Logger._destinations
    saved = (dst._destinations, dst._any_added, dst._globalFields)
    dst.__init__()
    seen = []
    problems = []

    def call(name, f, *a, **kw):
        try:
            return f(*a, **kw)
        except BaseException as e:  # noqa
            problems.append("%s raised %s: %r" % (name, type(e).__name__, str(e)[:100] if not isinstance(e, (KeyError,)) else "KeyError"))
            raise _Stop()

    class _Stop(Exception):
        pass

    def listdest(m):
        seen.append(m)

    def body():
        try:
            late = rng.random() < 0.3
            files = [io.BytesIO(), io.StringIO()]
            def add():
                call("to_file(binary)", eliot.to_file, files[0])
                call("to_file(text)", eliot.to_file, files[1])
                call("add_destinations", eliot.add_destinations, listdest)
            if not late:
                add()
            def fields():
                return {k: hostile_value(rng) for k in rng.sample(["a", "b", "c", "d"], rng.randint(1, 3))}
            def block(depth):
                for _ in range(rng.randint(1, 3)):
                    r = rng.random()
                    if r < 0.35 and depth < 3:
                        typed = rng.random() < 0.4
                        if typed:
                            at = eliot.ActionType("h:act", [eliot.Field("a", lambda v: v, "")], [])
                            f = fields(); f.setdefault("a", hostile_value(rng))
                            a = call("ActionType()", at, **{k: v for k, v in f.items() if k == "a"})
                        else:
                            a = call("start_action", eliot.start_action, action_type="h:act", **fields())
                        call("__enter__", a.__enter__)
                        exc = None
                        try:
                            block(depth + 1)
                            if rng.random() < 0.4:
                                e0 = rng.choice([BadExc("boom"), ValueError(hostile_value(rng)), KeyboardInterrupt(), OddModule("odd"), OddModule2("odd2")])
                                if rng.random() < 0.4:
                                    # PEP 678 notes, as `add_note` leaves them or assigned directly (then anything can be in the list)
                                    try:
                                        e0.__notes__ = [rng.choice(["a note", 7, None, hostile_value(rng)]) for _ in range(rng.randint(1, 2))]
                                    except Exception:  # noqa
                                        pass
                                thrower(e0)
                        except _Stop:
                            raise
                        except BaseException as e:  # noqa
                            exc = e
                        if rng.random() < 0.5:
                            call("add_success_fields", a.add_success_fields, **fields())
                        if exc is None:
                            r2 = call("__exit__", a.__exit__, None, None, None)
                        else:
                            r2 = call("__exit__", a.__exit__, type(exc), exc, exc.__traceback__)
                            try:
                                raise exc
                            except BaseException:  # noqa
                                if rng.random() < 0.5:
                                    call("write_traceback", eliot.write_traceback)
                        if r2:
                            problems.append("__exit__ returned a truthy value")
                        if exc is not None and not frames_intact(exc):
                            problems.append("the traceback of the application's exception was altered by the logging calls: the locals of its "
                                            "frames are gone (post-mortem debugging, suspended generators in it)")
                    elif r < 0.72:
                        call("log_message", eliot.log_message, "h:msg", **fields())
                    elif r < 0.8:
                        # write_traceback where no exception is being handled (a `finally:` block, a helper called on both
                        # paths, `logging.error(..., exc_info=True)` through a bridge), or with an exc_info put together by hand
                        how = rng.choice(["none-active", "all-none", "no-traceback", "caught-earlier"])
                        if how == "none-active":
                            call("write_traceback() with no exception being handled", eliot.write_traceback)
                        elif how == "all-none":
                            call("write_traceback(exc_info=(None, None, None))", eliot.write_traceback, exc_info=(None, None, None))
                        elif how == "no-traceback":
                            e = ValueError("made by hand")
                            call("write_traceback(exc_info=(type, exception, None))", eliot.write_traceback, exc_info=(ValueError, e, None))
                        else:
                            try:
                                raise BadExc("earlier")
                            except BadExc as e0:
                                kept = e0
                            call("write_traceback(exc_info of an exception caught earlier)", eliot.write_traceback,
                                 exc_info=(type(kept), kept, kept.__traceback__))
                    else:
                        mt = eliot.MessageType("h:typed", [eliot.Field("a", rng.choice([str, repr, lambda v: v, lambda v: v.nope]), "")])
                        f = fields()
                        call("MessageType.log", mt.log, **f)
            block(0)
            if late:
                add()
            call("log_message", eliot.log_message, "h:last", x=hostile_value(rng))
        except _Stop:
            pass
        if _action.current_action() is not None:
            problems.append("current_action() not None after the program")

    OneShot.made = []
    try:
        contextvars.Context().run(body)
    finally:
        dst._destinations, dst._any_added, dst._globalFields = saved
    for o in OneShot.made:
        if o.touched == "__next__" or o.left != [1, 2, 3]:
            problems.append("a one-shot iterator logged as a field value was consumed by the logging calls (%d of 3 items left)" % len(o.left))
            break
    return problems, len(seen)


def corpus_cases():
    """Hand-written cases that run first (minimised past findings and shapes random generation rarely hits)."""
    from ..sysinterp import builtin_classes
    bi = builtin_classes()
    ids = {k: cid for cid, k in bi.items()}
    classes = [dict(id=cid, name=k.__name__, bases=[], mro=[ids[c] for c in k.__mro__ if c in ids],
                    qualname="%s.%s" % (k.__module__, k.__name__)) for cid, k in sorted(bi.items())]
    classes += [dict(id=0, name="C0", bases=[101], mro=[0, 101, 100], qualname="vmod.C0", falsy=False),
                dict(id=1, name="C1", bases=[101], mro=[1, 101, 100], qualname="vmod.C1", falsy=False)]
    excs = [dict(id=0, cls=0, str="exc0"), dict(id=8, cls=1, str="cb8"), dict(id=9, cls=0, str="cb9")]
    always = lambda e: [[4294967295, e]]
    # two extractors, each permanently failing with an exception the OTHER one is registered for
    env = dict(classes=classes, excs=excs, keyErrorClass=105,
               extractors=[dict(cls=0, fields=[["ex0", {"n": 0}]], failAt=always(8)),
                           dict(cls=1, fields=[["ex1", {"n": 1}]], failAt=always(9))],
               serFail=[], destFail=[])
    prog = [dict(op="addDests", ds=[0]),
            dict(op="try", body=[dict(op="with", task=False, spec=dict(atype="app:a#1", fields=[], sers=None),
                                      body=[dict(op="log", ms=dict(mtype="app:m1", fields=[], sers=None)), dict(op="raise", e=0)])],
                 handler=[dict(op="tb")])]
    return [dict(env=env, prog=prog)]


def run(ctx):
    from ..framework import lean_driver, canon
    for case in corpus_cases():
        real, rt = sysinterp.run_case(case)
        sysinterp.Runtime.ser_calls_failed = lambda self: 0
        sysinterp.Runtime.ext_calls_failed = lambda self: 0
        mo = lean_driver("Driver/Sys.lean", [case])[0]
        ctx.case(case, nontrivial=True, tags=["corpus"], sample=False)
        if any(canon(real.get(k)) != canon(mo.get(k)) for k in ("outcome", "offered", "accepted")):
            ctx.broken_tie("correspondence:sys-model", "corpus case: real and model differ", case)
        oracle(ctx, case, real, rt)
    sysinterp.Runtime.ser_calls_failed = lambda self: sum(1 for k in self.ser_fail if k < self.ser_calls)
    sysinterp.Runtime.ext_calls_failed = lambda self: 0
    n = ctx.budget(450, 15000)
    syscorr.run_programs(ctx, n, PROFILE, oracle, nontrivial=lambda c, r, s: len(r["accepted"]) < len(r["offered"]) or
                         any(m.get("message_type") in ("eliot:traceback", "eliot:serialization_failure") for _, m in r["offered"]),
                         compare=["outcome", "offered", "accepted"])
    nh = ctx.budget(250, 8000)
    for i in range(nh):
        problems, reached = hostile_run(ctx, i)
        ctx.case({"hostile": i, "seed": ctx.seed}, nontrivial=reached > 0, tags=["hostile"], sample=(i < 2))
        ctx.count("hostile_messages_delivered", n=reached)
        if problems:
            ctx.violation("hostile values: " + problems[0], {"hostile": i, "seed": ctx.seed})
            break


def replay(ctx, obj):
    case = obj["case"]
    if "hostile" in case:
        ctx.seed = case["seed"]
        problems, reached = hostile_run(ctx, case["hostile"])
        print(problems)
        if problems:
            ctx.violation("hostile values: " + problems[0], case)
        return
    sysinterp.Runtime.ser_calls_failed = lambda self: 0
    sysinterp.Runtime.ext_calls_failed = lambda self: 0
    real, rt = sysinterp.run_case(case)
    print(real["outcome"], [a for a in rt.api if a[1] != "ok"][:3])
    oracle(ctx, case, real, rt)
