"""C15 - decorated generators keep their own action context and stay transparent.

Case = table of generator bodies (flat instruction lists, see lean/Eliot/Conc/Gen.lean) + driver
script.  Each case is run three times: with the real generator functions undecorated ("plain"),
decorated with the real `eliot_friendly_generator_function` ("wrapped"), and on the Lean model
(Driver/C15.lean, both flag settings).  Oracles (model-free) compare wrapped with plain and
check `current_action()` in the driver / inside the bodies; the model comparison is the tie.
"""
import itertools

from ..framework import lean_driver

PROP = "C15"
LEAN_TARGETS = ["Eliot.Properties.C15"]
AUDIT = "Eliot/Audit/C15.lean"
THEOREMS = [
    "Gen.C15.gen_ctx_private", "Gen.C15.driver_ctx_untouched", "Gen.C15.nested_wrapped",
    "Gen.C15.wrapper_transparent",
    # about the OLD shape of the wrapper (`except StopIteration: break`), kept as the record of the repaired defect:
    "Gen.C15.wrapper_transparent_partial", "Gen.C15.wrapper_drops_return_value",
    "Gen.C15.wrapFixed_transparent",
]
SKELETON_TARGETS = {"Gen.C15.skeleton_E15b (inline_callbacks = inlineCallbacks . eliot_friendly_generator_function)": "Eliot.Properties.C15Skel"}
GENERATED_OBLIGATIONS = ["Generated.genWrapper = Gen.C15.assumedWrapper (E15: shape of the wrapper loop; Gen.keepsReturn follows its `stop` field)"]
RULE = ("bodies: random well-bracketed instruction lists (enter/exit of own actions spanning yields, log=observe current_action, "
        "yield v / yield last-received, try/catch(Thrown | bare), raise (application exceptions, GeneratorExit, KeyboardInterrupt / SystemExit / CancelledError), return v, resume of a higher-numbered generator with send/throw/close); "
        "thrown exception instances have been raised and caught before (they carry a traceback and a __cause__; the body records whether "
        "the innermost frames of the traceback it sees are still the original ones); values (sent, yielded, returned) come from a pool compared by identity: None, small ints, a tuple, exception instances "
        "(also BaseException ones and the object used by throw) and an exception class used as plain data; "
        "1-4 generators, the script interleaves resumptions (send None/value, throw, close) with the driver entering/leaving up to 3 "
        "surrounding actions; a quarter of the resumptions is made from another contextvars.Context than the driver's own "
        "(copy_context().run, Context().run, another thread); non-trivial = some generator is resumed from >= 2 different driver actions and observes its context; "
        "distinct by canonical hash")
TRUSTED = ["Twisted's inlineCallbacks is the driver of eliot.twisted.inline_callbacks and is not modelled; skeleton E15b checks that it is handed "
           "the decorated generator, one real run goes through harness/stubs_inline (a stand-in, not Twisted)",
           "CPython's generator protocol and contextvars (Context.run, copy_context, Token) are modelled (Gen.proto, World), validated by the 3-way comparison",
           "the body interpreter (one real generator function that walks the instruction list) stands for arbitrary generator bodies"]
ASSUMPTIONS = ["application exceptions thrown into generators are ordinary Exception instances (not StopIteration / GeneratorExit objects thrown by hand)",
               "a generator body only resumes generators with a higher index (no re-entrant resumption of an executing generator)",
               "bodies do not branch on current_action() (their I/O is context-independent); the context they see is observed separately"]
EXPLANATION = ("theorems over Gen.proto (generator protocol), the transliterated wrapper loop and the context world model; "
               "model tied to the code by comparing outputs, driver context and in-body observations on every case")

DRIVER_ACTIONS = [1, 2, 3]


# ---- generation -----------------------------------------------------------------------------

def gen_block(rng, i, ngen, depth, ctr, budget, allow_ret_val):
    """structured body block -> flat instruction list"""
    out = []
    n = rng.randint(1, 4)
    for _ in range(n):
        if budget[0] <= 0:
            break
        budget[0] -= 1
        r = rng.random()
        if r < 0.22:
            out.append(["yield", rand_val(rng, 0.3)])
        elif r < 0.30:
            out.append(["yieldLast"])
        elif r < 0.46:
            out.append(["log", next(ctr)])
        elif r < 0.54 and depth < 3:
            # `with start_action(..):` - left through `__exit__(type, value, tb)` when an exception (a thrown one, the
            # GeneratorExit of close()) passes; what follows the block in a handler runs in the enclosing context again
            a = 1000 * (i + 1) + next(ctr)
            out.append(["wenter", a])
            out += gen_block(rng, i, ngen, depth + 1, ctr, budget, allow_ret_val)
            if rng.random() < 0.5:
                out.append(["yield", rng.randint(0, 9)])
            out.append(["log", next(ctr)])
            out.append(["wexit"])
        elif r < 0.62 and depth < 3:
            a = 1000 * (i + 1) + next(ctr)
            out.append(["enter", a])
            out += gen_block(rng, i, ngen, depth + 1, ctr, budget, allow_ret_val)
            out.append(["log", next(ctr)])
            if rng.random() < 0.9:
                out.append(["exit"])
        elif r < 0.74 and depth < 3:
            out.append(["try"])
            out += gen_block(rng, i, ngen, depth + 1, ctr, budget, allow_ret_val)
            if rng.random() < 0.3:
                out.append(["yield", rng.randint(0, 9)])
            out.append(["catch", rng.random() < 0.3])
            out.append(["log", next(ctr)])
            out += gen_block(rng, i, ngen, depth + 1, ctr, budget, allow_ret_val)
            out.append(["endcatch"])
        elif r < 0.78:
            out.append(["raise", rand_exc(rng)])
        elif r < 0.82:
            out.append(["exit"])
        elif r < 0.87:
            out.append(["ret", rand_val(rng, 0.4) if allow_ret_val else None])
        elif i + 1 < ngen:
            j = rng.randint(i + 1, ngen - 1)
            out.append(["resume", j, gen_inp(rng, 0.7)])
            if rng.random() < 0.5:
                out.append(["log", next(ctr)])
        else:
            out.append(["yield", rng.randint(0, 9)])
    return out


def rand_exc(rng):
    """exception ids: 0-3 application exceptions (class Thrown), 4 a GeneratorExit instance, 5 the class GeneratorExit
    (`g.throw(GeneratorExit)`, the explicit spelling of cancellation), 6-8 BaseException-only objects"""
    return rng.randint(0, 3) if rng.random() < 0.7 else rng.randint(4, 8)


def gen_inp(rng, p_none):
    r = rng.random()
    if r < 0.12:
        return ["throw", rand_exc(rng)]
    if r < 0.18:
        return ["close"]
    if rng.random() < p_none:
        return ["send", None]
    return ["send", rand_val(rng, 0.0)]


def gen_case(rng, big):
    ngen = rng.choice([1, 1, 2, 2, 3, 4] if big else [1, 2, 2, 3])
    ctr = itertools.count(1)
    family = rng.choice(["ret-none", "ret-none", "ret-val"])
    gens = []
    for i in range(ngen):
        budget = [rng.randint(4, 14)]
        code = gen_block(rng, i, ngen, 0, ctr, budget, family == "ret-val")
        while budget[0] > 6:
            code += gen_block(rng, i, ngen, 0, ctr, budget, family == "ret-val")
        if rng.random() < 0.5:
            code.append(["ret", rand_val(rng, 0.4) if family == "ret-val" else None])
        gens.append(code)
    script = []
    started = set()
    for _ in range(rng.randint(3, 16 if big else 12)):
        r = rng.random()
        if r < 0.17:
            script.append(["enter", rng.choice(DRIVER_ACTIONS)])
        elif r < 0.32:
            script.append(["exit", "finish"] if rng.random() < 0.4 else ["exit"])
        else:
            i = rng.randrange(ngen)
            inp = gen_inp(rng, 0.92 if i not in started else 0.4)
            started.add(i)
            step = ["resume", i, inp]
            if rng.random() < 0.25:
                # the resumption is made from another contextvars.Context than the driver's own
                step.append(rng.choice(["copy", "fresh", "thread"]))
            script.append(step)
    return dict(gens=gens, script=script, family=family)


# ---- real side ------------------------------------------------------------------------------

class Thrown(Exception):
    def __init__(self, n):
        Exception.__init__(self, n)
        self.n = n


class Env(object):
    pass


# Values that cross the wrapper are opaque to the model (a Nat id); on the real side ids 0-9 are the ints
# themselves and ids >= 10 are objects compared BY IDENTITY, among them exception instances and classes used
# as plain data (a decorated generator must hand them over like any other value).
SPECIAL_VALUES = [10, 11, 12, 13, 14, 15, 16]


def make_pool(env):
    return {10: env.E[0],                       # the very object that `throw` uses, sent as data
            11: ValueError("data"),             # an exception instance as data
            12: KeyError,                       # an exception class as data
            13: (1, "t"),                       # a tuple
            14: GeneratorExit("data"),          # BaseException instances as data
            15: StopIteration(5),
            16: (ValueError, ValueError("x"), None)}   # looks like exc_info()


def to_val(env, v):
    if v is None or v < 10:
        return v
    return env.V[v]


def from_val(env, obj):
    if obj is None:
        return None
    for k, o in env.V.items():
        if o is obj:
            return k
    if isinstance(obj, int) and not isinstance(obj, bool) and 0 <= obj < 10:
        return obj
    return "foreign:%s" % (repr(obj)[:60],)


def rand_val(rng, p_none=0.3):
    r = rng.random()
    if r < p_none:
        return None
    if r < p_none + 0.3:
        return rng.choice(SPECIAL_VALUES)
    return rng.randint(0, 9)


def exc_name(env, e):
    if isinstance(e, Thrown):
        for n, x in enumerate(env.E):
            if x is e:
                return "user:%d" % n
        return "user-copy:%s" % getattr(e, "n", "?")
    if isinstance(e, GeneratorExit):
        return "genExit"
    for n in (6, 7, 8):
        if env.E[n] is e:
            return "base:%d" % n
    if not isinstance(e, Exception):
        return "base-copy:%s" % type(e).__name__
    msg = str(e)
    if isinstance(e, TypeError) and "just-started" in msg:
        return "typeErr"
    if isinstance(e, RuntimeError) and "ignored GeneratorExit" in msg:
        return "ignoredExit"
    if isinstance(e, ValueError) and "different Context" in msg:
        return "tokenCtx"
    return "other:%s:%s" % (type(e).__name__, msg[:80])


def aid(env, act):
    """model id of a real Action object (None -> None)"""
    if act is None:
        return None
    return env.ids.get(id(act), "unknown-action")


def do_resume(env, g, inp):
    """resume generator object g; returns (out-json, exception object or None)"""
    try:
        if inp[0] == "send":
            v = g.send(to_val(env, inp[1]))
        elif inp[0] == "throw":
            v = g.throw(env.E[inp[1]])
        else:
            r = g.close()
            return {"r": from_val(env, r)}, None
        return {"y": from_val(env, v)}, None
    except StopIteration as s:
        return {"r": from_val(env, s.value)}, None
    except BaseException as e:  # noqa  - an observation, never a harness crash
        return {"x": exc_name(env, e)}, e


ORIGIN = ["make_raised", "_origin"]


def _origin(exc, cause):
    try:
        raise cause
    except BaseException:  # noqa
        raise exc from cause          # __cause__ and __context__ are both `cause`


def make_raised(exc, cause):
    try:
        _origin(exc, cause)
    except BaseException as e:  # noqa
        return e


def note_traceback(env, i, e):
    """An exception of the pool arrived at a `yield` of body i.  What is recorded (and compared between the undecorated and
    the decorated run): whether the INNERMOST frames of its traceback, as the body sees it, are still the frames where it was
    originally raised (make_raised -> _origin; frames added at the outer end on the way in - the body's own, the wrapper's -
    are not compared), and whether __cause__ / __context__ are still the original object."""
    import traceback

    for n, x in enumerate(env.E):
        if x is e:
            names = [f.name for f in traceback.extract_tb(e.__traceback__)]
            env.tbs.append(dict(gen=i, exc=n, origin_frames_innermost=names[-len(ORIGIN):] == ORIGIN,
                                cause=e.__cause__ is env.CAUSE and e.__context__ is env.CAUSE))
            return


def resume_via(env, g, inp, via):
    """resume g from the driver's own Context (via None), from a copy of it (`copy_context().run(g.send, v)`),
    from an empty one (`Context().run(...)`) or from another thread"""
    import contextvars
    import threading
    from eliot import current_action

    box = {}

    def go():
        before = aid(env, current_action())
        env.pending_base = before
        box["out"] = do_resume(env, g, inp)[0]
        if via is not None:
            # what the resumer's own Context holds afterwards (a copied / empty Context or another thread: not the driver's)
            env.foreign.append(dict(via=via, inp=inp[0], before=before, after=aid(env, current_action())))

    try:
        if via is None:
            go()
        elif via == "copy":
            contextvars.copy_context().run(go)
        elif via == "fresh":
            contextvars.Context().run(go)
        else:
            t = threading.Thread(target=go, daemon=True)
            t.start()
            t.join(20)
    except BaseException as e:  # noqa - an observation
        return {"x": "harness:%s" % type(e).__name__}
    return box.get("out", {"x": "harness:no-result"})


def body(env, i, code):
    """The generator function that is (or is not) decorated: walks the flat instruction list with
    exactly the semantics of Gen.runCode."""
    from eliot import start_action, current_action

    st = env.st[i]
    base = current_action()
    # tag 0: the context the body starts in vs. the current action of whoever resumed it first
    env.obs.append(dict(gen=i, tag=0, seen=aid(env, base), expected=env.pending_base))
    acts = st["acts"]
    mode = ("normal",)
    pc = 0
    while pc < len(code):
        ins = code[pc]
        pc += 1
        op = ins[0]
        if mode[0] == "prop":
            if op in ("try", "wenter"):
                # a `try` or `with` block that starts after the point where the exception arose: skipped as a whole
                mode = ("prop", mode[1], mode[2] + 1)
            elif op == "wexit":
                if mode[2] > 0:
                    mode = ("prop", mode[1], mode[2] - 1)
                elif acts:
                    # the exception leaves a `with <action>:` block: `__exit__(type, value, traceback)`; whatever it returns,
                    # a real `with` would go on raising unless the value is true (recorded as an observation)
                    a = acts.pop()
                    e = mode[1]
                    ev = e() if isinstance(e, type) else e
                    try:
                        r = a.__exit__(type(ev), ev, ev.__traceback__)
                        if r:
                            env.obs.append(dict(gen=i, tag=-1, seen="__exit__ returned a true value", expected=None))
                    except Exception as e2:  # noqa - e.g. the token belongs to another Context
                        mode = ("prop", e2, 0)
            elif op == "catch":
                if mode[2] == 0:
                    if isinstance(mode[1], Thrown) or ins[1]:
                        mode = ("normal",)
            elif op == "endcatch":
                mode = ("prop", mode[1], max(mode[2] - 1, 0))
            continue
        if mode[0] == "skip":
            if op == "try":
                mode = ("skip", mode[1] + 1)
            elif op == "endcatch":
                mode = ("normal",) if mode[1] == 0 else ("skip", mode[1] - 1)
            continue
        try:
            if op in ("enter", "wenter"):
                a = start_action(action_type="g%d:a%d" % (i, ins[1]))
                env.ids[id(a)] = ins[1]
                env.keep.append(a)
                a.__enter__()
                acts.append(a)
            elif op in ("exit", "wexit"):
                if acts:
                    a = acts.pop()
                    a.__exit__(None, None, None)
            elif op == "log":
                seen = current_action()
                exp = acts[-1] if acts else base
                env.obs.append(dict(gen=i, tag=ins[1], seen=aid(env, seen), expected=aid(env, exp)))
            elif op == "raise":
                mode = ("prop", env.E[ins[1]], 0)
            elif op == "resume":
                before = current_action()
                env.pending_base = aid(env, before)
                out, e = do_resume(env, env.gens[ins[1]], ins[2])
                after = current_action()
                env.events.append(dict(kind="nested", by=i, gen=ins[1], out=out))
                env.nested.append(dict(by=i, gen=ins[1], before=aid(env, before), after=aid(env, after), same=before is after))
                if e is not None:
                    mode = ("prop", e, 0)
                else:
                    lv = out.get("y", out.get("r"))
                    st["last"] = to_val(env, lv) if (lv is None or isinstance(lv, int)) else lv
        except Exception as e:  # noqa  - eliot raised inside the body: it propagates like any exception
            mode = ("prop", e, 0)
            continue
        if op in ("yield", "yieldLast"):
            v = to_val(env, ins[1]) if op == "yield" else st["last"]
            try:
                st["last"] = yield v
            except BaseException as e:  # noqa
                mode = ("prop", e, 0)
                note_traceback(env, i, e)
        elif op == "ret":
            return to_val(env, ins[1])
        elif op == "catch":
            mode = ("skip", 0)
    if mode[0] == "prop":
        raise mode[1]
    return None


def run_real(case, wrapped):
    """-> dict(steps, obs, events, nested, bases).  Every run gets a fresh, empty thread-level
    contextvars.Context, so nothing leaks from one case into the next."""
    import contextvars

    return contextvars.Context().run(_run_real, case, wrapped)


def _run_real(case, wrapped):
    from eliot import start_action, current_action
    from eliot._generators import eliot_friendly_generator_function

    env = Env()
    import asyncio
    # every exception INSTANCE has really been raised and caught before it is thrown into a generator: it carries a
    # traceback (frames make_raised -> _origin) and a __cause__
    env.CAUSE = KeyError("cause")
    env.E = [make_raised(Thrown(n), env.CAUSE) for n in range(4)] + [make_raised(GeneratorExit("thrown"), env.CAUSE), GeneratorExit,
            make_raised(KeyboardInterrupt("k"), env.CAUSE), make_raised(SystemExit(3), env.CAUSE),
            make_raised(asyncio.CancelledError("c"), env.CAUSE)]
    env.tbs = []
    env.V = make_pool(env)
    env.ids, env.keep, env.obs, env.events, env.nested = {}, [], [], [], []
    env.foreign = []
    env.pending_base = None
    env.st = [dict(acts=[], last=None) for _ in case["gens"]]
    fn = body
    if wrapped:
        try:
            fn = eliot_friendly_generator_function(body)
        except Exception as e:  # noqa
            return dict(crash="decorating raised %s" % type(e).__name__)
    A = {}
    for a in DRIVER_ACTIONS:
        A[a] = start_action(action_type="d%d" % a)
        env.ids[id(A[a])] = a
    env.gens = []
    for i, code in enumerate(case["gens"]):
        try:
            env.gens.append(fn(env, i, code))
        except Exception as e:  # noqa
            return dict(crash="creating the generator raised %s" % type(e).__name__)
    stack = []
    steps = []
    try:
        for s in case["script"]:
            before = current_action()
            out = None
            if s[0] == "enter":
                cm = A[s[1]].context()
                cm.__enter__()
                stack.append((cm, s[1]))
            elif s[0] == "exit":
                if stack:
                    cm, a = stack.pop()
                    cm.__exit__(None, None, None)
                    if len(s) > 1 and s[1] == "finish":
                        # the surrounding action ends here (a generator started in it may outlive it); the driver's next
                        # action of that number is a new one
                        A[a].finish()
                        env.keep.append(A[a])
                        A[a] = start_action(action_type="d%d" % a)
                        env.ids[id(A[a])] = a
            else:
                out = resume_via(env, env.gens[s[1]], s[2], s[3] if len(s) > 3 else None)
                env.events.append(dict(kind="top", gen=s[1], out=out))
            after = current_action()
            steps.append(dict(out=out, before=aid(env, before), after=aid(env, after), same=before is after))
    finally:
        while stack:
            try:
                stack.pop()[0].__exit__(None, None, None)
            except Exception:  # noqa
                pass
    res = dict(steps=steps, obs=list(env.obs), events=list(env.events), nested=list(env.nested), tbs=list(env.tbs), foreign=list(env.foreign))
    # finish every generator now (a body may ignore GeneratorExit a few times), so that nothing is
    # left to the garbage collector; not part of the observation
    for g, code in zip(env.gens, case["gens"]):
        for _ in range(len(code) + 2):
            try:
                g.close()
                break
            except BaseException:  # noqa
                pass
    return res


# ---- oracles --------------------------------------------------------------------------------

def strip(case):
    return dict(gens=case["gens"], script=case["script"])


def oracle(ctx, case, plain, wrapped):
    """model-free.  Returns True iff silent."""
    c = strip(case)
    ok = True
    if "crash" in wrapped or "crash" in plain:
        ctx.violation("decorated generator function could not be used: %s" % (wrapped.get("crash") or plain.get("crash")), c,
                      key={"component": "crash"})
        return False
    # (1) transparency: chronological I/O events (top-level resumptions and resumptions from inside bodies)
    ev_p, ev_w = plain["events"], wrapped["events"]
    for k in range(max(len(ev_p), len(ev_w))):
        p = ev_p[k] if k < len(ev_p) else None
        w = ev_w[k] if k < len(ev_w) else None
        if p == w:
            continue
        if p and w and p["kind"] == w["kind"] and p["gen"] == w["gen"] and "r" in (p["out"] or {}) and (w["out"] or {}) == {"r": None}:
            ok = False
            ctx.violation("return value %r of generator %d becomes None through the wrapper (%s resumption)" % (p["out"]["r"], p["gen"], p["kind"]),
                          c, key={"component": "return-value"}, extra=dict(event=k, plain=p, wrapped=w))
            if p["kind"] == "top":
                # a finished top-level generator: the lost value influences nothing downstream, keep comparing
                continue
            break
        # classified by what the plain generator did at this point
        po, wo = (p or {}).get("out") or {}, (w or {}).get("out") or {}
        ref = po or wo
        comp = "exception" if "x" in ref else "yielded-or-sent" if "y" in ref else "return-or-close" if "r" in ref else "output"
        ok = False
        ctx.violation("I/O trace of the decorated generator differs from the plain one at event %d: plain %s, wrapped %s" % (k, p, w),
                      c, key={"component": comp}, extra=dict(event=k, plain=p, wrapped=w))
        break
    # (1b) a thrown exception that already carries a traceback arrives with it: innermost frames and __cause__ as in the plain run
    tp, tw = plain.get("tbs", []), wrapped.get("tbs", [])
    for k in range(max(len(tp), len(tw))):
        a = tp[k] if k < len(tp) else None
        b = tw[k] if k < len(tw) else None
        if a != b or (b is not None and not (b["origin_frames_innermost"] and b["cause"])):
            ok = False
            ctx.violation("exception %s thrown into generator %s: traceback / cause as seen by the body: plain %s, decorated %s" %
                          ((b or a)["exc"], (b or a)["gen"], a, b), c, key={"component": "traceback"})
            break
    # (2) resuming never changes the resumer's current action (wrapped run)
    for k, s in enumerate(wrapped["steps"]):
        if s["out"] is not None and not s["same"]:
            ok = False
            ctx.violation("driver's current_action() changed from %s to %s by resuming a decorated generator (step %d)" % (s["before"], s["after"], k),
                          dict(c, script=case["script"][: k + 1]), key={"component": "driver-context"})
            break
    for n in wrapped["nested"]:
        if not n["same"]:
            ok = False
            ctx.violation("current_action() of generator %d changed from %s to %s by resuming decorated generator %d from its body" % (n["by"], n["before"], n["after"], n["gen"]),
                          c, key={"component": "nested-driver-context"})
            break
    # (2b) a resumption made from another Context leaves in that Context either what was current there or an action of a
    # generator's own that is now open in it (plain generators do that) - never somebody else's action, such as the one
    # that was current where the block being left had been entered
    own_ids = {ins[1] for code in case["gens"] for ins in code if ins[0] in ("enter", "wenter")}
    for which, run in (("plain", plain), ("decorated", wrapped)):
        for f in run.get("foreign", []):
            a, b = f["before"], f["after"]
            if which == "decorated" and a != b:
                ok = False
                ctx.violation("a decorated generator resumed (%s) from another Context (%s) changed that Context's current action from %s to %s"
                              % (f["inp"], f["via"], a, b), c, key={"component": "foreign-context"})
                break
            if which == "plain" and a != b and b not in own_ids:
                ok = False
                ctx.violation("a generator resumed (%s) from another Context (%s) left there the current action %s (it was %s): neither what "
                              "was current there nor an action of the generator's own" % (f["inp"], f["via"], b, a), c, key={"component": "foreign-context"})
                break
    # (3) inside the body: own innermost action, else the one current where it was first resumed
    for o in wrapped["obs"]:
        if o["seen"] != o["expected"]:
            ok = False
            if o["tag"] == 0:
                ctx.violation("generator %d started in context %s, but it was first resumed from %s" % (o["gen"], o["seen"], o["expected"]), c,
                              key={"component": "first-resume-context"})
            else:
                ctx.violation("body of generator %d saw current_action() = %s, its own context says %s (log %d)" % (o["gen"], o["seen"], o["expected"], o["tag"]),
                              c, key={"component": "body-context"})
            break
    return ok


def view(run):
    """what is compared with the model"""
    return dict(steps=[dict(out=s["out"], before=s["before"], after=s["after"]) for s in run["steps"]], obs=run["obs"],
                nested=[dict(by=n["by"], gen=n["gen"], before=n["before"], after=n["after"]) for n in run["nested"]])


def model_cases(case):
    return [dict(gens=[dict(wrapped=w, code=code) for code in case["gens"]], script=case["script"]) for w in (False, True)]


def evaluate(ctx, cases, tag):
    lines = []
    for c in cases:
        lines += model_cases(c)
    model = lean_driver("Driver/C15.lean", lines)
    for n, c in enumerate(cases):
        plain = run_real(c, False)
        wrapped = run_real(c, True)
        # reference for transparency: the undecorated generators driven from the driver's own Context only (a plain
        # generator resumed from several Contexts is not a reference: its actions cannot even be left there)
        if any(len(s) > 3 for s in c["script"]):
            plain_ref = run_real(dict(c, script=[s[:3] for s in c["script"]]), False)
            ctx.count("resumed-from-other-context", n=sum(1 for s in c["script"] if len(s) > 3))
        else:
            plain_ref = plain
        m_plain, m_wrapped = model[2 * n], model[2 * n + 1]
        # non-triviality: a generator resumed from >= 2 distinct driver actions that observes its context
        froms = {}
        if "steps" in wrapped:
            for s, st in zip(c["script"], wrapped["steps"]):
                if s[0] == "resume":
                    froms.setdefault(s[1], set()).add(st["before"])
        observers = {o["gen"] for o in wrapped.get("obs", [])}
        nt = any(len(v) >= 2 and g in observers for g, v in froms.items())
        kinds = {s[2][0] for s in c["script"] if s[0] == "resume"}
        ctx.case(strip(c), nontrivial=nt, tags=[tag, "ngen:%d" % len(c["gens"]), "family:" + c.get("family", "fixed")] + ["inp:" + k for k in sorted(kinds)]
                 + (["nested"] if wrapped.get("nested") else []))
        ctx.count("resumptions", n=sum(1 for s in c["script"] if s[0] == "resume"))
        ctx.count("observations", n=len(wrapped.get("obs", [])))
        # (the undecorated run *with* its resumptions from other Contexts is still judged for what it leaves in those Contexts)
        oracle(ctx, c, dict(plain_ref, foreign=plain.get("foreign", [])), wrapped)
        if "bad" in m_plain or "bad" in m_wrapped:
            ctx.broken_tie("correspondence:generator-model", "model rejected the case: %s" % (m_plain.get("bad") or m_wrapped.get("bad")), strip(c))
            continue
        if "badGen" in str(m_wrapped) or "badGen" in str(m_plain):
            ctx.count("out_of_domain")
            continue
        good = True
        for name, real, mod in (("plain", plain, m_plain), ("wrapped", wrapped, m_wrapped)):
            if "crash" in real:
                good = False
                ctx.broken_tie("correspondence:generator-model", "%s run: %s" % (name, real["crash"]), strip(c))
                continue
            rv = view(real)
            if rv != mod:
                good = False
                k = next((k for k, (a, b) in enumerate(zip(rv["steps"], mod["steps"])) if a != b), None)
                ctx.broken_tie("correspondence:generator-model",
                               "%s run differs from the model (%s)" % (name, "step %d" % k if k is not None else "in-body observations / nested resumptions"),
                               dict(strip(c), real=rv["steps"][k] if k is not None else [rv["obs"], rv["nested"]],
                                    model=mod["steps"][k] if k is not None else [mod["obs"], mod.get("nested")]))
        if good:
            ctx.traces += 1


# ---- eliot.twisted.inline_callbacks, the real function, over a stand-in for Twisted ----------------------

def run_inline_callbacks():
    """One real-code run of `eliot.twisted.inline_callbacks` (harness/stubs_inline carries a minimal Deferred / Failure /
    inlineCallbacks; Twisted itself is not installed): a generator with an action across two yields whose Deferreds are
    fired later, from other action contexts.  -> list of (what, ok) checks."""
    import contextvars
    import sys
    from pathlib import Path

    stub = str(Path(__file__).resolve().parent.parent / "stubs_inline")

    def purge():
        gone = {}
        for k in list(sys.modules):
            if k == "twisted" or k.startswith("twisted.") or k == "eliot.twisted":
                gone[k] = sys.modules.pop(k)
        return gone

    saved = purge()
    sys.path.insert(1, stub)
    checks = []
    try:
        def scenario():
            import eliot.twisted as et
            from eliot import start_action, current_action
            from twisted.internet.defer import Deferred, succeed
            from twisted.python.failure import Failure

            err = ValueError("boom")
            d1, d2 = Deferred(), Deferred()
            seen = {}

            def work(tag):
                seen["start"] = current_action()
                with start_action(action_type="inner") as a:
                    seen["inner"] = a
                    x = yield d1
                    seen["after1"] = (current_action(), x)
                    try:
                        yield d2
                    except ValueError as e:
                        seen["caught"] = (current_action(), e)
                    z = yield 5
                    seen["plain"] = (current_action(), z)
                seen["after_with"] = current_action()
                y = yield succeed(7)
                return ("ret", tag, x, y)

            decorated = et.inline_callbacks(work)
            with start_action(action_type="outer") as outer:
                res = decorated("t")
                checks.append(("the caller's current action is unchanged by starting the generator", current_action() is outer))
            checks.append(("the generator first ran in the context it was started from", seen.get("start") is outer))
            checks.append(("it is suspended at its first pending Deferred", not res.called and "after1" not in seen))
            with start_action(action_type="other") as other:
                d1.callback(11)
                checks.append(("firing a Deferred from inside another action leaves that action current", current_action() is other))
            a = seen.get("inner")
            checks.append(("after the first Deferred fired the body is in its own action and got the result",
                           seen.get("after1") is not None and seen["after1"][0] is a and seen["after1"][1] == 11))
            d2.errback(Failure(err))
            checks.append(("firing from outside any action leaves no action current", current_action() is None))
            checks.append(("a failed Deferred is thrown in as the same exception object, in the body's own action",
                           seen.get("caught") is not None and seen["caught"][0] is a and seen["caught"][1] is err))
            checks.append(("a yielded non-Deferred value comes straight back", seen.get("plain") is not None and seen["plain"][0] is a and seen["plain"][1] == 5))
            checks.append(("after its own action the body is back in the action it was started in", seen.get("after_with") is outer))
            checks.append(("the Deferred of the decorated function fires with the generator's return value",
                           res.called and res.result == ("ret", "t", 11, 7)))

        try:
            contextvars.Context().run(scenario)
        except BaseException as e:  # noqa - an observation
            checks.append(("eliot.twisted.inline_callbacks ran without raising (%s: %s)" % (type(e).__name__, str(e)[:80]), False))
    finally:
        if stub in sys.path:
            sys.path.remove(stub)
        purge()
        sys.modules.update(saved)
    return checks


def evaluate_inline_callbacks(ctx):
    case = dict(kind="inline_callbacks")
    checks = run_inline_callbacks()
    ctx.case(case, nontrivial=True, tags=["inline_callbacks"])
    for what, ok in checks:
        if not ok:
            ctx.violation("eliot.twisted.inline_callbacks: NOT (%s)" % what, case, key={"component": "inline-callbacks"})
            break
    if len(checks) < 10 and all(ok for _w, ok in checks):
        ctx.violation("eliot.twisted.inline_callbacks: the scenario stopped after %d checks" % len(checks), case, key={"component": "inline-callbacks"})


FIXED_BODIES = [
    # an action spanning two yields, echo of the sent value, catch-and-continue, a return value
    [["enter", 11], ["log", 1], ["try"], ["yield", 1], ["log", 2], ["yieldLast"], ["catch", False], ["log", 3], ["yield", 5], ["endcatch"],
     ["exit"], ["log", 4], ["yield", 2], ["ret", 9]],
    # nested actions, bare except that ignores GeneratorExit once
    [["log", 1], ["enter", 11], ["try"], ["yield", 1], ["enter", 12], ["log", 2], ["yield", 2], ["exit"], ["catch", True], ["log", 3], ["yield", 3], ["endcatch"],
     ["log", 4], ["exit"], ["log", 5], ["yieldLast"]],
]
ALPHABET = [["enter", 1], ["exit"], ["resume", 0, ["send", None]], ["resume", 0, ["send", 7]], ["resume", 0, ["send", 11]],
            ["resume", 0, ["throw", 0]], ["resume", 0, ["throw", 5]], ["resume", 0, ["close"]]]


# minimal / hand-picked cases, run first (so that a replay file shows the smallest failing input)
CORPUS = [
    dict(gens=[[["ret", 7]]], script=[["resume", 0, ["send", None]]], family="corpus"),
    # an exception that was raised and caught before (it has a traceback and a cause) is thrown in and caught by the body
    dict(gens=[[["try"], ["yield", 1], ["catch", False], ["yield", 2], ["endcatch"]]],
         script=[["resume", 0, ["send", None]], ["resume", 0, ["throw", 1]]], family="corpus"),
    # an action spans a yield and the next resumption comes from another Context / another thread
    dict(gens=[[["enter", 11], ["log", 1], ["yield", 1], ["log", 2], ["exit"], ["log", 3], ["yield", 2]]],
         script=[["enter", 1], ["resume", 0, ["send", None]], ["resume", 0, ["send", None], "copy"]], family="corpus"),
    # a generator that outlives the action it was started in and is resumed, outside any action of its own, from other contexts
    dict(gens=[[["log", 1], ["yield", 1], ["log", 2], ["yield", 2], ["log", 3], ["enter", 11], ["yield", 3], ["exit"], ["log", 4]]],
         script=[["enter", 1], ["resume", 0, ["send", None]], ["exit", "finish"], ["enter", 2], ["resume", 0, ["send", None]], ["exit", "finish"],
                 ["resume", 0, ["send", None]], ["enter", 3], ["resume", 0, ["send", None], "copy"]], family="corpus"),
    # closed / thrown into while suspended inside nested `with` blocks; the clean-up after the inner block logs
    dict(gens=[[["wenter", 11], ["try"], ["wenter", 12], ["yield", 1], ["wexit"], ["catch", True], ["log", 1], ["endcatch"], ["log", 2], ["wexit"], ["log", 3]]],
         script=[["enter", 1], ["resume", 0, ["send", None]], ["resume", 0, ["close"]]], family="corpus"),
    dict(gens=[[["wenter", 11], ["try"], ["wenter", 12], ["log", 1], ["yield", 1], ["wexit"], ["catch", False], ["log", 2], ["yield", 2], ["endcatch"], ["log", 3], ["wexit"], ["log", 4]]],
         script=[["enter", 2], ["resume", 0, ["send", None]], ["exit"], ["resume", 0, ["throw", 0]], ["enter", 3], ["resume", 0, ["send", None], "copy"]], family="corpus"),
    dict(gens=[[["enter", 11], ["yield", 1], ["exit"], ["enter", 12], ["yield", 2], ["exit"], ["log", 3]]],
         script=[["resume", 0, ["send", None], "fresh"], ["enter", 2], ["resume", 0, ["send", None], "thread"], ["resume", 0, ["send", None]]], family="corpus"),
    # GeneratorExit that is thrown in explicitly, or raised by the body itself, comes out as GeneratorExit (only close() absorbs it);
    # BaseException-only objects pass `except <application exception>` and come out by identity
    dict(gens=[[["yield", 1], ["yield", 2]]], script=[["resume", 0, ["send", None]], ["resume", 0, ["throw", 5]], ["resume", 0, ["send", None]]], family="corpus"),
    dict(gens=[[["yield", 1], ["raise", 4]]], script=[["resume", 0, ["send", None]], ["resume", 0, ["send", 3]]], family="corpus"),
    dict(gens=[[["try"], ["yield", 1], ["catch", False], ["yield", 2], ["endcatch"], ["yield", 3]]],
         script=[["resume", 0, ["send", None]], ["resume", 0, ["throw", 6]], ["resume", 0, ["throw", 8]]], family="corpus"),
    # an exception instance / class sent as plain data must arrive as the value of `yield`
    dict(gens=[[["yield", 1], ["yieldLast"], ["yieldLast"], ["ret", 12]]],
         script=[["resume", 0, ["send", None]], ["resume", 0, ["send", 11]], ["resume", 0, ["send", 12]], ["resume", 0, ["send", 10]]], family="corpus"),
    dict(gens=[[["enter", 11], ["log", 1], ["yield", 1], ["log", 2], ["exit"], ["log", 3]]],
         script=[["enter", 1], ["resume", 0, ["send", None]], ["exit"], ["enter", 2], ["resume", 0, ["send", 5]]], family="corpus"),
    dict(gens=[[["enter", 11], ["yield", 1], ["resume", 1, ["send", None]], ["log", 1], ["resume", 1, ["throw", 0]], ["log", 2]],
               [["log", 3], ["enter", 21], ["try"], ["yield", 2], ["catch", False], ["log", 4], ["exit"], ["endcatch"], ["log", 5]]],
         script=[["enter", 1], ["resume", 0, ["send", None]], ["exit"], ["enter", 3], ["resume", 0, ["send", None]], ["resume", 1, ["close"]]], family="corpus"),
]


def run(ctx):
    evaluate_inline_callbacks(ctx)
    evaluate(ctx, CORPUS, "corpus")
    rng = ctx.rng("gen")
    n = ctx.budget(400, 20000)
    cases = [gen_case(rng, big=(k % 3 == 0)) for k in range(n)]
    CH = 2000
    for k in range(0, len(cases), CH):
        evaluate(ctx, cases[k:k + CH], "random")
    # exhaustive scripts on two fixed bodies
    maxlen = ctx.budget(3, 5)
    ex = []
    for b in FIXED_BODIES:
        for L in range(1, maxlen + 1):
            for sc in itertools.product(ALPHABET, repeat=L):
                if not any(s[0] == "resume" for s in sc):
                    continue
                ex.append(dict(gens=[b], script=[list(s) for s in sc], family="fixed"))
    for k in range(0, len(ex), CH):
        evaluate(ctx, ex[k:k + CH], "exhaustive")
    if "correspondence:generator-model" not in ctx.broken:
        ctx.obligation("correspondence:generator-model", "correspondence", True,
                       "%d cases: plain and wrapped real runs agree with the model (outputs, driver context, in-body observations)" % ctx.traces)


def replay(ctx, obj):
    case = obj.get("case") or {}
    if case.get("kind") == "inline_callbacks":
        for what, ok in run_inline_callbacks():
            print("ok  " if ok else "FAIL", what)
        evaluate_inline_callbacks(ctx)
        return
    c = dict(gens=case["gens"], script=case["script"])
    # reference: the undecorated generators driven from the driver's own Context only
    plain = run_real(dict(c, script=[s[:3] for s in c["script"]]), False)
    wrapped = run_real(c, True)
    print("plain  :", plain.get("events"))
    print("wrapped:", wrapped.get("events"))
    print("driver :", [(s["before"], s["after"]) for s in wrapped.get("steps", [])])
    print("in-body:", wrapped.get("obs"))
    oracle(ctx, c, plain, wrapped)
