"""C14 - test-time validation accepts exactly the messages matching their declared types.

Cases
  validate : generated type definitions (MessageType / ActionType with forTypes / forValue / custom fields, serializers and
             extra validators that reject by class or by value, raising ValidationError or something else) x conforming
             messages PRODUCED BY THE REAL LIBRARY through those types (message, action start / success / failure with
             exception-extractor fields, traceback) x every single-point deviation (a declared key removed, an undeclared
             key added, a value replaced by a rejected one, a value replaced by one that does not encode to JSON, a non-str
             key) plus random multi-point ones
  api      : the declared MessageType used through every documented spelling (MT.log(**f), inside an action, MT(**f).write(),
             .write(logger), .write(action=a)) with conforming keyword arguments and with each single deviation; validate() and
             check_for_errors on the receiving MemoryLogger
  logger   : sequences of such messages written to a real MemoryLogger: _failed_validations, tracebackMessages,
             validate(), check_for_errors()
  ops      : histories of one MemoryLogger: writes interleaved with validate() / check_for_errors / reset() (half of them
             follow the documented use of reset(): validate the set-up logging, reset, exercise, validate again)
  types    : allow_additional_fields / declared keys of the serializers the real types build
  test     : generated unittest test cases whose methods are wrapped by capture_logging (once, twice, around bodies that run
             inner test cases, around bodies that swap the default logger themselves and never restore it, around bodies that
             log a wrong-typed / incomplete / non-JSON message or an unflushed traceback) and end in pass / fail / error /
             skip (raise SkipTest, self.skipTest); the default logger seen by every body and afterwards

Tie: lean/Eliot/Model/Validation.lean through Driver/C14.lean: accept / the class of the exception raised, for
_MessageSerializer.validate, MemoryLogger._validate_message, MemoryLogger.validate, check_for_errors; the serializer
flags; the default-logger trace.

Oracles (model-free): accept <=> an independent statement of the rule (see `rule_accepts`); conforming messages validate;
every single deviation is rejected; unflushed tracebacks make check_for_errors raise UnflushedTracebacks; the default
logger after a decorated test is the object it was before, and inside the body it is the MemoryLogger handed to the test.
"""
import dataclasses
import enum
import json
import uuid
import unittest

from ..framework import lean_driver

PROP = "C14"
LEAN_TARGETS = ["Eliot.Properties.C14"]
AUDIT = "Eliot/Audit/C14.lean"
SKELETON_TARGETS = {"Eliot.ShapesSkel.validate_shape (E16: _MessageSerializer.validate - presence, per-field validation, then the no-extras rule)":
                    ("Eliot.Properties.ShapesSkel", "Eliot/Audit/ShapesSkel.lean", ["Eliot.ShapesSkel.validate_shape"])}
THEOREMS = [
    "VM.validate_iff",
    "VM.failure_and_traceback_allow_extra",
    "VM.conforming_validates",
    "VM.single_deviation_rejected_missing",
    "VM.single_deviation_rejected_extra",
    "VM.single_deviation_rejected_value",
    "VM.single_deviation_rejected_not_json",
    "VM.tracebacks_fail",
    "VM.check_for_errors_iff",
    "VM.default_logger_restored",
    "VM.default_logger_untouched",
    "VM.bad_entry_reported",
    "VM.validateAllS_fst",
    "VM.invalid_after_reset_reported",
]
RULE = ("validate: type definition x library-produced conforming message x one deviation (or none, or several); logger: 1-5 "
        "writes; test: capture_logging tree of depth <= 3 with one of the four outcomes per body; non-trivial = a single-point "
        "deviation of a conforming message (validate), a sequence with >= 1 invalid or traceback message (logger), a tree with "
        "nesting (test); distinct by canonical hash")
TRUSTED = ["orjson + eliot.json.json_default as the meaning of 'JSON-encodable' (the oracle calls the encoder directly on the "
           "serialized message)", "unittest's cleanup semantics (LIFO, run for every outcome, a failing cleanup does not stop the "
           "others): modelled, compared on every generated test", "user callbacks are deterministic functions of the value"]
ASSUMPTIONS = ["values are abstracted to class + JSON-encodability (+ the number for bool/int/float, the text for str)",
               "Field.forValue is used with scalars (None, bool, int, float, str)"]
EXPLANATION = "theorems over the transliterated validators; model tied to the real serializers / MemoryLogger / capture_logging per case"

RESERVED = ("task_level", "task_uuid", "timestamp")
KEYS = ["x", "y", "path", "count", "flag", "data", "name", "value", "code"]
CLASSES = {"NoneType": type(None), "bool": bool, "int": int, "float": float, "str": str, "list": list, "dict": dict, "bytes": bytes}
OTHER_EXC = {"ZeroDivisionError": ZeroDivisionError, "KeyError": KeyError, "TypeError": TypeError, "AttributeError": AttributeError}


# ---- values -----------------------------------------------------------------------------------

class Opaque(object):
    def __repr__(self):
        return "<opaque>"


class Registry:
    """identity -> small id, for the values the model only knows by identity"""

    def __init__(self):
        self.ids = {}
        self.keep = []

    def id(self, o):
        k = id(o)
        if k not in self.ids:
            self.ids[k] = len(self.ids) + 1
            self.keep.append(o)
        return self.ids[k]


class _Colour(enum.Enum):
    RED = 1


@dataclasses.dataclass
class _Point:
    x: int
    y: int


def encodable(v):
    """Eliot's JSON encoder accepts the value (orjson + json_default): the trusted meaning of 'JSON-encodable'"""
    from eliot.json import _dumps_unicode, json_default

    try:
        _dumps_unicode(v, default=json_default)
        return True
    except Exception:  # noqa
        return False


def cls_name(v):
    for n, c in CLASSES.items():
        if type(v) is c:
            return n
    return "type" if isinstance(v, type) else "other"


def enc_val(v, reg):
    if v is None or isinstance(v, bool):
        return v
    if type(v) is int:
        return {"i": str(v)}
    if type(v) is float:
        n, d = v.as_integer_ratio()
        return {"f": [n, d.bit_length() - 1]}
    if type(v) is str:
        return {"s": v}
    if type(v) is bytes:
        return {"bytes": reg.id(v)}
    if type(v) is list:
        return {"list": [reg.id(v), encodable(v)]}
    if type(v) is dict:
        return {"dict": [reg.id(v), encodable(v)]}
    if isinstance(v, type):
        return {"cls": reg.id(v)}
    return {"obj": [reg.id(v), encodable(v)]}


def enc_key(k, reg):
    if isinstance(k, str):
        return k
    if isinstance(k, bytes):
        try:
            k.decode("utf-8")
            ok = True
        except UnicodeDecodeError:
            ok = False
        return {"b": [reg.id(k), ok]}
    return {"o": reg.id(k)}


def enc_msg(m, reg):
    return [[enc_key(k, reg), enc_val(v, reg)] for k, v in m.items()]


def value_pool():
    return [None, True, False, 0, 1, 5, -3, 2 ** 70, 0.0, 1.0, 1.5, 2.5, "a", "m", "", "started", b"x", [1, 2], [Opaque()], [],
            {"a": 1}, {"a": Opaque()}, Opaque(), {1, 2}, complex(1, 2), ValueError]


# ---- callbacks (rules shared with the model) -----------------------------------------------------

def rule_hits(r, v):
    if "eq" in r:
        e = r["eq"]
        w = e["s"] if isinstance(e, dict) and "s" in e else (int(e["i"]) if isinstance(e, dict) and "i" in e else e)
        return (not isinstance(v, (list, dict, set, bytes, Opaque, complex))) and v == w and (isinstance(v, str) == isinstance(w, str)) \
            and ((v is None) == (w is None))
    return r["cls"] == "*" or cls_name(v) == r["cls"]


def raise_named(name):
    from eliot import ValidationError

    if name == "ValidationError":
        raise ValidationError("rejected by the callback")
    raise OTHER_EXC[name]("callback failed")


def make_callback(rules, returns_value):
    def cb(v):
        for r in rules:
            if rule_hits(r, v):
                if "raise" in r:
                    raise_named(r["raise"])
                if "ret" in r:
                    return r["_ret_obj"]
                break
        return v if returns_value else None

    return cb


def gen_rules(rng, serializer):
    rules = []
    for _ in range(rng.choice([0, 1, 1, 2])):
        exc = rng.choice(["ValidationError", "ValidationError", "ZeroDivisionError", "KeyError", "TypeError"])
        r = rng.random()
        if serializer and r < 0.35:
            ret = rng.choice(["<text>", 7, None, "OPAQUE"])
            rules.append({"cls": rng.choice(list(CLASSES) + ["other", "*"]), "ret": ret})
        elif r < 0.8 or serializer:
            rules.append({"cls": rng.choice(list(CLASSES) + ["other"]), "raise": exc})
        else:
            rules.append({"eq": rng.choice([1, 5, "a", True, None]), "raise": exc})
    return rules


class Callbacks:
    """serializers / extra validators of one case: ids >= 10 (0 and 1 are safeunicode and the class-name lambda)"""

    def __init__(self, reg):
        self.reg = reg
        self.sers = {0: self._prep([{"cls": "*", "ret": "<text>"}]), 1: self._prep([{"cls": "type", "ret": "<text>"}, {"cls": "*", "raise": "AttributeError"}])}
        self.extras = {}
        self.fn = {}

    def _prep(self, rules):
        out = []
        for r in rules:
            r = dict(r)
            if "ret" in r:
                r["_ret_obj"] = Opaque() if r["ret"] == "OPAQUE" else r["ret"]
            out.append(r)
        return out

    def new_ser(self, rules):
        i = 10 + len(self.sers)
        self.sers[i] = self._prep(rules)
        self.fn[("s", i)] = make_callback(self.sers[i], True)
        return i

    def new_extra(self, rules):
        i = 10 + len(self.extras)
        self.extras[i] = self._prep(rules)
        self.fn[("e", i)] = make_callback(self.extras[i], False)
        return i

    def env_json(self):
        def rj(r):
            d = {k: v for k, v in r.items() if k in ("cls", "raise")}
            if "eq" in r:
                d["eq"] = enc_val(r["eq"], self.reg)
            if "ret" in r:
                d["ret"] = enc_val(r["_ret_obj"], self.reg)
            return d

        return {"sers": [[i, [rj(r) for r in rs]] for i, rs in self.sers.items()],
                "extras": [[i, [rj(r) for r in rs]] for i, rs in self.extras.items()]}


# ---- type definitions ---------------------------------------------------------------------------

def gen_field(rng, key, cbs):
    r = rng.random()
    if r < 0.55:
        classes = rng.sample(list(CLASSES), rng.randint(1, 3))
        extra = cbs.new_extra(gen_rules(rng, False)) if rng.random() < 0.3 else None
        return {"t": "types", "key": key, "classes": classes, "extra": extra}
    if r < 0.7:
        return {"t": "value", "key": key, "value": rng.choice([None, True, 1, 5, 1.0, 2.5, "a", "m", 0])}
    ser = cbs.new_ser(gen_rules(rng, True))
    extra = cbs.new_extra(gen_rules(rng, False)) if rng.random() < 0.4 else None
    return {"t": "custom", "key": key, "ser": ser, "extra": extra}


def field_json(f, reg):
    d = dict(f)
    if f["t"] == "value":
        d["value"] = enc_val(f["value"], reg)
    return d


def real_field(f, cbs):
    from eliot import Field

    if f["t"] == "types":
        classes = [None if c == "NoneType" else CLASSES[c] for c in f["classes"]]
        return Field.forTypes(f["key"], classes, "", cbs.fn[("e", f["extra"])] if f["extra"] is not None else None)
    if f["t"] == "value":
        return Field.forValue(f["key"], f["value"], "")
    return Field(f["key"], cbs.fn[("s", f["ser"])], "", cbs.fn[("e", f["extra"])] if f["extra"] is not None else None)


def field_accepts(f, v, cbs):
    """independent statement: the field accepts v (its serializer takes it, its type / value / extra rule holds)"""
    try:
        if f["t"] == "types":
            if not isinstance(v, tuple(CLASSES[c] for c in f["classes"])):
                return False
            if f["extra"] is not None:
                cbs.fn[("e", f["extra"])](v)
            return True
        if f["t"] == "value":
            return bool(v == f["value"])
        cbs.fn[("s", f["ser"])](v)
        if f["extra"] is not None:
            cbs.fn[("e", f["extra"])](v)
        return True
    except Exception:  # noqa
        return False


def field_serialized(f, v, cbs):
    if f["t"] == "types":
        return v
    if f["t"] == "value":
        return f["value"]
    return cbs.fn[("s", f["ser"])](v)


def gen_fields(rng, cbs, n):
    keys = rng.sample(KEYS, n)
    return [gen_field(rng, k, cbs) for k in keys]


# ---- declared serializers as specs -----------------------------------------------------------------

def spec_fields(spec):
    """the complete declared field list of a serializer spec, as the property statement describes the types"""
    if spec == "traceback":
        return None
    if "message_type" in spec:
        return spec["fields"] + [{"t": "value", "key": "message_type", "value": spec["message_type"]}]
    if "action_type" in spec:
        at = {"t": "value", "key": "action_type", "value": spec["action_type"]}
        st = lambda s: {"t": "value", "key": "action_status", "value": s}  # noqa
        if spec["which"] == "start":
            return spec["start"] + [at, st("started")]
        if spec["which"] == "success":
            return spec["success"] + [at, st("succeeded")]
        return [at, st("failed"), {"t": "types", "key": "reason", "classes": ["str"], "extra": None},
                {"t": "types", "key": "exception", "classes": ["str"], "extra": None}]
    return spec["fields"]


def spec_allow_extra(spec):
    if spec == "traceback":
        return True
    if "action_type" in spec:
        return spec["which"] == "failure"
    if "message_type" in spec:
        return False
    return spec["allowExtra"]


def spec_json(spec, reg):
    if spec is None or spec == "traceback":
        return spec
    d = dict(spec)
    for k in ("fields", "start", "success"):
        if k in d:
            d[k] = [field_json(f, reg) for f in d[k]]
    return d


def rule_accepts(spec, m, cbs, level):
    """The rule of the property statement, independently: declared fields present and accepted, no undeclared field other
    than the reserved three unless the type allows extras; (level 'mem') all keys are str and the serialized message encodes."""
    if spec is None:
        fields, allow = [], True
    elif spec == "traceback":
        # reason / traceback / exception are rendered with str(): anything is accepted; extras allowed
        fields, allow = None, True
        if any(k not in m for k in ("reason", "traceback", "exception", "message_type")) or m["message_type"] != "eliot:traceback":
            return False
        if not hasattr(m["exception"], "__module__") or not hasattr(m["exception"], "__name__"):
            return False
    else:
        fields, allow = spec_fields(spec), spec_allow_extra(spec)
    if fields is not None:
        for f in fields:
            if f["key"] not in m or not field_accepts(f, m[f["key"]], cbs):
                return False
        if not allow:
            declared = {f["key"] for f in fields}
            for k in m:
                if not (isinstance(k, str) and (k in declared or k in RESERVED)):
                    return False
    if level == "validate":
        return True
    if not all(isinstance(k, str) for k in m):
        return False
    ser = dict(m)
    if fields is not None:
        for f in fields:
            ser[f["key"]] = field_serialized(f, m[f["key"]], cbs)
    else:
        ser["reason"], ser["traceback"], ser["exception"] = str(m["reason"]), str(m["traceback"]), "x"
    return encodable(ser)


# ---- real side -------------------------------------------------------------------------------------

def outcome(fn):
    try:
        fn()
        return "ok"
    except BaseException as e:  # noqa
        return type(e).__name__


class ExtractedError(Exception):
    pass


def use_types(mt_name, at_name, mfields, sfields, ofields, vals, extracted, cbs):
    """correct use of a MessageType and an ActionType: a message, a succeeding action, a failing action whose exception
    has a registered extractor, a traceback; everything goes to a fresh MemoryLogger installed as the default logger"""
    import eliot
    from eliot import MessageType, ActionType, MemoryLogger, write_traceback
    from eliot.testing import swap_logger

    MT = MessageType(mt_name, [real_field(f, cbs) for f in mfields], "")
    AT = ActionType(at_name, [real_field(f, cbs) for f in sfields], [real_field(f, cbs) for f in ofields], "")
    logger = MemoryLogger()
    eliot.register_exception_extractor(ExtractedError, lambda e: dict(extracted))
    prev = swap_logger(logger)
    try:
        MT.log(**vals[0])
        with AT(**vals[1]) as act:
            MT.log(**vals[0])
            act.add_success_fields(**vals[2])
        try:
            with AT(**vals[1]):
                raise ExtractedError("boom")
        except ExtractedError:
            pass
        try:
            raise ExtractedError("tb")
        except ExtractedError:
            write_traceback()
    finally:
        swap_logger(prev)
    return logger, MT, AT


SPELLINGS = ["log", "log-in-action", "call-write", "call-write-logger", "call-write-action"]


def api_write(mt_name, mfields, fields, spelling, cbs):
    """write one message of a declared MessageType through one of the documented spellings; -> observation"""
    from eliot import MessageType, MemoryLogger, start_action
    from eliot.testing import swap_logger, check_for_errors

    MT = MessageType(mt_name, [real_field(f, cbs) for f in mfields], "")
    logger, other = MemoryLogger(), MemoryLogger()
    prev = swap_logger(logger)
    try:
        def go():
            if spelling == "log":
                MT.log(**fields)
            elif spelling == "log-in-action":
                with start_action(action_type="ctx"):
                    MT.log(**fields)
            elif spelling == "call-write":
                MT(**fields).write()
            elif spelling == "call-write-logger":
                MT(**fields).write(other)
            else:
                with start_action(action_type="ctx") as act:
                    MT(**fields).write(action=act)

        wrote = outcome(go)
    finally:
        swap_logger(prev)
    target = other if spelling == "call-write-logger" else logger
    mine = [dict(m) for m in target.messages if m.get("message_type") == mt_name]
    return dict(wrote=wrote, logged=mine[0] if len(mine) == 1 else None, count=len(mine), failed=len(target._failed_validations),
                validate=outcome(target.validate), check=outcome(lambda: check_for_errors(target)))


def api_variants(rng, mfields, vals, cbs):
    """(tag, fields): the conforming keyword arguments and single deviations of them"""
    out = [("conforming", dict(vals))]
    pool = value_pool()
    for f in mfields:
        d = dict(vals)
        del d[f["key"]]
        out.append(("missing", d))
        rej = [v for v in pool if not field_accepts(f, v, cbs)]
        if rej:
            d = dict(vals)
            d[f["key"]] = rng.choice(rej)
            out.append(("rejected-value", d))
    d = dict(vals)
    d["zz_extra"] = 1
    out.append(("extra", d))
    d = dict(vals)
    d["zz_obj"] = Opaque()
    out.append(("not-json", d))
    return out


def produce(rng, cbs, reg, idx=0):
    """Build real types from a generated definition, use them correctly, and return the captured
    (message, real serializer, spec) triples plus the type-level facts."""
    import eliot
    from eliot import MessageType, ActionType, MemoryLogger, write_traceback
    from eliot._traceback import TRACEBACK_MESSAGE

    pool = value_pool()

    def pick(fields):
        """accepted, JSON-encodable-after-serialization values for every field, or None"""
        out = {}
        for f in fields:
            cand = [v for v in pool if field_accepts(f, v, cbs) and encodable(field_serialized(f, v, cbs))]
            if not cand:
                return None
            out[f["key"]] = rng.choice(cand)
        return out

    mt_name, at_name = rng.choice(["app:msg", "m"]), rng.choice(["app:act", "a"])
    for _ in range(20):
        mfields = gen_fields(rng, cbs, rng.randint(0, 3))
        sfields = gen_fields(rng, cbs, rng.randint(0, 2))
        ofields = gen_fields(rng, cbs, rng.randint(0, 2))
        vals = [pick(mfields), pick(sfields), pick(ofields)]
        if all(v is not None for v in vals):
            break
    else:
        mfields, sfields, ofields, vals = [], [], [], [{}, {}, {}]
    aspec = lambda which: {"action_type": at_name, "start": sfields, "success": ofields, "which": which}  # noqa
    mspec = {"message_type": mt_name, "fields": mfields}
    # extractors as applications write them: extra fields, vars(e), and names that coincide with the end message's own
    choices = [{"reason": 42, "code": 1}, {"code": 5, "detail": "d"}, {"exception": ["x"], "k": None},
               {"action_status": "weird", "reason": None, "code": 2}, {"reason": {"errno": 2}, "filename": "f"},
               {"traceback": 0, "message_type": "mine", "reason": 1.5}, {}]
    extracted = choices[idx % len(choices)]   # every run has colliding and non-colliding ones
    logger, MT, AT = use_types(mt_name, at_name, mfields, sfields, ofields, vals, extracted, cbs)
    specs = [mspec, aspec("start"), mspec, aspec("success"), aspec("start"), aspec("failure"), "traceback"]
    trip = list(zip([dict(m) for m in logger.messages], logger.serializers, specs))
    types = dict(real={
        "message": [MT._serializer.allow_additional_fields, list(MT._serializer.fields)],
        "start": [AT._serializers.start.allow_additional_fields, list(AT._serializers.start.fields)],
        "success": [AT._serializers.success.allow_additional_fields, list(AT._serializers.success.fields)],
        "failure": [AT._serializers.failure.allow_additional_fields, list(AT._serializers.failure.fields)],
        "traceback": [TRACEBACK_MESSAGE._serializer.allow_additional_fields, list(TRACEBACK_MESSAGE._serializer.fields)]},
        case=dict(kind="types", message_type=mt_name, fields=[field_json(f, reg) for f in mfields], action_type=at_name,
                  start=[field_json(f, reg) for f in sfields], success=[field_json(f, reg) for f in ofields]))
    ok = outcome(logger.validate)
    types["defn"] = dict(mt_name=mt_name, mfields=mfields, vals=vals[0])
    types["produce_case"] = dict(kind="produce", message_type=mt_name, action_type=at_name, fields=types["case"]["fields"],
                                 start=types["case"]["start"], success=types["case"]["success"], extracted=extracted,
                                 vals=[{k: enc_val(v, reg) for k, v in d.items()} for d in vals])
    return trip, types, ok, len(logger._failed_validations)


def deviations(rng, m, spec, cbs):
    """(tag, message') single-point deviations of a conforming message, then a few multi-point ones"""
    out = []
    pool = value_pool()
    fields = spec_fields(spec) if spec not in (None, "traceback") else []
    for f in fields:
        d = dict(m)
        del d[f["key"]]
        out.append(("missing", d))
        rej = [v for v in pool if not field_accepts(f, v, cbs)]
        rng.shuffle(rej)
        for v in rej[:2]:
            d = dict(m)
            d[f["key"]] = v
            out.append(("rejected-value", d))
        nj = [v for v in pool if field_accepts(f, v, cbs) and not encodable(field_serialized(f, v, cbs))]
        if nj:
            d = dict(m)
            d[f["key"]] = rng.choice(nj)
            out.append(("not-json", d))
    d = dict(m)
    d["zz_extra"] = rng.choice([1, "v", None])
    out.append(("extra", d))
    d = dict(m)
    d[rng.choice(RESERVED)] = rng.choice([Opaque(), b"raw", 2 ** 70, [Opaque()]])
    out.append(("not-json", d))
    d = dict(m)
    d[rng.choice([b"k", b"\xff", 5, (1, 2)])] = 1
    out.append(("non-str-key", d))
    if spec == "traceback":
        d = dict(m)
        del d[rng.choice(["reason", "traceback", "exception"])]
        out.append(("missing", d))
    for _ in range(2):
        d = dict(m)
        for _ in range(rng.randint(2, 3)):
            r = rng.random()
            ks = list(d)
            if r < 0.3 and ks:
                del d[rng.choice(ks)]
            elif r < 0.7 and ks:
                d[rng.choice(ks)] = rng.choice(pool)
            else:
                d[rng.choice(KEYS + ["zz"])] = rng.choice(pool)
        out.append(("multi", d))
    return out


def real_validate(serobj, m):
    from eliot import MemoryLogger
    from eliot.testing import check_for_errors

    r = {}
    r["validate"] = "none" if serobj is None else outcome(lambda: serobj.validate(dict(m)))
    r["mem"] = outcome(lambda: MemoryLogger()._validate_message(dict(m), serobj))
    return r


def real_logger(writes):
    from eliot import MemoryLogger
    from eliot.testing import check_for_errors

    l = MemoryLogger()
    w = "ok"
    for m, serobj in writes:
        w2 = outcome(lambda: l.write(dict(m), serobj))
        if w2 != "ok":
            w = w2
    r = {"write": w, "failed": len(l._failed_validations), "tracebacks": len(l.tracebackMessages)}
    # validate() re-validates in place: run check first on an identical second logger to keep both observations independent
    l2 = MemoryLogger()
    for m, serobj in writes:
        outcome(lambda: l2.write(dict(m), serobj))
    r["check"] = outcome(lambda: check_for_errors(l2))
    r["validateAll"] = outcome(l.validate)
    return r


def real_ops(ops):
    """one MemoryLogger, a history of write / validate() / reset() / check_for_errors"""
    from eliot import MemoryLogger
    from eliot.testing import check_for_errors

    l = MemoryLogger()
    results, w = [], "ok"
    for op in ops:
        if op == "validate":
            results.append(outcome(l.validate))
        elif op == "check":
            results.append(outcome(lambda: check_for_errors(l)))
        elif op == "reset":
            w2 = outcome(l.reset)
            w = w if w2 == "ok" else w2
        else:
            m, serobj = op
            w2 = outcome(lambda: l.write(dict(m), serobj))
            w = w if w2 == "ok" else w2
    return {"results": results, "failed": len(l._failed_validations), "tracebacks": len(l.tracebackMessages), "stored": len(l.messages), "write": w}


def oracle_api(ctx, ac, obs, spec, cbs, intended):
    """judged by what the application PASSED (`intended` = its keyword arguments + the type's message_type), not by what arrived"""
    what = "message type %r written as %s with %r" % (ac["message_type"], ac["spelling"], {k: v for k, v in intended.items() if k not in RESERVED})
    if obs["wrote"] != "ok":
        ctx.violation("logging raised %s into the application: %s" % (obs["wrote"], what), ac, key=None)
        return
    if obs["count"] != 1:
        ctx.violation("%d messages of the type reached the logger instead of one: %s" % (obs["count"], what), ac, key=None)
        return
    got = {k: v for k, v in obs["logged"].items() if k not in RESERVED}
    passed = {k: v for k, v in intended.items() if k not in RESERVED}
    if set(got) != set(passed) or any(got[k] is not passed[k] and got[k] != passed[k] for k in passed):
        ctx.violation("the message that reached the logger has fields %r, the application passed %r: %s" % (got, passed, what), ac, key=None)
        return
    want = rule_accepts(spec, intended, cbs, "mem")
    for call in ("validate", "check"):
        if (obs[call] == "ok") != want:
            ctx.violation("%s %s although the message %s its declared type: %s" % (
                "MemoryLogger.validate()" if call == "validate" else "check_for_errors", "passes" if obs[call] == "ok" else "raises " + obs[call],
                "matches" if want else "breaks", what), ac, key=None)
            return
    if (obs["failed"] == 0) != want:
        ctx.violation("%d validation failures recorded at write time although the message %s its declared type: %s" % (
            obs["failed"], "matches" if want else "breaks", what), ac, key=None)


def gen_ops(rng, all_msgs):
    """histories; about half follow the documented use of reset(): validate the set-up logging, reset, exercise, validate"""
    good = [w for w in all_msgs if w[0] == "conforming" and w[3] != "traceback"]
    ops = []
    if good and rng.random() < 0.5:
        ops += [("w", rng.choice(good)) for _ in range(rng.randint(1, 3))] + [rng.choice(["validate", "check"]), "reset"]
        ops += [("w", rng.choice(all_msgs if rng.random() < 0.7 else good)) for _ in range(rng.randint(1, 3))]
        ops.append(rng.choice(["validate", "check"]))
    for _ in range(rng.randint(0, 5)):
        r = rng.random()
        ops.append(("w", rng.choice(all_msgs if rng.random() < 0.4 else (good or all_msgs))) if r < 0.55 else
                   "validate" if r < 0.75 else "check" if r < 0.85 else "reset")
    if not any(o in ("validate", "check") for o in ops):
        ops.append("validate")
    return ops


def oracle_ops(ctx, c, ops, cbs, real):
    """what validate() / check_for_errors must do, from the messages written since the last reset()"""
    since, validated_before, i = [], False, 0
    if real["write"] != "ok":
        ctx.violation("MemoryLogger.write / reset raised %s" % real["write"], c, key=None)
    for op in ops:
        if op == "reset":
            since, validated_before = [], False
        elif op in ("validate", "check"):
            got = real["results"][i]
            i += 1
            inv = [not rule_accepts(sp, m2, cbs, "mem") for _, m2, _, sp in since]
            ntb = sum(1 for w in since if w[3] == "traceback")
            if op == "check" and ntb:
                if got != "UnflushedTracebacks":
                    ctx.violation("unflushed tracebacks did not make check_for_errors raise UnflushedTracebacks (%s)" % got, c, key=None)
            elif any(inv) and got == "ok":
                ctx.violation("%s passed although %d of the %d messages written since the last reset() break their type's rule" % (
                    "validate()" if op == "validate" else "check_for_errors", sum(inv), len(since)), c, key=None)
            elif not any(inv) and not validated_before and got != "ok":
                ctx.violation("%s raised %s although every message written since the last reset() matches its type" % (op, got), c, key=None)
            if not (op == "check" and ntb):
                validated_before = True
        else:
            since.append(op[1])


# ---- capture_logging on generated tests ---------------------------------------------------------------

def gen_tree(rng, depth=0):
    r = rng.random()
    if depth >= 4 or r < 0.27:
        return {"body": rng.choice(["pass", "fail", "error", "skip", "skip-method"])}
    if r < 0.55:
        return {"captured": gen_tree(rng, depth + 1)}
    if r < 0.68:
        # the body logs something check_for_errors has to report, then goes on (and may fail, raise, or be skipped)
        # ... or something the library writes without complaint although a plain `json.dumps` would not (kinds "good-*"):
        # check_for_errors must then stay silent
        return {"logs_bad": gen_tree(rng, depth + 1), "bad_kind": rng.choice(["invalid", "traceback", "not-json", "missing", "not-json-bigint",
                                                                              "not-json-intkey", "good-uuid", "good-enum", "good-dataclass"])}
    if r < 0.8:
        # the body (or the code under test) installs a logger of its own and never puts the old one back
        return {"swaps": gen_tree(rng, depth + 1)}
    return {"inner": [gen_tree(rng, depth + 1), gen_tree(rng, depth + 1)]}


def model_tree(t):
    """the tree as the model knows it: how a test is skipped and what kind of bad entry it logs make no difference there"""
    if "body" in t:
        return {"body": "skip" if t["body"] == "skip-method" else t["body"]}
    if "logs_bad" in t:
        if t.get("bad_kind", "").startswith("good-"):
            return model_tree(t["logs_bad"])
        return {"logs_bad": model_tree(t["logs_bad"])}
    if "swaps" in t:
        return {"swaps": model_tree(t["swaps"])}
    if "captured" in t:
        return {"captured": model_tree(t["captured"])}
    return {"inner": [model_tree(x) for x in t["inner"]]}


def has_swaps(t):
    if "body" in t:
        return False
    if "logs_bad" in t:
        return has_swaps(t["logs_bad"])
    if "swaps" in t:
        return True
    if "captured" in t:
        return has_swaps(t["captured"])
    return any(has_swaps(x) for x in t["inner"])


def tree_depth(t):
    if "body" in t:
        return 0
    if "logs_bad" in t:
        return 1 + tree_depth(t["logs_bad"])
    if "swaps" in t:
        return 1 + tree_depth(t["swaps"])
    if "captured" in t:
        return 1 + tree_depth(t["captured"])
    return 1 + max(tree_depth(x) for x in t["inner"])


def run_tree(tree, log_invalid):
    """run the generated test case for real; -> observations"""
    from eliot import _output, MessageType, Field, MemoryLogger, write_traceback, log_message
    from eliot.testing import capture_logging, swap_logger

    seen, inside_ok, results, own, capture_loggers, bad_targets = [], [], [], [], [], []
    swapping = has_swaps(tree)
    BAD = MessageType("bad:type", [Field.forTypes("n", [int], "")], "")

    def build(t):
        if "body" in t:
            o = t["body"]

            def body(self, logger=None):
                seen.append(_output._DEFAULT_LOGGER)
                if logger is not None and not swapping:
                    inside_ok.append(_output._DEFAULT_LOGGER is logger)
                if log_invalid:
                    BAD.log(n="not an int")   # makes the check_for_errors cleanup raise
                if o == "fail":
                    self.fail("generated failure")
                if o == "error":
                    raise RuntimeError("generated error")
                if o == "skip":
                    raise unittest.SkipTest("generated skip")
                if o == "skip-method":
                    self.skipTest("generated skip")

            return body
        if "captured" in t:
            wrapped = build(t["captured"])

            def notes_logger(self, logger=None, **kw):
                capture_loggers.append(logger)
                return wrapped(self, logger=logger, **kw)

            return capture_logging(None)(notes_logger)
        if "logs_bad" in t:
            then = build(t["logs_bad"])
            kind = t.get("bad_kind", "invalid")

            def logs_bad_entry(self, **kw):
                if kind.startswith("good-"):
                    # values Eliot's encoder (orjson) takes natively: "JSON-encodable" is what the library can write
                    v = {"good-uuid": uuid.UUID(int=5), "good-enum": _Colour.RED, "good-dataclass": _Point(1, 2)}[kind]
                    if encodable({"payload": v}):
                        log_message("untyped", payload=v)
                    return then(self, **kw)
                if kind in ("not-json-bigint", "not-json-intkey"):
                    # ... and values a plain `json.dumps` takes but the library cannot write
                    v = 2 ** 70 if kind == "not-json-bigint" else {1: "one"}
                    if not encodable({"payload": v}):
                        bad_targets.append(_output._DEFAULT_LOGGER)
                        log_message("untyped", payload=v)
                    return then(self, **kw)
                bad_targets.append(_output._DEFAULT_LOGGER)
                if kind == "invalid":
                    BAD.log(n="not an int")
                elif kind == "missing":
                    BAD.log()
                elif kind == "not-json":
                    log_message("untyped", payload=Opaque())
                else:
                    try:
                        raise RuntimeError("generated, unflushed")
                    except RuntimeError:
                        write_traceback()
                return then(self, **kw)

            return logs_bad_entry
        if "swaps" in t:
            after_swap = build(t["swaps"])

            def swaps_logger(self, **kw):
                own.append(MemoryLogger())
                swap_logger(own[-1])
                return after_swap(self, **kw)

            return swaps_logger
        inner_t, rest_t = t["inner"]
        rest = build(rest_t)

        def runs_inner(self, **kw):
            run_case(inner_t)
            return rest(self, **kw)

        return runs_inner

    def run_case(t):
        fn = build(t)

        class Case(unittest.TestCase):
            def test(self):
                return fn(self)

        res = unittest.TestResult()
        Case("test").run(res)
        reports = [tb for _, tb in res.errors + res.failures
                   if "ValidationError" in tb or "UnflushedTracebacks" in tb or "doesn't encode to JSON" in tb]
        results.append((len(res.failures), len(res.errors) - len(reports), len(res.skipped), res.testsRun, len(reports)))

    before = _output._DEFAULT_LOGGER
    try:
        run_case(tree)
        after = _output._DEFAULT_LOGGER
    finally:
        _output._DEFAULT_LOGGER = before
    ids = {id(before): 0}
    canon = []
    for l in seen:
        ids.setdefault(id(l), len(ids))
        canon.append(ids[id(l)])
    must_report = {id(l) for l in bad_targets if any(l is c for c in capture_loggers)}
    return dict(seen=canon, final=ids.get(id(after), -1), restored=after is before, inside_ok=all(inside_ok), created=len(ids) - 1,
                results=results, reported=sum(r[4] for r in results), must_report=len(must_report))


# ---- the run ---------------------------------------------------------------------------------------

def res_name(x):
    return x


def run(ctx):
    rng = ctx.rng("gen")
    reg = Registry()
    cases, metas = [], []
    ndefs = ctx.budget(4, 300)
    for idef in range(ndefs):
        cbs = Callbacks(reg)
        try:
            trip, types, ok, failed = produce(rng, cbs, reg, idef + ctx.seed)
        except Exception as e:  # noqa
            ctx.violation("correct use of generated declared types raised %s: %s" % (type(e).__name__, e), dict(kind="produce"), key=None)
            continue
        env = cbs.env_json()
        if ok != "ok" or failed:
            ctx.violation("messages produced by correct use of declared types do not validate: validate() -> %s, %d failed validations" % (ok, failed),
                          dict(types["produce_case"], env=env), key=None)
        cases.append(types["case"])
        metas.append(("types", types))
        all_msgs = []
        for m, serobj, spec in trip:
            devs = [("conforming", m)] + deviations(rng, m, spec, cbs)
            for tag, m2 in devs:
                cases.append(dict(kind="validate", env=env, ser=spec_json(spec, reg), msg=enc_msg(m2, reg)))
                metas.append(("validate", dict(tag=tag, m=m2, serobj=serobj, spec=spec, cbs=cbs)))
                all_msgs.append((tag, m2, serobj, spec))
        for _ in range(3):
            ws = [rng.choice(all_msgs) for _ in range(rng.randint(1, 5))]
            if rng.random() < 0.5:
                ws = [w for w in ws if w[3] != "traceback"] or ws
            cases.append(dict(kind="logger", env=env, writes=[dict(ser=spec_json(sp, reg), msg=enc_msg(m2, reg), tb=(sp == "traceback"))
                                                               for _, m2, _, sp in ws]))
            metas.append(("logger", dict(ws=ws, cbs=cbs)))
        if idef == 0:
            # on every seed: check_for_errors with a traceback pending, alone and next to a message that breaks its type
            # ("tracebacks first, then validation")
            tb = next(w for w in all_msgs if w[0] == "conforming" and w[3] == "traceback")
            bad_one = next(w for w in all_msgs if w[3] != "traceback" and not rule_accepts(w[3], w[1], cbs, "mem"))
            for ws in ([tb], [tb, bad_one], [bad_one, tb]):
                cases.append(dict(kind="logger", env=env, writes=[dict(ser=spec_json(sp, reg), msg=enc_msg(m2, reg), tb=(sp == "traceback"))
                                                                   for _, m2, _, sp in ws]))
                metas.append(("logger", dict(ws=ws, cbs=cbs)))
                ops = [("w", w) for w in ws] + ["check", "validate"]
                cases.append(dict(kind="ops", env=env, ops=[o if isinstance(o, str) else
                                                            {"write": dict(ser=spec_json(o[1][3], reg), msg=enc_msg(o[1][1], reg), tb=(o[1][3] == "traceback"))}
                                                            for o in ops]))
                metas.append(("ops", dict(ops=ops, cbs=cbs)))
        # the declared MessageType used through every documented spelling, with conforming and deviating keyword arguments
        dn = types["defn"]
        mspec = {"message_type": dn["mt_name"], "fields": dn["mfields"]}
        for tag, fields in api_variants(rng, dn["mfields"], dn["vals"], cbs):
            for spelling in SPELLINGS:
                api_case = dict(kind="api", env=env, message_type=dn["mt_name"], fields=[field_json(f, reg) for f in dn["mfields"]],
                                values={k: enc_val(v, reg) for k, v in fields.items()}, spelling=spelling)
                obs = api_write(dn["mt_name"], dn["mfields"], fields, spelling, cbs)
                # model and oracle see what the application passed (plus the three reserved fields as logged), not what arrived
                intended = dict(fields, message_type=dn["mt_name"])
                intended.update({k: v for k, v in (obs["logged"] or {}).items() if k in RESERVED})
                cases.append(dict(kind="validate", env=env, ser=spec_json(mspec, reg), msg=enc_msg(intended, reg)))
                metas.append(("api", dict(api_case=api_case, obs=obs, tag=tag, spec=mspec, cbs=cbs, logged=intended)))
        for _ in range(ctx.budget(6, 6)):
            ops = gen_ops(rng, all_msgs)
            cases.append(dict(kind="ops", env=env, ops=[o if isinstance(o, str) else
                                                        {"write": dict(ser=spec_json(o[1][3], reg), msg=enc_msg(o[1][1], reg), tb=(o[1][3] == "traceback"))}
                                                        for o in ops]))
            metas.append(("ops", dict(ops=ops, cbs=cbs)))
    # field matrix: one-field message types x every pool value (class lattice, numeric tower of forValue, callbacks)
    hand = [{"t": "types", "key": "x", "classes": [c], "extra": None} for c in ("int", "float", "bool", "NoneType", "str", "bytes")] + \
           [{"t": "value", "key": "x", "value": v} for v in (1, 1.0, True, 0, "a", None, 2.5)]
    for i in range(ctx.budget(16, 600)):
        cbs = Callbacks(reg)
        f = hand[i] if i < len(hand) else gen_field(rng, "x", cbs)
        spec = {"message_type": "m", "fields": [f]}
        from eliot import MessageType
        serobj = MessageType("m", [real_field(f, cbs)], "")._serializer
        env = cbs.env_json()
        for v in value_pool():
            m2 = {"x": v, "message_type": "m", "task_uuid": "u", "task_level": [1], "timestamp": 1.5}
            cases.append(dict(kind="validate", env=env, ser=spec_json(spec, reg), msg=enc_msg(m2, reg)))
            metas.append(("validate", dict(tag="matrix", m=m2, serobj=serobj, spec=spec, cbs=cbs)))
    trees = [gen_tree(rng) for _ in range(ctx.budget(60, 2500))]
    # on every seed: a decorated test logs each kind of bad entry and is then skipped (either spelling), fails, raises, passes
    for kind_ in ("invalid", "missing", "not-json", "traceback", "not-json-bigint", "not-json-intkey", "good-uuid", "good-enum", "good-dataclass"):
        for o in ("skip", "skip-method", "fail", "error", "pass"):
            trees.append({"captured": {"logs_bad": {"body": o}, "bad_kind": kind_}})
    trees.append({"captured": {"captured": {"logs_bad": {"inner": [{"captured": {"logs_bad": {"body": "skip"}, "bad_kind": "traceback"}},
                                                                     {"body": "skip-method"}]}, "bad_kind": "invalid"}}})
    for t in trees:
        cases.append(dict(kind="test", test=model_tree(t), default=0))
        metas.append(("test", dict(tree=t, log_invalid=False)))
    model = lean_driver("Driver/C14.lean", cases)
    name = "correspondence:validation-model"
    for c, (kind, meta), mo in zip(cases, metas, model):
        if "bad" in mo:
            ctx.broken_tie(name, "driver rejected the case: %s" % mo["bad"], c)
            continue
        if kind == "api":
            ac, obs, tag = meta["api_case"], meta["obs"], meta["tag"]
            ctx.case(ac, nontrivial=tag != "conforming", tags=["kind:api", "spelling:" + ac["spelling"], "deviation:" + tag])
            if obs["validate"] != mo["mem"]:
                ctx.broken_tie(name, "validate() after writing through the API differs from the model", dict(case=ac, real=obs, model=mo))
            else:
                ctx.traces += 1
            oracle_api(ctx, ac, obs, meta["spec"], meta["cbs"], meta["logged"])
            continue
        if kind == "types":
            real = {k: {"allowExtra": v[0], "keys": v[1]} for k, v in meta["real"].items()}
            ctx.case(c, nontrivial=False, tags=["kind:types"])
            if real != mo:
                ctx.broken_tie(name, "serializers built by the real types differ from the model", dict(case=c, real=real, model=mo))
            else:
                ctx.traces += 1
            # oracle: only failed-action and traceback messages may carry extra fields
            flags = {k: v[0] for k, v in meta["real"].items()}
            if flags != {"message": False, "start": False, "success": False, "failure": True, "traceback": True}:
                ctx.violation("allow_additional_fields is %r; only failure and traceback serializers may allow extra fields" % flags, c, key=None)
        elif kind == "validate":
            m, serobj, spec, cbs, tag = meta["m"], meta["serobj"], meta["spec"], meta["cbs"], meta["tag"]
            real = real_validate(serobj, m)
            ctx.case(c, nontrivial=tag not in ("conforming", "multi", "matrix"), tags=["kind:validate", "deviation:" + tag,
                     "type:" + ("traceback" if spec == "traceback" else ("action-" + spec["which"] if "action_type" in spec else "message"))])
            if real != {"validate": mo["validate"], "mem": mo["mem"]}:
                ctx.broken_tie(name, "validation outcome differs from the model", dict(case=c, real=real, model=mo, tag=tag))
            else:
                ctx.traces += 1
            # oracles
            exp_v, exp_m = rule_accepts(spec, m, cbs, "validate"), rule_accepts(spec, m, cbs, "mem")
            desc = "%s message %r for %s" % (tag, m, json.dumps(spec_json(spec, reg), default=str)[:300])
            if (real["validate"] == "ok") != exp_v:
                ctx.violation("_MessageSerializer.validate %s a message the rule %s: %s" % (
                    "accepts" if real["validate"] == "ok" else "rejects (%s)" % real["validate"], "accepts" if exp_v else "rejects", desc), c, key=None)
            if (real["mem"] == "ok") != exp_m:
                ctx.violation("MemoryLogger validation %s a message the rule %s: %s" % (
                    "accepts" if real["mem"] == "ok" else "rejects (%s)" % real["mem"], "accepts" if exp_m else "rejects", desc), c, key=None)
            if tag == "conforming" and real["mem"] != "ok":
                ctx.violation("a message produced by correct use of its declared type does not validate (%s): %s" % (real["mem"], desc), c, key=None)
            if tag in ("missing", "rejected-value", "not-json", "non-str-key") and real["mem"] == "ok":
                ctx.violation("a single deviation (%s) is not reported: %s" % (tag, desc), c, key=None)
            if tag == "extra" and not spec_allow_extra(spec) and real["mem"] == "ok":
                ctx.violation("an undeclared field is not reported: %s" % desc, c, key=None)
        elif kind == "ops":
            ops, cbs = meta["ops"], meta["cbs"]
            real = real_ops([o if isinstance(o, str) else (o[1][1], o[1][2]) for o in ops])
            nreset = sum(1 for o in ops if o == "reset")
            ctx.case(c, nontrivial=nreset > 0, tags=["kind:ops", "ops:%d" % min(len(ops), 12), "resets:%d" % nreset,
                                                     "validations:%d" % sum(1 for o in ops if o in ("validate", "check"))])
            if {k: real[k] for k in ("results", "failed", "tracebacks", "stored")} != mo:
                ctx.broken_tie(name, "a MemoryLogger history differs from the model", dict(case=c, real=real, model=mo))
            else:
                ctx.traces += 1
            oracle_ops(ctx, c, ops, cbs, real)
        elif kind == "logger":
            ws, cbs = meta["ws"], meta["cbs"]
            real = real_logger([(m2, so) for _, m2, so, _ in ws])
            invalid = [not rule_accepts(sp, m2, cbs, "mem") for _, m2, _, sp in ws]
            ntb = sum(1 for w in ws if w[3] == "traceback")
            ctx.case(c, nontrivial=any(invalid) or ntb > 0, tags=["kind:logger", "writes:%d" % len(ws), "invalid:%d" % sum(invalid), "tracebacks:%d" % ntb])
            cmp_real = {k: real[k] for k in ("failed", "tracebacks", "validateAll", "check")}
            if cmp_real != mo:
                ctx.broken_tie(name, "MemoryLogger / check_for_errors differs from the model", dict(case=c, real=real, model=mo))
            else:
                ctx.traces += 1
            if real["write"] != "ok":
                ctx.violation("MemoryLogger.write raised %s" % real["write"], c, key=None)
            if real["failed"] != sum(invalid):
                ctx.violation("%d of the written messages break their type's rule, %d validation failures recorded" % (sum(invalid), real["failed"]), c, key=None)
            if ntb and real["check"] != "UnflushedTracebacks":
                ctx.violation("unflushed tracebacks did not make check_for_errors raise UnflushedTracebacks (%s)" % real["check"], c, key=None)
            if not ntb and (real["check"] == "ok") != (not any(invalid)):
                ctx.violation("check_for_errors -> %s although %d written messages break their type's rule" % (real["check"], sum(invalid)), c, key=None)
            if (real["validateAll"] == "ok") != (not any(invalid)):
                ctx.violation("MemoryLogger.validate -> %s although %d written messages break their type's rule" % (real["validateAll"], sum(invalid)), c, key=None)
        else:
            real = run_tree(meta["tree"], meta["log_invalid"])
            ctx.case(c, nontrivial=tree_depth(meta["tree"]) >= 2, tags=["kind:test", "depth:%d" % tree_depth(meta["tree"]), "invalid-logged:%s" % meta["log_invalid"],
                                                                         "body-swaps-logger:%s" % has_swaps(meta["tree"])])
            ren = {0: 0}
            for x in mo["seen"]:   # the model numbers every MemoryLogger created, the real side only those a body saw
                ren.setdefault(x, len(ren))
            mo = {"seen": [ren[x] for x in mo["seen"]], "final": ren.get(mo["final"], -1), "reported": mo["reported"]}
            if {"seen": real["seen"], "final": real["final"], "reported": real["reported"]} != mo:
                ctx.broken_tie(name, "default logger under capture_logging differs from the model", dict(case=c, real=real, model=mo))
            else:
                ctx.traces += 1
            if not real["restored"] and ("captured" in meta["tree"] or not has_swaps(meta["tree"])):
                ctx.violation("the default logger after a capture_logging test is not the one before it; test %s" % json.dumps(meta["tree"]), c, key=None)
            if real["reported"] != real["must_report"]:
                ctx.violation("%d captured logs hold an entry that must be reported (wrong-typed / missing field, not JSON, unflushed traceback), "
                              "%d check_for_errors failures were recorded by unittest; test %s" % (real["must_report"], real["reported"], json.dumps(meta["tree"])),
                              dict(kind="test", test=meta["tree"], default=0), key=None)
            if not real["inside_ok"]:
                ctx.violation("inside a capture_logging test the default logger is not the MemoryLogger handed to the test", c, key=None)
    if name not in ctx.broken:
        ctx.obligation(name, "correspondence", True, "%d cases compared" % ctx.traces)


def dec_val(j):
    if j is None or isinstance(j, bool):
        return j
    if "i" in j:
        return int(j["i"])
    if "f" in j:
        return j["f"][0] / float(2 ** j["f"][1])
    if "s" in j:
        return j["s"]
    if "bytes" in j:
        return b"x"
    if "cls" in j:
        return ValueError
    if "list" in j:
        return [1, 2] if j["list"][1] else [Opaque()]
    if "dict" in j:
        return {"a": 1} if j["dict"][1] else {"a": Opaque()}
    return {1, 2} if j["obj"][1] else Opaque()


def dec_key(j):
    if isinstance(j, str):
        return j
    if "b" in j:
        return b"k" if j["b"][1] else b"\xff"
    return 5


def rebuild(c, reg):
    """real objects for a recorded validate / logger case (identities are fresh, everything else is as recorded)"""
    from eliot import MessageType, ActionType
    from eliot._traceback import TRACEBACK_MESSAGE

    cbs = Callbacks(reg)
    for i, rules in c["env"]["sers"]:
        rs = []
        for r in rules:
            r = dict(r)
            if "ret" in r:
                r["_ret_obj"] = dec_val(r["ret"])
            if "eq" in r:
                r["eq"] = dec_val(r["eq"])
            rs.append(r)
        cbs.sers[i] = rs
        cbs.fn[("s", i)] = make_callback(rs, True)
    for i, rules in c["env"]["extras"]:
        rs = [dict(r, eq=dec_val(r["eq"])) if "eq" in r else dict(r) for r in rules]
        cbs.extras[i] = rs
        cbs.fn[("e", i)] = make_callback(rs, False)

    def fld(f):
        f = dict(f)
        if f["t"] == "value":
            f["value"] = dec_val(f["value"])
        return f

    def ser_of(sj):
        if sj is None:
            return None, None
        if sj == "traceback":
            return "traceback", TRACEBACK_MESSAGE._serializer
        if "message_type" in sj:
            spec = {"message_type": sj["message_type"], "fields": [fld(f) for f in sj["fields"]]}
            return spec, MessageType(spec["message_type"], [real_field(f, cbs) for f in spec["fields"]], "")._serializer
        spec = {"action_type": sj["action_type"], "start": [fld(f) for f in sj["start"]], "success": [fld(f) for f in sj["success"]],
                "which": sj["which"]}
        at = ActionType(spec["action_type"], [real_field(f, cbs) for f in spec["start"]], [real_field(f, cbs) for f in spec["success"]], "")
        return spec, getattr(at._serializers, spec["which"])

    return cbs, ser_of


def replay(ctx, obj):
    c = obj.get("case") or {}
    if "case" in c and "real" in c:
        c = c["case"]
    reg = Registry()
    if c.get("kind") == "test":
        real = run_tree(c["test"], False)
        real2 = run_tree(c["test"], True)
        print(real, real2)
        if not (real["restored"] and real2["restored"]) and ("captured" in c["test"] or not has_swaps(c["test"])):
            ctx.violation("the default logger after a capture_logging test is not the one before it", c, key=None)
        if real["reported"] != real["must_report"]:
            ctx.violation("%d captured logs hold an entry that must be reported, %d check_for_errors failures were recorded by unittest" % (
                real["must_report"], real["reported"]), c, key=None)
    elif c.get("kind") == "api":
        cbs, ser_of = rebuild(c, reg)
        mfields = [dict(f, value=dec_val(f["value"])) if f["t"] == "value" else dict(f) for f in c["fields"]]
        fields = {k: dec_val(v) for k, v in c["values"].items()}
        obs = api_write(c["message_type"], mfields, fields, c["spelling"], cbs)
        print(obs)
        intended = dict(fields, message_type=c["message_type"])
        intended.update({k: v for k, v in (obs["logged"] or {}).items() if k in RESERVED})
        oracle_api(ctx, c, obs, {"message_type": c["message_type"], "fields": mfields}, cbs, intended)
    elif c.get("kind") == "produce" and "env" in c:
        cbs, ser_of = rebuild(c, reg)
        fl = lambda fs: [dict(f, value=dec_val(f["value"])) if f["t"] == "value" else dict(f) for f in fs]  # noqa
        vals = [{k: dec_val(v) for k, v in d.items()} for d in c["vals"]]
        logger, _, _ = use_types(c["message_type"], c["action_type"], fl(c["fields"]), fl(c["start"]), fl(c["success"]), vals, c["extracted"], cbs)
        ok, failed = outcome(logger.validate), len(logger._failed_validations)
        for m in logger.messages:
            print({k: v for k, v in m.items() if k not in ("timestamp", "task_uuid")})
        print("validate() ->", ok, "; failed validations recorded at write time:", failed)
        if ok != "ok" or failed:
            ctx.violation("messages produced by correct use of declared types do not validate: validate() -> %s, %d failed validations" % (ok, failed), c, key=None)
    elif c.get("kind") == "validate":
        cbs, ser_of = rebuild(c, reg)
        spec, serobj = ser_of(c["ser"])
        m = {dec_key(k): dec_val(v) for k, v in c["msg"]}
        real = real_validate(serobj, m)
        exp_v, exp_m = rule_accepts(spec, m, cbs, "validate"), rule_accepts(spec, m, cbs, "mem")
        print("message", m, "->", real, "rule:", exp_v, exp_m)
        if serobj is not None and (real["validate"] == "ok") != exp_v:
            ctx.violation("_MessageSerializer.validate disagrees with the rule on the recorded message", c, key=None)
        if (real["mem"] == "ok") != exp_m:
            ctx.violation("MemoryLogger validation disagrees with the rule on the recorded message", c, key=None)
    elif c.get("kind") == "ops":
        cbs, ser_of = rebuild(c, reg)
        ops = []
        for o in c["ops"]:
            if isinstance(o, str):
                ops.append(o)
            else:
                spec, serobj = ser_of(o["write"]["ser"])
                ops.append(("w", ("replayed", {dec_key(k): dec_val(v) for k, v in o["write"]["msg"]}, serobj, spec)))
        real = real_ops([o if isinstance(o, str) else (o[1][1], o[1][2]) for o in ops])
        print([o if isinstance(o, str) else "write" for o in ops], "->", real)
        oracle_ops(ctx, c, ops, cbs, real)
    elif c.get("kind") == "logger":
        cbs, ser_of = rebuild(c, reg)
        ws = []
        for w in c["writes"]:
            spec, serobj = ser_of(w["ser"])
            ws.append((spec, serobj, {dec_key(k): dec_val(v) for k, v in w["msg"]}))
        real = real_logger([(m, so) for _, so, m in ws])
        invalid = [not rule_accepts(sp, m, cbs, "mem") for sp, _, m in ws]
        ntb = sum(1 for sp, _, _ in ws if sp == "traceback")
        print(real, "invalid:", invalid, "tracebacks:", ntb)
        if ntb and real["check"] != "UnflushedTracebacks":
            ctx.violation("unflushed tracebacks did not make check_for_errors raise UnflushedTracebacks (%s)" % real["check"], c, key=None)
        if not ntb and (real["check"] == "ok") != (not any(invalid)):
            ctx.violation("check_for_errors disagrees with the rule on the recorded writes", c, key=None)
        if real["failed"] != sum(invalid):
            ctx.violation("recorded validation failures differ from the number of messages breaking their rule", c, key=None)
    elif c.get("kind") == "types":
        print("type-level case: re-running the check body")
        run(ctx)
