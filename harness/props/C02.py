"""C02 - every message is uniquely and contiguously placed by task_uuid/task_level."""
from .. import syscorr, sysinterp
from ..framework import canon

PROP = "C02"
LEAN_TARGETS = ["Eliot.Properties.C02"]
AUDIT = "Eliot/Audit/C02.lean"
TL_THEOREMS = ["Sys.C02.TL.child_eq", "Sys.C02.TL.next_sibling_eq", "Sys.C02.TL.parent_eq", "Sys.C02.TL.is_sibling_of_eq",
               "Sys.C02.TL.nextTaskLevel_refines", "Sys.C02.TL.model_nextLevel_is_translated", "Sys.C02.TL.positions_one_to_n", "Sys.C02.TL.no_writes_elsewhere"]
SKELETON_TARGETS = {"Sys.C02.skeleton_E6_order": "Eliot.Properties.C02Skel",
                    "Sys.UuidSkel.skeleton_E11_task_uuids_are_uuid4": "Eliot.Properties.UuidSkel",
                    # theorems about the statement-by-statement *translation* of TaskLevel / Action._nextTaskLevel (extractor E10)
                    "Sys.C02.TL.translated_position_arithmetic": ("Eliot.Properties.C02TL", "Eliot/Audit/C02TL.lean", TL_THEOREMS)}
THEOREMS = ["Sys.C02.inv_preserved", "Sys.C02.reachable_inv", "Sys.C02.positions_contiguous", "Sys.C02.levels_unique",
            "Sys.C02.actions_unique", "Sys.C02.child_extends_parent", "Sys.C02.reserved_position_unique", "Sys.C02.message_at_slot",
            "Sys.C02.offered_places_unique", "Sys.C02.offered_at_handed_out_places", "Sys.C02.buffered_at_handed_out_places"]
RULE = ("programs of the core language (no failing field serializers, as the property states) with 2-4 destinations and failure masks on "
        "all but one of them; (a) structured batch (with-blocks, tasks, try/except, tracebacks, extractors that raise, remote continuation "
        "of every reserved id) checked for uniqueness, contiguity 1..n, start at 1, end at n, emission order = level order on the healthy "
        "destination's view; (b) unstructured batch (explicit handles, finish before later logging, unused reserved ids) checked for "
        "uniqueness and required fields; non-trivial = depth >= 2, >= 6 messages and at least one destination failure reached")
TRUSTED = ["uuid4() does not collide (modelled as a counter)", "an Action object is used by one thread (threads/coroutines: C05)"]
ASSUMPTIONS = ["no failing field serializers (stated in the property's quantifier)", "each serialized task id is continued at most once",
               "global fields do not override task_uuid/task_level/timestamp"]
EXPLANATION = "slot invariant (contiguity + pairwise distinct places) preserved by every basic step, lifted to all programs"
BASE = dict(p_ser_fail=0.0, p_missing_field=0.0, p_late_add=0.0, p_remove=0.0, n_dests=(2, 4), p_dest_fail=0.3, p_globals=0.15,
            p_ext_fail=0.4, p_extractor=0.6, p_reserved=0.15)
STRUCT = dict(BASE, p_handles=0.0, p_remote=0.3)
UNSTRUCT = dict(BASE, p_handles=0.6, p_remote=0.4)


def healthy_view(case, real, rt):
    """What one destination of the first add_destinations call that never failed has accepted - everything, since the
    start-up backlog is delivered to it (the generators keep the backlog below 1000 here)."""
    if not rt.add_windows:
        return None
    failed = {f[0] for f in rt.failures}
    for d in rt.add_windows[0][2]:
        if d not in failed:
            real["_view_idx"] = [i for i, (dd, m) in enumerate(real["accepted"]) if dd == d]
            return [m for dd, m in real["accepted"] if dd == d]
    return None


def check_fields(m):
    u, l, t = m.get("task_uuid"), m.get("task_level"), m.get("timestamp")
    if not (isinstance(u, dict) and "uuid" in u):
        return "task_uuid missing or not a string uuid"
    if not (isinstance(l, list) and l and all(isinstance(x, int) and x >= 1 for x in l)):
        return "task_level is not a non-empty list of positive integers"
    if not (isinstance(t, dict) and "ts" in t):
        return "timestamp is not a float"
    if not ("message_type" in m or ("action_type" in m and "action_status" in m)):
        return "neither message_type nor action_type+action_status"
    return None


def oracle_common(ctx, case, view):
    seen = {}
    for i, m in enumerate(view):
        e = check_fields(m)
        if e:
            ctx.violation("message %d: %s: %s" % (i, e, canon(m)[:300]), case)
            return False
        k = canon([m["task_uuid"], m["task_level"]])
        if k in seen:
            ctx.violation("two messages share (task_uuid, task_level) = %s" % k, case)
            return False
        seen[k] = i
    return True


def reserved_places(rt):
    out = set()
    for tid in rt.reserved:
        try:
            t = tid.decode("ascii") if isinstance(tid, bytes) else tid
            u, lvl = t.split("@")
            out.add((int(u[5:]), tuple(int(x) for x in lvl.split("/") if x)))
        except Exception:  # noqa
            pass
    return out


def oracle_structured(ctx, case, view, reserved=frozenset(), late_reports=False, flush=None):
    """`flush`: the range of view indexes delivered by the first add_destinations call itself (the start-up backlog), or None"""
    # group by action: an action is identified by (uuid, L) where some message has level L+[1] with action_status started
    # positions used under (uuid, L): first components after L of all messages whose level extends L
    by_uuid = {}
    for i, m in enumerate(view):
        by_uuid.setdefault(m["task_uuid"]["uuid"], []).append((m["task_level"], i, m))
    for u, msgs in by_uuid.items():
        prefixes = set()
        for lvl, i, m in msgs:
            for n in range(len(lvl)):
                prefixes.add(tuple(lvl[:n]))
        for L in prefixes:
            pos = {}
            for lvl, i, m in msgs:
                if len(lvl) > len(L) and tuple(lvl[:len(L)]) == L:
                    k = lvl[len(L)]
                    pos.setdefault(k, i)  # first emission index of item k
            if L == () and len(msgs) == 1 and msgs[0][0] == [1] and "action_status" not in msgs[0][2]:
                continue  # a one-message task
            # a position handed out by serialize_task_id stays empty until (unless) the remote side logs there
            for (ru, rl) in reserved:
                if ru == u and rl[:-1] == L and rl[-1] not in pos:
                    pos[rl[-1]] = -1
            ks = sorted(pos)
            if ks != list(range(1, len(ks) + 1)):
                ctx.violation("positions used inside action %s%s are %s, not 1..n" % (u, list(L), ks), case)
                return
            # a position reserved by serialize_task_id is filled in by the remote side whenever it runs
            remote = {lvl[len(L)] for lvl, i, m in msgs if len(lvl) == len(L) + 2 and tuple(lvl[:len(L)]) == L
                      and lvl[-1] == 1 and str(m.get("action_type", "")).startswith("eliot:remote_task")}
            order = [pos[k] for k in ks if k not in remote and pos[k] >= 0]
            if order != sorted(order):
                # which items were emitted before an item of lower position?
                rest = [k for k in ks if k not in remote and pos[k] >= 0]
                early = [k for j, k in enumerate(rest) if any(pos[k] < pos[k2] for k2 in rest[:j])]
                # (`early`: items emitted before some item of lower position)
                key = None
                if flush is not None and early:
                    # every overtaking item is (or, for a sub-action, begins with) a failure report delivered while the first
                    # add_destinations call was passing on the backlog
                    if all(view[pos[k]].get("message_type") == "eliot:destination_failure" and flush[0] <= pos[k] < flush[1] for k in early):
                        key = {"order": "failure-report-before-remaining-backlog", "during": "first add_destinations"}
                if ctx.violation("inside action %s%s emission order differs from level order (items %s were emitted before items of "
                                 "lower position)" % (u, list(L), early), case, key=key):
                    return
                # (a recorded finding: go on with the remaining clauses for this action and the other actions)
            first = [m for lvl, i, m in msgs if tuple(lvl) == L + (1,)]
            if not first or first[0].get("action_status") != "started":
                ctx.violation("position 1 of action %s%s is not its start message" % (u, list(L)), case)
                return
            ends = [(lvl, m) for lvl, i, m in msgs if len(lvl) == len(L) + 1 and tuple(lvl[:len(L)]) == L
                    and m.get("action_status") in ("succeeded", "failed")]
            if len(ends) > 1:
                ctx.violation("action %s%s has %d end messages" % (u, list(L), len(ends)), case)
                return
            last = len(ks)
            if late_reports and ends:
                # an action finished while it is still the current one receives the eliot:destination_failure reports about
                # its own end message (with `with`, the context is reset first and they go to the parent)
                direct = {lvl[-1]: m for lvl, i, m in msgs if len(lvl) == len(L) + 1 and tuple(lvl[:len(L)]) == L}
                while last > ends[0][0][-1] and direct.get(last, {}).get("message_type") == "eliot:destination_failure":
                    last -= 1
            if ends and ends[0][0][-1] != last:
                ctx.violation("end message of action %s%s is at position %d of %d" % (u, list(L), ends[0][0][-1], len(ks)), case)
                return


def healthy_first(case, rng=None):
    """The property speaks of what a destination that accepts every message observes: keep the first destination of the first
    add_destinations call free of failures (all others keep their masks)."""
    for st in _all_stmts(case["prog"]):
        if st["op"] == "addDests" and st["ds"]:
            d0 = st["ds"][0]
            env = dict(case["env"], destFail=[f for f in case["env"]["destFail"] if f[0] != d0])
            return dict(case, env=env)
    return case


def explicit_finish(case, rng):
    """Rewrite some `with start_action(...)` blocks of a structured program into the explicit spelling
    `a = start_action(...); with a.context(): body; a.finish(exc)` - the action is finished while it is still the
    current one, so whatever eliot itself logs while finishing (an extractor that raises) lands inside it."""
    counter = [0]

    def walk(block):
        out = []
        for s in block:
            s = dict(s)
            for k in ("body", "handler"):
                if k in s:
                    s[k] = walk(s[k])
            if s["op"] == "with" and not (s["body"] and s["body"][-1]["op"] == "raise") and rng.random() < 0.6:
                x = counter[0]
                counter[0] += 1
                exc = None if rng.random() < 0.25 else rng.randint(0, 7)
                sers = s["spec"].get("sers") or {}
                if exc is None and sers.get("success"):
                    # a success field the serializer requires must be there (a missing one is a failing field serializer)
                    s["body"] = s["body"] + [dict(op="addSuccess", x=None, fs=[[k, {"n": 1}] for k, _ in sers["success"]])]
                out.append(dict(op="startAs", x=x, task=s["task"], spec=s["spec"]))
                out.append(dict(op=rng.choice(["inContext", "runIn"]), x=x, body=s["body"] + [dict(op="finish", x=x, exc=exc)]))
            else:
                out.append(s)
        return out
    return healthy_first(dict(case, prog=walk(case["prog"])))


def make_oracle(structured, late_reports=False):
    def oracle(ctx, case, real, rt):
        if real["outcome"] == "stuck":
            return
        bad = [a for a in rt.api if a[1] != "ok"]
        if bad:
            ctx.count("api_call_raised")
            return  # C07's business
        view = healthy_view(case, real, rt)
        if view is None:
            ctx.count("no_healthy_destination")
            return
        ctx.count("healthy_views")
        real["_nview"] = len(view)
        real["_fail"] = len(rt.failures)
        if oracle_common(ctx, case, view) and structured:
            n0, n1, _ = rt.add_windows[0]
            vi = real["_view_idx"]
            flush = (sum(1 for i in vi if i < n0), sum(1 for i in vi if i < n1))
            oracle_structured(ctx, case, view, reserved_places(rt), late_reports, flush if flush[1] > flush[0] else None)
    return oracle


def nontrivial(case, real, st):
    return st["depth"] >= 2 and real.get("_nview", 0) >= 6 and real.get("_fail", 0) >= 1


def run(ctx):
    from .. import uuidfresh
    uuidfresh.check(ctx)
    n = ctx.budget(500, 16000)
    syscorr.run_programs(ctx, n // 5, dict(STRUCT, p_ext_fail=0.7, p_extractor=0.8), make_oracle(True, late_reports=True), label="explicit-finish",
                         nontrivial=nontrivial, compare=["offered", "accepted", "outcome"], transform=explicit_finish)
    # the first add_destinations call comes late (maybe inside an open action): the start-up backlog is delivered by that call
    syscorr.run_programs(ctx, n // 5, dict(STRUCT, p_late_add=1.0, max_stmts=14), make_oracle(True), label="late-add",
                         nontrivial=nontrivial, compare=["offered", "accepted", "outcome"], transform=healthy_first)
    syscorr.run_programs(ctx, (2 * n) // 5, STRUCT, make_oracle(True), label="struct", nontrivial=nontrivial,
                         compare=["offered", "accepted", "outcome"], transform=healthy_first)
    syscorr.run_programs(ctx, (2 * n) // 5, UNSTRUCT, make_oracle(False), label="unstruct", nontrivial=nontrivial,
                         compare=["offered", "accepted", "outcome"], transform=healthy_first)


def _all_stmts(block):
    for s in block:
        yield s
        for k in ('body', 'handler'):
            yield from _all_stmts(s.get(k, []))


def replay(ctx, obj):
    if (obj.get("case") or {}).get("kind") == "uuid-fresh":
        from .. import uuidfresh
        return uuidfresh.check(ctx, [obj["case"]["scenario"]])
    case = obj["case"]
    real, rt = sysinterp.run_case(case)
    print(real["outcome"], len(real["offered"]))
    make_oracle(obj.get('extra') != 'unstructured', late_reports=any(s['op'] == 'startAs' for s in _all_stmts(case['prog'])))(ctx, case, real, rt)
