"""C11 - a crash loses no acknowledged message and leaves a parseable log.

A child process (harness/c11_child.py, /venv/bin/python, PYTHONPATH = the eliot repo) logs a generated
program through `eliot.to_file` into a file-object wrapper around a raw fd.  The wrapper can SIGKILL
the process before a write, inside a (chunked) write at a chunk boundary or a byte offset, between
write and flush, after the flush before the logging call returns; the parent also sends SIGKILL at
random times.  The child acknowledges every returned logging call on a pipe.

Oracle (model-free): the file is the complete lines of a prefix of the emitted messages, covering at
least the acknowledged ones, followed by at most one newline-free fragment (which, when the length of
the line being written is known, is a proper prefix of it); the reader + the real `eliot.parse.Parser`
raise nothing; every task appears with exactly the messages that are on disk, started-but-unfinished
actions have a start and no end, and no task is complete unless all its messages are present.
Tie: for the deterministic kill points the model's `crash k (logAll lines css)` (Driver/C10.lean,
op "crash") must predict bytes on disk, acknowledged count and number of readable lines exactly.
"""
import json
import os
import select
import subprocess
import tempfile
import time
from concurrent.futures import ThreadPoolExecutor
from pathlib import Path

from ..framework import lean_driver, InfraError, REPO, PY

PROP = "C11"
LEAN_TARGETS = ["Eliot.Properties.C11"]
AUDIT = "Eliot/Audit/C11.lean"
GENERATED_OBLIGATIONS = ["Generated.fileDestCall = EJ.stdShape"]
THEOREMS = ["EJ.C11.crash_prefix", "EJ.C11.acked_after", "EJ.C11.reader_drops_only_fragment", "EJ.C11.crash_readable",
            "EJ.C11.crash_readable_file", "EJ.C11.crash_parse", "EJ.C11.crash_parse_flat"]
RULE = ("program = 1-6 top-level tasks of nested start_action / log_message (depth <= 3, 3-60 messages, fields incl. strings "
        "of 8 KiB - 1 MiB that force chunked writes; in 40% of the programs some fields hold a value whose JSON default hook itself "
        "logs a message from inside the destination - re-entrant logging, acknowledged like any other call); kill = right after such a nested call returned,  self-SIGKILL before write / in write at chunk boundary or byte "
        "offset / between write and flush / after flush, on a raw-fd sink or a BufferedWriter sink, or a parent SIGKILL after a "
        "random delay; non-trivial = the kill lands strictly inside a logging call (self kills; parent kills that leave a fragment "
        "or an unacknowledged complete line); distinct by canonical hash")
TRUSTED = ["the OS keeps data handed to write(2) when the process is SIGKILLed (page cache; not power loss)",
           "the kill wrapper harness/c11_child.py (chunked os.write loop / io.BufferedWriter) as a stand-in for real file objects"]
ASSUMPTIONS = ["messages are serialisable (C10 domain); one process, one thread",
               "parser statements are re-used from C09 (EJ.C11.crash_parse imports PM.C09.feed_ok)"]
EXPLANATION = ("theorems over the micro-step crash model of a FileDestination logging call; the model is tied to real kills of a real "
               "process by exact prediction at deterministic kill points; oracles check the statement on every observed file")

CHILD = str(Path(__file__).resolve().parent.parent / "c11_child.py")
RESERVED = ("timestamp", "task_uuid", "task_level", "message_type", "action_type", "action_status", "exception", "reason")


# ---- generation ---------------------------------------------------------------------------------

def g_val(rng, big):
    """big = 0 (no large string) or the largest size allowed"""
    r = rng.random()
    if big and r < (0.25 if big > 100000 else 0.04):
        return {"$big": rng.choice([n for n in (8192, 8193, 20000, 65536, 65537, 200000, 1 << 20) if n <= big]),
                "c": rng.choice(["x", "é", "\n", "\""])}
    if r < 0.3:
        return rng.randint(-10**6, 10**18)
    if r < 0.4:
        return rng.choice([None, True, False, 1.5, -0.0, 1e22])
    if r < 0.8:
        return "".join(chr(rng.choice([97, 98, 10, 13, 34, 92, 0x2028, 0x1F600, 233, 0])) for _ in range(rng.randint(0, 12)))
    if r < 0.9:
        return [g_val(rng, 0) for _ in range(rng.randint(0, 3))]
    return {"k%d" % i: g_val(rng, 0) for i in range(rng.randint(0, 3))}


def g_fields(rng, big, noisy=0.0):
    d = {"f%d" % i: g_val(rng, big) for i in range(rng.choice([0, 1, 1, 2, 3]))}
    # a value whose JSON default hook logs a message of its own, from inside the destination (re-entrant logging)
    for i in range(2):
        if rng.random() < noisy:
            d["z%d" % i] = {"$noisy": rng.randint(0, 999)}
    return d


def g_ops(rng, depth, big, budget, noisy=0.0):
    ops = []
    for _ in range(rng.randint(1, 3)):
        if budget[0] <= 0:
            break
        if depth > 0 and rng.random() < 0.5:
            budget[0] -= 2
            ops.append({"op": "action", "type": rng.choice(["app:a", "app:b", "x\ny", ""]), "fields": g_fields(rng, big),
                        "body": g_ops(rng, depth - 1, big, budget, noisy), "fail": rng.random() < 0.3, "end": g_fields(rng, 0)})
        else:
            budget[0] -= 1
            ops.append({"op": "msg", "type": rng.choice(["m:1", "m:2"]), "fields": g_fields(rng, big, noisy)})
    return ops


def g_program(rng, big, long_, noisy=0.0):
    ops = []
    budget = [rng.randint(100, 300) if long_ else rng.randint(3, 40)]
    while budget[0] > 0 and (long_ or len(ops) < 6):
        ops += g_ops(rng, 3, big, budget, noisy)
    return ops


def expand(v):
    if isinstance(v, dict) and "$big" in v:
        return str(v.get("c", "x")) * int(v["$big"])
    if isinstance(v, dict) and "$noisy" in v:
        return "noisy-%d" % v["$noisy"]          # what the child's JSON default hook returns for it
    if isinstance(v, dict):
        return {k: expand(x) for k, x in v.items()}
    if isinstance(v, list):
        return [expand(x) for x in v]
    return v


def skeleton(ops, task=None, out=None):
    """expected messages in emission order: (task index, kind, type, fields)"""
    out = [] if out is None else out
    for i, op in enumerate(ops):
        t = task if task is not None else ("t", len([1 for x in out if x["top"]]))
        top = task is None
        if op["op"] == "msg":
            # the hook's own messages are logged (and their calls return) while the outer message is being serialised: they
            # come first; outside an action each is a task of its own, inside one they belong to that action
            for v in op["fields"].values():
                if isinstance(v, dict) and "$noisy" in v:
                    tn = task if task is not None else ("t", len([1 for x in out if x["top"]]))
                    out.append({"task": tn, "top": top, "kind": "msg", "type": "hook:note", "fields": {"n": v["$noisy"]}, "nested": True})
            t = task if task is not None else ("t", len([1 for x in out if x["top"]]))
            out.append({"task": t, "top": top, "kind": "msg", "type": op["type"], "fields": expand(op["fields"])})
        else:
            out.append({"task": t, "top": top, "kind": "start", "type": op["type"], "fields": expand(op["fields"])})
            skeleton(op["body"], t, out)
            out.append({"task": t, "top": False, "kind": "end", "type": op["type"], "fail": op["fail"],
                        "fields": {} if op["fail"] else expand(op["end"])})
    return out


def g_kill(rng, total, sink, nnested=0):
    if sink.startswith("pyfile:"):
        # the file object is the application's own: the kill lands right after a logging call has returned
        return {"at": "after-ack", "n": rng.randrange(total)}
    r = rng.random()
    if nnested and r < 0.45:
        return {"at": "after-nested-ack", "n": rng.randrange(nnested)}
    r = rng.random()
    n = rng.randrange(total)
    if r < 0.2:
        return {"at": "before-write", "n": n}
    if r < 0.55 and sink == "raw":
        if rng.random() < 0.5:
            return {"at": "in-write", "n": n, "chunks": rng.choice([0, 1, 1, 2, 3, 7]), "offset": None}
        return {"at": "in-write", "n": n, "chunks": None,
                "offset": rng.choice([0, 1, 2, 17, 100, 4095, 4096, 4097, 70000, rng.randint(0, 300), rng.randint(0, 1 << 20)] + [rng.randint(1, 90) for _ in range(10)])}
    if r < 0.8:
        return {"at": "after-write", "n": n}
    return {"at": "after-flush", "n": n}


# ---- running a child ------------------------------------------------------------------------------

def run_child(spec_in, parent_kill_delay=None, timeout=60):
    """returns dict(data=bytes, acks=int, ready, done, wlens=[...], rc)"""
    with tempfile.TemporaryDirectory(prefix="c11-") as d:
        r, w = os.pipe()
        spec = dict(spec_in, log=os.path.join(d, "eliot.log"), ackfd=w)
        sp = os.path.join(d, "spec.json")
        with open(sp, "w") as f:
            json.dump(spec, f)
        env = dict(os.environ, PYTHONPATH=str(REPO), PYTHONDONTWRITEBYTECODE="1", PYTHONWARNINGS="ignore")
        proc = subprocess.Popen([PY, CHILD, sp], env=env, pass_fds=(w,), stdout=subprocess.PIPE, stderr=subprocess.PIPE, cwd=d)
        os.close(w)
        buf = b""
        t0 = time.time()
        t_ready = t_end = None
        killed_by_parent = False
        try:
            deadline = None
            while True:
                left = timeout - (time.time() - t0)
                if left <= 0:
                    proc.kill()
                    raise InfraError("C11 child timed out: %s" % proc.stderr.read()[-500:])
                wait = left if deadline is None else max(0.0, min(left, deadline - time.time()))
                rl, _, _ = select.select([r], [], [], wait)
                if deadline is not None and time.time() >= deadline and not killed_by_parent:
                    proc.kill()
                    killed_by_parent = True
                    deadline = None
                if rl:
                    chunk = os.read(r, 65536)
                    if not chunk:
                        t_end = time.time()
                        break
                    buf += chunk
                    if t_ready is None and b"R" in buf:
                        t_ready = time.time()
                    if parent_kill_delay is not None and deadline is None and not killed_by_parent and b"R" in buf:
                        deadline = time.time() + parent_kill_delay
        finally:
            os.close(r)
            try:
                proc.wait(timeout=10)
            except subprocess.TimeoutExpired:
                proc.kill()
                proc.wait()
        err = proc.stderr.read().decode("utf-8", "replace")
        proc.stdout.close()
        proc.stderr.close()
        try:
            data = open(spec["log"], "rb").read()
        except OSError:
            data = b""
        who = None
        if spec.get("whoami"):
            try:
                who = open(os.path.join(d, "whoami")).read()
            except OSError:
                pass
    text = buf.decode("ascii", "replace")
    wlens = []
    acks = 0
    i = 0
    ready = done = False
    while i < len(text):
        c = text[i]
        if c == "W":
            j = text.index(";", i)
            wlens.append(int(text[i + 1:j]))
            i = j + 1
            continue
        if c == "A":
            acks += 1
        elif c == "R":
            ready = True
        elif c == "D":
            done = True
        i += 1
    return dict(data=data, acks=acks, ready=ready, done=done, wlens=wlens, rc=proc.returncode, stderr=err[-800:], who=who,
                killed_by_parent=killed_by_parent, run_s=(t_end - t_ready) if t_ready and t_end else None)


def import_failure(res):
    """did the child die before it was ready because the eliot package (or what it imports) failed to load / install its
    destination?  That is a failure of the code under test, not of the harness."""
    if res["ready"] or res.get("killed_by_parent"):
        return None
    err = res.get("stderr") or ""
    if res["rc"] not in (None, 0) and ("Error" in err or "Exception" in err) and ("eliot" in err or str(REPO) in err):
        return err.strip().splitlines()[-1][:300] if err.strip() else "no message"
    return None


TIE = "correspondence:crash-model"


# ---- oracle ----------------------------------------------------------------------------------------

def line_matches(msg, sk):
    if not isinstance(msg, dict):
        return "line is not a JSON object"
    if not isinstance(msg.get("task_uuid"), str) or not isinstance(msg.get("task_level"), list) or not isinstance(msg.get("timestamp"), float):
        return "task_uuid / task_level / timestamp missing or ill-typed"
    if sk["kind"] == "msg":
        if msg.get("message_type") != sk["type"] or "action_type" in msg:
            return "expected message_type %r" % sk["type"]
    else:
        want = "started" if sk["kind"] == "start" else ("failed" if sk["fail"] else "succeeded")
        if msg.get("action_type") != sk["type"] or msg.get("action_status") != want:
            return "expected action %r %s, got %r %r" % (sk["type"], want, msg.get("action_type"), msg.get("action_status"))
    user = {k: v for k, v in msg.items() if k not in RESERVED}
    if user != sk["fields"]:
        return "user fields differ from what was logged"
    return None


def count_tree(node):
    """(messages, starts, ends) in a parsed task tree"""
    from eliot._message import WrittenMessage
    if isinstance(node, WrittenMessage):
        return 1, 0, 0
    m = s = e = 0
    if node.start_message is not None:
        m, s = m + 1, s + 1
    if node.end_message is not None:
        m, e = m + 1, e + 1
    for ch in node._children.values():
        a, b, c = count_tree(ch)
        m, s, e = m + a, s + b, e + c
    return m, s, e


def oracle(ctx, case, sk, res):
    from eliot.parse import Parser
    data, acks = res["data"], res["acks"]
    parts = data.split(b"\n")
    complete, frag = parts[:-1], parts[-1]
    total = len(sk)
    obs = dict(complete=len(complete), frag=len(frag), acks=acks, total=total)
    bad = lambda what: ctx.violation(what, case, extra=obs)  # noqa
    if not res["ready"]:
        why = import_failure(res)
        if why is None:
            raise InfraError("C11 child died before it was ready: rc=%s %s" % (res["rc"], res["stderr"]))
        ctx.broken_tie(TIE, "the eliot package no longer loads in the child process: %s" % why, case)
        return False
    if len(complete) < acks:
        bad("%d logging calls had returned but only %d complete lines are in the file" % (acks, len(complete)))
        return False
    if len(complete) > total:
        bad("the file holds %d lines for %d emitted messages" % (len(complete), total))
        return False
    msgs = []
    for i, l in enumerate(complete):
        try:
            m = json.loads(l.decode("utf-8"))
        except (UnicodeError, ValueError):
            bad("complete line %d is not valid UTF-8 JSON" % i)
            return False
        why = line_matches(m, sk[i])
        if why:
            bad("line %d is not message %d of the program: %s" % (i, i, why))
            return False
        msgs.append(m)
    if frag:
        if len(complete) >= total:
            bad("a fragment follows the last message of the program")
            return False
        if not frag.startswith(b"{"):
            bad("the trailing fragment is not the beginning of a JSON object line")
            return False
        wl = res["wlens"]
        if len(wl) > len(complete) and len(frag) >= wl[len(complete)]:
            bad("the trailing fragment is as long as the whole line being written but is not newline-terminated")
            return False
    if res["done"] and (len(complete) != total or frag or acks != total):
        bad("the program ran to its end but the file holds %d of %d lines (fragment %d bytes, %d acknowledged)" % (len(complete), total, len(frag), acks))
        return False
    # reader + real parser
    try:
        tasks = list(Parser.parse_stream(msgs))
    except Exception as e:  # noqa
        bad("eliot.parse.Parser raised %s on the crashed log" % type(e).__name__)
        return False
    present, expect_n, starts, ends = {}, {}, {}, {}
    for s in sk:
        expect_n[s["task"]] = expect_n.get(s["task"], 0) + 1
    uuid_of = {}
    for s, m in zip(sk, msgs):
        t = s["task"]
        if uuid_of.setdefault(t, m["task_uuid"]) != m["task_uuid"]:
            bad("messages of one task carry different task_uuids")
            return False
        present[t] = present.get(t, 0) + 1
        starts[t] = starts.get(t, 0) + (s["kind"] == "start")
        ends[t] = ends.get(t, 0) + (s["kind"] == "end")
    by_uuid = {}
    for t in tasks:
        root = t.root()
        by_uuid.setdefault(root.task_uuid, []).append(t)
    if sorted(by_uuid) != sorted(uuid_of.values()) or any(len(v) != 1 for v in by_uuid.values()):
        bad("the parser yielded %d tasks for %d tasks with messages on disk" % (len(tasks), len(uuid_of)))
        return False
    for t, u in uuid_of.items():
        task = by_uuid[u][0]
        m, s, e = count_tree(task.root())
        if m != present[t] or s != starts[t] or e != ends[t]:
            bad("task %s: %d messages on disk (%d starts, %d ends) but the parsed tree holds %d (%d starts, %d ends)"
                % (t, present[t], starts[t], ends[t], m, s, e))
            return False
        if task.is_complete() and present[t] != expect_n[t]:
            bad("task %s is reported complete with %d of its %d messages on disk" % (t, present[t], expect_n[t]))
            return False
        if not task.is_complete() and present[t] == expect_n[t]:
            bad("task %s has all its %d messages on disk but is not reported complete" % (t, expect_n[t]))
            return False
    return True


# ---- model tie ---------------------------------------------------------------------------------------

def model_request(kill, sink, chunk, wlens, sk=None):
    """deterministic kill points on the raw sink -> (lens, css, k); None if not predictable"""
    if kill is not None and kill["at"] == "after-nested-ack":
        # the hook's k-th logging call has returned: its line and everything before it is complete and acknowledged
        j = [i for i, x in enumerate(sk or []) if x.get("nested")][kill["n"]]
        if len(wlens) <= j:
            return None
        lens = wlens[:j + 1]
        return lens, [[] for _ in lens], 3 * (j + 1)
    if sink != "raw" or kill is None:
        return None
    n = kill["n"]
    if kill["at"] == "before-write":
        # the write call of message n was entered (its length is reported) but nothing happened
        lens = wlens[:n]
        return lens, [[] for _ in lens], 3 * n
    if len(wlens) <= n:
        return None
    lens = wlens[:n + 1]
    css = [[] for _ in lens]
    L = lens[n]
    if kill["at"] == "in-write":
        if kill.get("offset") is not None:
            off = min(kill["offset"], L)
        else:
            off = min(kill["chunks"] * chunk, L)
        css[n] = [off]
        return lens, css, 3 * n + 2
    if kill["at"] == "after-write":
        css[n] = [L]
        return lens, css, 3 * n + 2
    if kill["at"] == "after-flush":
        return lens, css, 3 * n + 2      # append, spillAll; not yet ack
    return None


# ---- run ---------------------------------------------------------------------------------------------

def one(job):
    spec = dict(ops=job["ops"], sink=job["sink"], chunk=job["chunk"], kill=job["kill"], bufsize=job.get("bufsize"))
    return run_child(spec, parent_kill_delay=job.get("delay"))


def run(ctx):
    rng = ctx.rng("gen")
    # which eliot does the child import?
    probe = run_child(dict(ops=[{"op": "msg", "type": "m:1", "fields": {}}], sink="raw", chunk=4096, kill=None, whoami=True))
    why = import_failure(probe)
    if why is not None:
        # nothing can be logged at all: no kill point can be exercised, the correspondence cannot be established
        ctx.case({"kind": "probe"}, nontrivial=False, tags=["child-import-failed"])
        ctx.broken_tie(TIE, "the eliot package no longer loads in the child process (import eliot / to_file): %s" % why, {"kind": "probe"})
        return
    who = probe.get("who") or ""
    ctx.extra["child_eliot_file"] = who
    if not os.path.realpath(who).startswith(os.path.realpath(str(REPO)) + os.sep):
        raise InfraError("C11 child imported eliot from %r, not from %s" % (who, REPO))
    # calibration for parent kills: time per message of a long program
    cal_ops = g_program(ctx.rng("cal"), 65537, True)
    cal = run_child(dict(ops=cal_ops, sink="raw", chunk=65536, kill=None))
    ncal = len(skeleton(cal_ops))
    per_msg = max(1e-5, (cal["run_s"] or 0.0) / max(1, ncal))
    ctx.extra["calibration"] = dict(messages=ncal, per_message_s=per_msg)

    jobs = []
    nself = ctx.budget(110, 2000)
    nparent = ctx.budget(90, 1000)
    ncontrol = ctx.budget(4, 40)
    for i in range(nself + nparent + ncontrol):
        parent = nself <= i < nself + nparent
        big = (65537 if parent else 1 << 20) if rng.random() < 0.45 else 0
        noisy = 0.25 if rng.random() < 0.4 else 0.0
        ops = g_program(rng, big, long_=parent, noisy=noisy)
        sk = skeleton(ops)
        r_sink = rng.random()
        sink = "raw" if r_sink < 0.6 else "buffered" if r_sink < 0.8 else "pyfile:" + rng.choice(["ab", "a+b", "w+b", "r+b", "a", "a+", "wb", "a:write_through", "a:line_buffering", "w:write_through"])
        chunk = rng.choice([1, 7, 512, 4096, 65536]) if not big else rng.choice([4096, 65536, 1 << 20])
        if chunk < 512 and sum(1 for _ in sk) > 30:
            chunk = 4096
        job = dict(ops=ops, sink=sink, chunk=chunk, kill=None, bufsize=rng.choice([8192, 65536] + ([None, None] if sink.startswith("pyfile:") else [])))
        if i < nself:
            job["kill"] = g_kill(rng, len(sk), sink, sum(1 for x in sk if x.get("nested")))
            job["kind"] = "self"
        elif parent:
            job["delay"] = rng.uniform(0, 0.6 * per_msg * len(sk)) if rng.random() < 0.85 else rng.uniform(0, 0.003)
            job["kind"] = "parent"
        else:
            job["kind"] = "control"
        jobs.append((job, sk))
    with ThreadPoolExecutor(max_workers=ctx.budget(8, 12)) as ex:
        results = list(ex.map(lambda js: one(js[0]), jobs))

    reqs, after = [], []
    for (job, sk), res in zip(jobs, results):
        case = {k: job[k] for k in ("ops", "sink", "chunk", "kill", "bufsize", "kind")}
        if "delay" in job:
            case["delay"] = job["delay"]
        parts = res["data"].split(b"\n")
        ncomplete, nfrag = len(parts) - 1, len(parts[-1])
        inside = (job["kind"] == "self" and not res["done"]) or (job["kind"] == "parent" and (nfrag > 0 or ncomplete > res["acks"]))
        where = job["kill"]["at"] if job["kill"] else job["kind"]
        ctx.case(case, nontrivial=inside, tags=["kill:" + where, "sink:" + job["sink"], "kind:" + job["kind"]]
                 + (["fragment-left"] if nfrag else []) + (["unacked-line-on-disk"] if ncomplete > res["acks"] else [])
                 + (["ran-to-end"] if res["done"] else []) + (["program-with-reentrant-logging"] if any(x.get("nested") for x in sk) else []))
        ctx.count("messages-acked", n=res["acks"])
        if job["kind"] == "self" and res["done"]:
            # n < number of messages, so a destination doing one write + one flush per message passes this point
            ctx.violation("the program ran to its end but the file object never reached the point '%s' of message %d: "
                          "it did not receive one write followed by one flush for each of the %d messages"
                          % (job["kill"]["at"], job["kill"]["n"], len(sk)), case)
            continue
        if job["kind"] == "control" and (not res["done"] or res["rc"] != 0):
            ctx.violation("a program without any kill did not run to its end (rc=%s): %s" % (res["rc"], res["stderr"][-300:]), case)
            continue
        ok = oracle(ctx, case, sk, res)
        mr = model_request(job["kill"], job["sink"], job["chunk"], res["wlens"], sk) if ok else None
        if mr is not None and sum(mr[0]) <= 400000:
            lens, css, k = mr
            reqs.append({"op": "crash", "lens": lens, "css": css, "k": k})
            after.append((case, dict(disk=len(res["data"]), acked=res["acks"], read=ncomplete)))
    name = "correspondence:crash-model"
    if reqs:
        answers = lean_driver("Driver/C10.lean", reqs)
        for (case, obs), ans in zip(after, answers):
            got = {k: ans.get(k) for k in ("disk", "acked", "read")}
            if got != obs:
                ctx.broken_tie(name, "kill point: model predicts %s, the real file shows %s" % (got, obs), case)
            else:
                ctx.traces += 1
    if name not in ctx.broken:
        ctx.obligation(name, "correspondence", True, "%d deterministic kill points predicted exactly" % ctx.traces)


def replay(ctx, obj):
    case = obj.get("case") or {}
    sk = skeleton(case["ops"])
    res = one(case)
    parts = res["data"].split(b"\n")
    print("complete lines: %d, fragment: %d bytes, acknowledged: %d, emitted by the program: %d, ran to end: %s"
          % (len(parts) - 1, len(parts[-1]), res["acks"], len(sk), res["done"]))
    if case.get("kind") == "self" and res["done"]:
        ctx.violation("the program ran to its end but the file object never reached the point '%s' of message %d: "
                      "it did not receive one write followed by one flush for each of the %d messages"
                      % (case["kill"]["at"], case["kill"]["n"], len(sk)), case)
        return
    oracle(ctx, case, sk, res)
