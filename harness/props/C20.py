"""C20 - bundled readers render every message completely and survive foreign input.

Cases
  format : (each message is also rendered by both formatters on ONE dictionary object, in either order: renderings as of fresh
           copies, dictionary unchanged)
           generated Eliot messages (arbitrary field names incl. the skip/first sets, "=", blanks, non-ASCII,
           a newline inside a field NAME; values: multi-line strings, escapes, nesting) x pretty/compact x UTC/local
  cli    : byte streams mixing such messages with arbitrary bytes, invalid UTF-8, non-JSON text, empty lines,
           JSON scalars/arrays, objects lacking required fields or with wrongly typed ones, through
           `eliot.prettyprint._main` in-process (patched module-level stdin/stdout, sys.argv)
  filter : Eliot lines through `eliot.filter.main` with identity / projection / SKIP expressions

Tie: lean/Eliot/Model/Pretty.lean through Driver/C20.lean.  pprint.pformat, json.dumps, str, datetime and
json.loads are parameters of the model; the harness tabulates them (calling the stdlib directly, not Eliot)
on the values of the case.  Compared: the exact output text / the raised class, and for streams the list of
chunks written before an abort and the class that aborted the program.

Oracles (never look at the model): see `oracle_format`, `oracle_cli`, `oracle_filter`.
"""
import ast
import datetime as _dt
import io
import json
import math
import os
import re
import sys
import time
from fractions import Fraction

from ..framework import lean_driver

PROP = "C20"
LEAN_TARGETS = ["Eliot.Properties.C20"]
AUDIT = "Eliot/Audit/C20.lean"
SKELETON_TARGETS = {"Eliot.ShapesSkel.C20_shapes (E16: pretty_format, compact_format, eliot-prettyprint's _main and EliotFilter.run as statement lists)": ("Eliot.Properties.ShapesSkel", "Eliot/Audit/ShapesSkel.lean", ["Eliot.ShapesSkel.prettyFormatBody_shape", "Eliot.ShapesSkel.compactFormatBody_shape", "Eliot.ShapesSkel.prettyMainBody_shape", "Eliot.ShapesSkel.filterRunBody_shape"])}
THEOREMS = [
    "PP.header_first",
    "PP.header_first_compact",
    "PP.header_then_all_fields_once",
    "PP.shown_rest_sorted",
    "PP.compact_single_line",
    "PP.compact_not_single_line_newline_in_key",
    "PP.cli_total",
    "PP.cli_run_total",
    "PP.writeResult_spec",
    "PP.cli_escapes_unencodable",
    "PP.cli_reports_non_object",
    "PP.cli_reports_bad_task_level",
    "PP.cli_aborts_on_pformat_recursion",
    "PP.cli_total_needs_pformat",
    "PP.format_error_cases",
    "PP.filter_identity",
    "PP.filter_skip",
    "PP.filter_skip_line",
]
RULE = ("every case runs in one of 8 reader time zones (UTC, fixed offsets, daylight-saving zones of both hemispheres); "
        "format: generated message x formatter x timezone; cli: stream of 2-8 lines (Eliot lines plus foreign ones, at most one "
        "line of a kind that is known to abort the program per stream) x formatter x timezone; filter: 2-7 Eliot lines x expression; "
        "non-trivial = message with a nested or multi-line value, or a stream with >= 1 foreign line; distinct by canonical hash")
TRUSTED = ["pprint.pformat, json.dumps/loads, str(), datetime.(utc)fromtimestamp().isoformat(), bytes repr: parameters of the model, "
           "tabulated by the harness from the standard library on each case's values",
           "in-process execution of _main / filter.main with patched stdin/stdout/argv stands for the console scripts"]
ASSUMPTIONS = ["eliot.filter is read as one of the 'bundled readers' that must survive foreign input: it aborts at the first line that is not JSON "
               "(known finding {tool: eliot.filter, line: not-json}); JSON values that are not objects are only fed to expressions that do not look inside J",
               "messages are what json.loads returns (dict with distinct str keys, JSON values)",
               "compact_single_line: no key contains a newline and neither str(task_uuid), str(level element), the timestamp text nor json.dumps output does",
               "cli_total: json.loads raises only ValueError/RecursionError; datetime and pprint.pformat raise nothing outside (TypeError, ValueError, "
               "OverflowError, OSError) - the pformat part fails for values nested a few hundred deep (RecursionError): finding {line: deeply-nested-value}"]
EXPLANATION = ("structure theorems over the transliterated formatters; totality of the CLI (tree at 36c5d35) proved for every input line under "
               "hypotheses on the stdlib parameters only, with the witness that the pformat hypothesis is needed; model tied to the real readers "
               "output-for-output")

SKIP_FIELDS = {"timestamp", "task_uuid", "task_level", "message_type", "action_type", "action_status"}
FIRST_FIELDS = ["action_type", "message_type", "action_status"]
REQUIRED = ["task_level", "task_uuid", "timestamp"]
DEEP = 450      # pprint gives up from about 330 levels (inside this harness); json.loads / json.dumps cope up to about 1200
SHALLOW = 300   # ... and must cope below that: lines nested 100, 200, 280 deep are ordinary input
DEFAULT_RECURSION_LIMIT = sys.getrecursionlimit()
TZ = "XVT-05:45"  # POSIX TZ string: fixed offset UTC+5:45, needs no tzdata (also the zone of cases recorded before zones were varied)
# the reader's own time zone is part of "all environments": UTC, fixed offsets, zones with daylight saving on either hemisphere.
# POSIX rule strings stand in for the named zones where tzdata is missing.
TZS = ["UTC", TZ, "Asia/Kolkata", "Europe/London", "America/New_York", "Australia/Sydney",
       "GMT0BST,M3.5.0/1,M10.5.0/2", "EST5EDT,M3.2.0,M11.1.0"]
if not os.path.exists("/usr/share/zoneinfo/Europe/London"):
    TZS = ["UTC0", TZ, "IST-5:30", "GMT0BST,M3.5.0/1,M10.5.0/2", "EST5EDT,M3.2.0,M11.1.0", "AEST-10AEDT,M10.1.0,M4.1.0/3"]
LINE_BOUNDARIES = "\n\r\x0b\x0c\x1c\x1d\x1e\x85\u2028\u2029"


# ---- generation -----------------------------------------------------------------------------

NAMES = ["x", "y", "key", "result", "exception", "reason", "message_type", "action_type", "action_status", "a b", "k=v", "é", "日本",
         "", "Z", "_", "a:b", "| ", "  indent", "\t", "task", "0", "\U0001f600"]
STRS = ["", "a", "hello world", "line1\nline2", "tab\there", "back\\slash", "lit\\n", "quote'\"", "é", " ", "\U0001f600",
        "x" * 50, "many words " * 6, "a\nb\nc\n", "\\t", "{not json", "k=v w=z", "\x00\x1f", "\ud800",
        "na\u00efve caf\u00e9", "\u2028", "next\x85line", "caf\udce9", "a\udc80b", "\ud83d", "\u65e5\u672c\u8a9e \U0001f600"]


def gen_value(rng, depth=0):
    r = rng.random()
    if depth >= 3 or r < 0.55:
        k = rng.random()
        if k < 0.08:
            return None
        if k < 0.16:
            return rng.random() < 0.5
        if k < 0.36:
            return rng.choice([0, 1, -1, 7, 42, 10 ** 6, -2 ** 63, 2 ** 64, 10 ** 30])
        if k < 0.5:
            return rng.choice([0.0, 1.5, -2.25, 1e-7, 1e22, 3.141592653589793, 1e300, -0.0])
        return rng.choice(STRS)
    if r < 0.8:
        return [gen_value(rng, depth + 1) for _ in range(rng.randint(0, 4))]
    return {rng.choice(NAMES + ["n1", "n2"]): gen_value(rng, depth + 1) for _ in range(rng.randint(0, 3))}


def gen_ts(rng):
    r = rng.random()
    if r < 0.4:
        return rng.uniform(0, 2e9)
    if r < 0.55:
        return float(rng.randint(0, 2 * 10 ** 9))
    if r < 0.7:
        return rng.randint(0, 2 * 10 ** 9)
    if r < 0.8:
        return rng.randint(0, 10 ** 9) + rng.choice([0.5e-6, 1.5e-6, 0.999999, 0.9999995, 0.000001, 0.1234565])
    if r < 0.93:
        return rng.choice([0, 0.0, 1.0000005, 86399.999999, 951782400.0, 1709164800.5, 4102444799.999999, 32503680000.0])
    # summer / winter noon, and the hours around the 2021 daylight-saving changes of London, New York and Sydney
    base = rng.choice([1625140800, 1610712000, 1616893200, 1635642000, 1615705200, 1636264800, 1617465600, 1633190400])
    return base + rng.choice([0, -1, 1, -3600, 3600, 1800.5, -0.000001])


def gen_message(rng, newline_name=False):
    m = {}
    kind = rng.random()
    if kind < 0.4:
        m["action_type"] = rng.choice(["app:act", "a b", "x\ny"])
        m["action_status"] = rng.choice(["started", "succeeded", "failed"])
    elif kind < 0.8:
        m["message_type"] = rng.choice(["app:msg", "skipme", "m"])
    elif kind < 0.85:
        m["message_type"], m["action_type"], m["action_status"] = "both", "both", 5
    for _ in range(rng.randint(0, 5)):
        m[rng.choice(NAMES)] = gen_value(rng)
    if newline_name:
        m[rng.choice(["a\nb", "\n", "x\n"])] = gen_value(rng)
    m["task_uuid"] = rng.choice(["8c668cde-235b-4872-af4e-caea524bd1c0", "u1", "uuid with blank", ""])
    m["task_level"] = [rng.randint(1, 30) for _ in range(rng.randint(1, 4))]
    m["timestamp"] = gen_ts(rng)
    items = list(m.items())
    rng.shuffle(items)
    return dict(items)


def has_surrogate(o):
    if isinstance(o, str):
        return any(0xD800 <= ord(c) <= 0xDFFF for c in o)
    if isinstance(o, list):
        return any(has_surrogate(x) for x in o)
    if isinstance(o, dict):
        return any(has_surrogate(k) or has_surrogate(v) for k, v in o.items())
    return False


def encode_line(rng, m):
    """a message as its log line (bytes, with newline)"""
    if rng.random() < 0.5 and not has_surrogate(m):
        s = json.dumps(m, ensure_ascii=False)
    else:
        s = json.dumps(m)
    return s.encode("utf-8") + b"\n"


# lines that the original tree (891ac10) could not survive; each carries the structural key of its failure.  All but the last are
# reported since 36c5d35; they stay here (alone and inside streams, on every seed) so that a regression is a VIOLATION.
def bad_lines():
    base = {"task_uuid": "u", "task_level": [1], "timestamp": 1.0}

    def obj(**kw):
        d = dict(base)
        d.update(kw)
        return json.dumps(d).encode() + b"\n"

    return [
        (b"[1,2]\n", {"line_json_type": "array"}),
        (b"5\n", {"line_json_type": "number"}),
        (b"2.5\n", {"line_json_type": "number"}),
        (b'"s"\n', {"line_json_type": "string"}),
        (b"null\n", {"line_json_type": "null"}),
        (b"true\n", {"line_json_type": "boolean"}),
        (obj(task_level=5), {"field": "task_level", "json_type": "number"}),
        (obj(task_level=None), {"field": "task_level", "json_type": "null"}),
        (obj(task_level=True), {"field": "task_level", "json_type": "boolean"}),
        (obj(timestamp="2020-01-01"), {"field": "timestamp", "json_type": "string"}),
        (obj(timestamp=None), {"field": "timestamp", "json_type": "null"}),
        (obj(timestamp=[1]), {"field": "timestamp", "json_type": "array"}),
        (obj(timestamp={}), {"field": "timestamp", "json_type": "object"}),
        (obj(timestamp=1e18), {"field": "timestamp", "json_type": "number", "value": "out-of-range"}),
        (b'{"task_uuid":"u","task_level":[1],"timestamp":NaN}\n', {"field": "timestamp", "json_type": "number", "value": "nan"}),
        (b'{"task_uuid":"u","task_level":[1],"timestamp":1e999}\n', {"field": "timestamp", "json_type": "number", "value": "out-of-range"}),
        (b"[" * 100000 + b"\n", {"line": "deeply-nested-json"}),
        # valid JSON, a genuine Eliot message, one value nested 450 deep: json.loads and json.dumps cope, pprint does not
        # lone surrogates where the formatters do not escape (aborted with UnicodeEncodeError at the write until 4ea2a53)
        (b'{"task_uuid":"u\\ud800","task_level":[1],"timestamp":1.0,"x":1}\n', {"line": "lone-surrogate", "where": "task_uuid"}),
        (b'{"task_uuid":"u","task_level":[1],"timestamp":1.0,"k\\udc00":1,"message_type":"m"}\n', {"line": "lone-surrogate", "where": "field-name"}),
        (b'{"task_uuid":"u","task_level":["\\udc00",2],"timestamp":1.0}\n', {"line": "lone-surrogate", "where": "task_level"}),
        (b'{"task_uuid":"u","task_level":[1],"timestamp":1.0,"x":' + b"[" * DEEP + b"]" * DEEP + b"}\n",
         {"line": "deeply-nested-value", "format": "pretty"}),
    ]


# JSON values that are not objects but "contain" the three required field names (as elements, as substrings, one level down)
NAMES_AS_ELEMENTS = [b'["task_uuid", "task_level", "timestamp"]\n', b'["timestamp", "task_level", "task_uuid", 1, null]\n',
                     b'"task_uuid task_level timestamp"\n', b'{"a": ["task_uuid", "task_level", "timestamp"]}\n',
                     b'[{"task_uuid": "u", "task_level": [1], "timestamp": 1.0}]\n', b'["task_uuid", "task_level"]\n']


def tolerated_lines(rng):
    """foreign lines the program is expected to report or format without trouble"""
    base = {"task_uuid": "u", "task_level": [1], "timestamp": 1.0}
    out = [b"\n", b"not json\n", b"{\n", b"{'a': 1}\n", b"\xff\xfe\x00\n", b"\xc3\x28\n", b"\x80abc\n", b"1" * 5000 + b"\n",
           b"{}\n", b'{"task_uuid":"u"}\n', b'{"task_level":[1],"timestamp":1}\n', b'{"a":{"task_uuid":1,"task_level":[1],"timestamp":1}}\n',
           b"  \n", b"\x00\n", b"\xef\xbb\xbf{}\n", b'{"a":1}{"b":2}\n', b"nul\n", b"\r\n", b"[1,2\n", b"'\n", b'"\n'
           ]
    d = dict(base, task_level="ab")
    out.append(json.dumps(d).encode() + b"\n")            # a str is iterable: "/a/b"
    d = dict(base, task_level={"k": 1})
    out.append(json.dumps(d).encode() + b"\n")
    d = dict(base, task_level=[None, "x", 1.5, True])
    out.append(json.dumps(d).encode() + b"\n")
    d = dict(base, task_uuid=None)
    out.append(json.dumps(d).encode() + b"\n")
    d = dict(base, task_uuid=[1, {"a": 2}], timestamp=True)
    out.append(json.dumps(d).encode() + b"\n")
    d = dict(base, timestamp=-1.5)
    out.append(json.dumps(d).encode() + b"\n")
    out.append(bytes(rng.randrange(256) for _ in range(rng.randint(1, 12))).replace(b"\n", b"?") + b"\n")
    for d in (100, 200, 280):
        out.append(b'{"task_uuid":"u","task_level":[1],"timestamp":1.0,"x":' + b"[" * d + b"]" * d + b"}\n")
    out += NAMES_AS_ELEMENTS
    # a file name decoded with surrogateescape, logged by a producer that escapes it; a line separator inside a value
    out.append(b'{"task_uuid":"u","task_level":[1],"timestamp":1.0,"path":"caf\\udce9","message_type":"m"}\n')
    out.append(b'{"task_uuid":"u","task_level":[1],"timestamp":1.0,"text":["a\\u2028b","\\ud83d"]}\n')
    # lone surrogates where the formatters do not escape: task uuid, a field name, a level element
    out.append(b'{"task_uuid":"\\udce9","task_level":[1],"timestamp":1.0,"action_type":"a\\ud83d","\\ud83d\\ude00 \\ud83d":[]}\n')
    return out


# ---- the parameters of the model, tabulated ----------------------------------------------------

def text_j(s):
    if any(0xD800 <= ord(c) <= 0xDFFF for c in s):
        return {"cp": [ord(c) for c in s]}
    return s


def tag(v):
    if v is None or isinstance(v, bool):
        return v
    if isinstance(v, int):
        return {"i": str(v)}
    if isinstance(v, float):
        return {"f": repr(v)}
    if isinstance(v, str):
        return {"s": text_j(v)}
    if isinstance(v, (list, tuple)):
        return {"a": [tag(x) for x in v]}
    if isinstance(v, dict):
        return {"o": [[text_j(k), tag(x)] for k, x in v.items()]}
    raise TypeError(type(v))


def iso(ts, local):
    try:
        f = _dt.datetime.fromtimestamp if local else _dt.datetime.utcfromtimestamp
        return {"ok": f(ts).isoformat(sep="T")}
    except Exception as e:  # noqa
        return {"raises": type(e).__name__}


class Table:
    def __init__(self):
        self.rows = {}

    def row(self, v):
        t = tag(v)
        k = json.dumps(t, sort_keys=False)
        if k not in self.rows:
            self.rows[k] = {"v": t}
        return self.rows[k]

    def add_message(self, m):
        import pprint

        for k, v in m.items():
            r = self.row(v)
            lim = sys.getrecursionlimit()
            sys.setrecursionlimit(DEFAULT_RECURSION_LIMIT)   # pprint recurses in Python: what the real program would hit
            try:
                r["pformat"] = {"ok": text_j(pprint.pformat(v, width=40))}
            except RecursionError:
                r["pformat"] = {"raises": "RecursionError"}
            finally:
                sys.setrecursionlimit(lim)
            r["dumps"] = text_j(json.dumps(v, separators=(",", ":")))
            r["str"] = text_j(str(v))
        lv = m.get("task_level")
        if isinstance(lv, (list, str, dict)):
            for x in lv:
                self.row(x)["str"] = text_j(str(x))
        if "timestamp" in m:
            r = self.row(m["timestamp"])
            r["utc"] = iso(m["timestamp"], False)
            r["local"] = iso(m["timestamp"], True)

    def out(self):
        return list(self.rows.values())


def loads_res(line):
    try:
        return ("value", json.loads(line))
    except ValueError:
        return ("notjson", None)
    except Exception as e:  # noqa
        return ("raises", type(e).__name__)


def line_case(line, table):
    kind, v = loads_res(line)
    d = {"bytes": list(line), "repr": text_j("{}".format(line.rstrip(b"\n")))}
    if kind == "value":
        d["loads"] = {"value": tag(v)}
        if isinstance(v, dict):
            table.add_message(v)
    elif kind == "notjson":
        d["loads"] = "notjson"
    else:
        d["loads"] = {"raises": v}
    return d


def from_cp(a):
    return "".join(map(chr, a))


# ---- real side ------------------------------------------------------------------------------

def real_format(m, compact, local):
    from eliot import prettyprint

    f = prettyprint.compact_format if compact else prettyprint.pretty_format
    try:
        return {"ok": f(dict(m), local)}
    except Exception as e:  # noqa
        return {"raises": type(e).__name__, "ill_typed": isinstance(e, (TypeError, ValueError, OverflowError, OSError))}


def real_cli(data, compact, local):
    from eliot import prettyprint

    old = (prettyprint.stdin, prettyprint.stdout, sys.argv)
    raw = io.BytesIO()
    out = io.TextIOWrapper(raw, encoding="utf-8", errors="strict", newline="")   # what a UTF-8 terminal, pipe or file is
    prettyprint.stdin, prettyprint.stdout = io.BytesIO(data), out
    sys.argv = ["eliot-prettyprint"] + (["-c"] if compact else []) + (["-l"] if local else [])
    abort = None
    try:
        prettyprint._main()
    except BaseException as e:  # noqa  (SystemExit included: the program must exit normally)
        abort = type(e).__name__
    finally:
        prettyprint.stdin, prettyprint.stdout, sys.argv = old
    try:
        out.flush()
    except Exception as e:  # noqa
        abort = abort or type(e).__name__
    return {"out": raw.getvalue().decode("utf-8", "replace"), "abort": abort}


class _FakeSys:
    def __init__(self, argv, lines):
        self.argv = argv
        self.stdin = lines
        self.stdout = io.StringIO()
        self.stderr = io.StringIO()


def real_filter(expr, lines):
    from eliot import filter as efilter

    fs = _FakeSys(["eliot-filter", expr], list(lines))
    try:
        rc = efilter.main(fs)
        return {"out": fs.stdout.getvalue(), "abort": None, "rc": rc}
    except BaseException as e:  # noqa
        # json's JSONDecodeError (and UnicodeDecodeError) are ValueErrors: the class the model speaks of
        return {"out": fs.stdout.getvalue(), "abort": "ValueError" if isinstance(e, ValueError) else type(e).__name__, "rc": None}


def real_format_twice(m, compact_first, local):
    """both formatters, one after the other, on ONE dictionary object (a message handed to two sinks)"""
    import copy
    from eliot import prettyprint

    d = copy.deepcopy(m)
    order = [prettyprint.compact_format, prettyprint.pretty_format] if compact_first else [prettyprint.pretty_format, prettyprint.compact_format]
    out = []
    for f in order:
        try:
            out.append({"ok": f(d, local)})
        except Exception as e:  # noqa
            out.append({"raises": type(e).__name__})
    fresh = []
    for f in order:
        try:
            fresh.append({"ok": f(copy.deepcopy(m), local)})
        except Exception as e:  # noqa
            fresh.append({"raises": type(e).__name__})
    return dict(same_object=out, fresh=fresh, after=d, names=[f.__name__ for f in order])


def oracle_twice(ctx, case):
    """formatting reads the message: the caller's dictionary is as it was, and a second rendering of it is what a rendering
    of a fresh copy is"""
    import copy

    m = case["msg"]
    before = copy.deepcopy(m)
    r = real_format_twice(m, case["compact"], case["local"])
    c2 = dict(case, kind="format-twice")
    if list(r["after"].items()) != list(before.items()) and not (same(r["after"], before) and list(r["after"]) == list(before)):
        ctx.violation("%s then %s on the same message dictionary changed it: %r, was %r" % (r["names"][0], r["names"][1], r["after"], before), c2, key=None)
        return
    for i in (0, 1):
        if r["same_object"][i] != r["fresh"][i]:
            ctx.violation("%s as rendering #%d of one message dictionary gives %r, on a fresh copy of the message %r" % (
                r["names"][i], i + 1, r["same_object"][i].get("ok", r["same_object"][i])[:200] if "ok" in r["same_object"][i] else r["same_object"][i],
                r["fresh"][i].get("ok", "")[:200] if "ok" in r["fresh"][i] else r["fresh"][i]), c2, key=None)
            return


# ---- oracles --------------------------------------------------------------------------------

def same(a, b):
    """== with type, NaN equal to itself"""
    if isinstance(a, float) and isinstance(b, float):
        return (math.isnan(a) and math.isnan(b)) or (a == b and math.copysign(1, a) == math.copysign(1, b))
    if type(a) is not type(b):
        return False
    if isinstance(a, list):
        return len(a) == len(b) and all(same(x, y) for x, y in zip(a, b))
    if isinstance(a, dict):
        return list(sorted(a)) == list(sorted(b)) and all(same(a[k], b[k]) for k in a)
    return a == b


def expected_order(m):
    return [k for k in FIRST_FIELDS if k in m] + sorted(k for k in m if k not in SKIP_FIELDS)


TS_RE = re.compile(r"^(\d{4})-(\d\d)-(\d\d)T(\d\d):(\d\d):(\d\d)(?:\.(\d{6}))?$")


def check_ts(text, ts, local):
    """the timestamp text is the message's timestamp to the microsecond (UTC with a Z, or local)"""
    if not local:
        if not text.endswith("Z"):
            return "UTC timestamp %r lacks the Z suffix" % text
        text = text[:-1]
    mo = TS_RE.match(text)
    if not mo:
        return "timestamp %r is not YYYY-MM-DDTHH:MM:SS[.ffffff]" % text
    y, mth, d, h, mi, s, us = mo.groups()
    shown = _dt.datetime(int(y), int(mth), int(d), int(h), int(mi), int(s), int(us or 0))
    # UTC by exact arithmetic; the zone's offset at that instant from the C library (the zone is the case's TZ, set by the caller)
    off = _dt.timedelta(seconds=time.localtime(math.floor(ts)).tm_gmtoff) if local else _dt.timedelta(0)
    want = _dt.datetime(1970, 1, 1) + _dt.timedelta(microseconds=round(Fraction(ts) * 10 ** 6)) + off
    if shown != want:
        return "timestamp shown as %s, the message's timestamp %r is %s" % (shown.isoformat(), ts, want.isoformat())
    return None


def squash(s):
    return "".join(s.split())


def oracle_pretty(m, text, local):
    import pprint

    head = "%s -> /%s\n" % (m["task_uuid"], "/".join(map(str, m["task_level"])))
    if not text.startswith(head):
        return "output does not start with '<task_uuid> -> /<level>'", {}
    rest = text[len(head):]
    nl = rest.find("\n")
    if nl < 0:
        return "no timestamp line", {}
    err = check_ts(rest[:nl], m["timestamp"], local)
    if err:
        return err, {}
    rest = rest[nl + 1:]
    order = expected_order(m)
    for i, k in enumerate(order):
        pre = "  %s: " % k
        if not rest.startswith(pre):
            return "after the header, expected field %r (#%d of %r) but the output continues with %r" % (k, i, order, rest[:40]), {"field": k}
        body = rest[len(pre):]
        indent = " " * (2 + len(k)) + "| "
        want = squash(pprint.pformat(m[k], width=40).replace("\\n", "").replace("\\t", ""))
        nxt = ("  %s: " % order[i + 1]) if i + 1 < len(order) else None
        found = None
        pos = -1
        while True:
            pos = body.find("\n", pos + 1)
            if pos < 0:
                break
            after = body[pos + 1:]
            if (after == "" if nxt is None else after.startswith(nxt)):
                lines = body[:pos].split("\n")
                if all(l.startswith(indent) for l in lines[1:]):
                    got = squash("\n".join([lines[0]] + [l[len(indent):] for l in lines[1:]]))
                    if got == want:
                        found = pos
                        break
        if found is None:
            return "field %r is not followed by its value %r (continuation lines under the value)" % (k, m[k]), {"field": k}
        rest = body[found + 1:]
    if rest:
        return "output continues after the last field: %r" % rest[:60], {}
    return None, {}


def oracle_compact(m, text, local):
    err, key = oracle_compact_parts(m, text, local)
    if err is None and "\n" in text:
        names = [k for k in m if "\n" in k and k not in SKIP_FIELDS]
        if names and text.count("\n") == sum(k.count("\n") for k in names):
            # every part is in place and right; the only line breaks are the ones inside field names
            return "compact output spans several lines (field name %r contains a newline)" % names[0], {"field_name_contains": "newline", "format": "compact"}
        return "compact output spans several lines", {}
    return err, key


def oracle_compact_parts(m, text, local):
    head = "%s/%s " % (m["task_uuid"], "/".join(map(str, m["task_level"])))
    if not text.startswith(head):
        return "output does not start with '<task_uuid>/<level> '", {}
    rest = text[len(head):]
    sp = rest.find(" ")
    ts_text, rest = (rest, "") if sp < 0 else (rest[:sp], rest[sp + 1:])
    err = check_ts(ts_text, m["timestamp"], local)
    if err:
        return err, {}
    order = expected_order(m)
    dec = json.JSONDecoder()
    for i, k in enumerate(order):
        pre = k + "="
        if not rest.startswith(pre):
            return "expected part %r= (#%d of %r) but the output continues with %r" % (k, i, order, rest[:40]), {"field": k}
        try:
            v, end = dec.raw_decode(rest, len(pre))
        except ValueError:
            return "the value of part %r is not JSON: %r" % (k, rest[len(pre):len(pre) + 40]), {"field": k}
        if not same(v, m[k]):
            return "part %r decodes to %r, the field is %r" % (k, v, m[k]), {"field": k}
        rest = rest[end:]
        if i + 1 < len(order):
            if not rest.startswith(" "):
                return "parts not separated by one blank after %r" % k, {"field": k}
            rest = rest[1:]
    if rest:
        return "output continues after the last part: %r" % rest[:60], {}
    return None, {}


def oracle_format(ctx, case, obs):
    m, compact, local = case["msg"], case["compact"], case["local"]
    if "raises" in obs:
        ctx.violation("%s raised %s on a message Eliot can emit: %r" % ("compact_format" if compact else "pretty_format", obs["raises"], m),
                      case, key={"format": "compact" if compact else "pretty", "raises": obs["raises"]})
        return
    if compact:
        err, key = oracle_compact(m, obs["ok"], local)
        if err is None and any("\n" in k for k in m):
            pass
    else:
        err, key = oracle_pretty(m, obs["ok"], local)
    text = obs["ok"]
    names_clean = not any(has_surrogate(k) for k in m) and not has_surrogate(m["task_uuid"])
    if err is None and names_clean:
        try:
            text.encode("utf-8")
        except UnicodeEncodeError as e:
            err, key = "the rendering cannot be written to a UTF-8 stream (%s) although no field name needs it" % e.reason, {}
    if err is None and compact and len(text.splitlines()) > 1 and not any(ch in k for k in list(m) + [str(m["task_uuid"])] for ch in LINE_BOUNDARIES):
        err, key = "compact output is more than one line for readers that split at %r" % [c for c in LINE_BOUNDARIES if c in text][:1], {}
    if err:
        k = dict(key) if ("field_name_contains" in key) else None
        ctx.violation("%s: %s; message %r" % ("compact_format" if compact else "pretty_format", err, m), case, key=k)
        ctx.count("oracle-failed:" + json.dumps(k, sort_keys=True))


def json_type(v):
    return {type(None): "null", bool: "boolean", int: "number", float: "number", str: "string", list: "array", dict: "object"}[type(v)]


def depth(v):
    d, stack = 0, [(v, 1)]
    while stack:
        x, n = stack.pop()
        if isinstance(x, (list, dict)):
            d = max(d, n)
            stack.extend((y, n + 1) for y in (x.values() if isinstance(x, dict) else x))
    return d


def abort_key(line, compact, local):
    """structural key of a line on which the program aborts; counterfactuals on the real program decide the field"""
    kind, v = loads_res(line)
    if kind == "raises":
        return {"line": "deeply-nested-json"} if v == "RecursionError" else {"line": "loads-raises-" + v}
    if kind == "notjson":
        return {"line": "not-json"}
    if not isinstance(v, dict):
        return {"line_json_type": json_type(v)}
    if has_surrogate(v):
        clean = json.loads(re.sub(r"[\ud800-\udfff]", "?", json.dumps(v, ensure_ascii=False)))
        if real_cli(json.dumps(clean).encode() + b"\n", compact, local)["abort"] is None:
            where = ("field-name" if any(has_surrogate(k) for k in v) else "task_uuid" if has_surrogate(v.get("task_uuid")) else
                     "task_level" if has_surrogate(v.get("task_level")) else None)
            if where:
                return {"line": "lone-surrogate", "where": where}
            return {"line": "lone-surrogate-in-value", "format": "compact" if compact else "pretty"}
    shallow = {k: (x if depth(x) < SHALLOW else []) for k, x in v.items()}
    if shallow != v and real_cli(json.dumps(shallow).encode() + b"\n", compact, local)["abort"] is None:
        return {"line": "deeply-nested-value", "format": "compact" if compact else "pretty"}
    for f, good in (("task_level", [1]), ("timestamp", 1.0), ("task_uuid", "u")):
        if f in v:
            v2 = dict(v)
            v2[f] = good
            if real_cli(json.dumps(v2).encode() + b"\n", compact, local)["abort"] is None:
                key = {"field": f, "json_type": json_type(v[f])}
                if isinstance(v[f], float) and math.isnan(v[f]):
                    key["value"] = "nan"
                elif isinstance(v[f], (int, float)) and not isinstance(v[f], bool) and f == "timestamp":
                    key["value"] = "out-of-range"
                return key
    return {"line": "object"}


def expected_chunk(line, compact, local):
    """what the program must write for this line, per the property; None = any non-empty text ending in a newline"""
    kind, v = loads_res(line)
    stripped = "{}".format(line.rstrip(b"\n"))
    if kind == "notjson":
        return "Not JSON: %s\n\n" % stripped
    if kind == "raises":
        return None
    if not isinstance(v, dict) or any(f not in v for f in REQUIRED):
        return "Not an Eliot message: %s\n\n" % stripped
    r = real_format(v, compact, local)
    if "ok" in r:
        # names, uuid and level are written as they are; what a UTF-8 stream cannot encode appears escaped
        return (r["ok"] + "\n").encode("utf-8", "backslashreplace").decode("utf-8")
    if r.get("ill_typed"):
        # the three required fields are there, but with values no Eliot message has: reported like any other foreign line
        return "Not an Eliot message: %s\n\n" % stripped
    return None


def oracle_cli(ctx, case, obs):
    lines, compact, local = [bytes(l) for l in case["lines"]], case["compact"], case["local"]
    if obs["abort"] is not None:
        # find the line(s) the program cannot get past, one by one
        reported = False
        for l in lines:
            r = real_cli(l, compact, local)
            if r["abort"] is not None:
                key = abort_key(l, compact, local)
                ctx.violation("eliot-prettyprint aborts with %s on the input line %r" % (r["abort"], l[:120]),
                              dict(kind="cli", compact=compact, local=local, lines=[list(l)]), key=key)
                ctx.count("oracle-failed:" + json.dumps(key, sort_keys=True))
                reported = True
        if not reported:
            ctx.violation("eliot-prettyprint aborts with %s on a stream none of whose lines aborts it alone" % obs["abort"], case, key=None)
        return
    text = obs["out"]
    exp = [expected_chunk(l, compact, local) for l in lines]
    # prefix / suffix matching around (at most one) line with an unconstrained chunk
    i = 0
    while i < len(exp) and exp[i] is not None:
        if not text.startswith(exp[i]):
            ctx.violation("eliot-prettyprint output for line #%d %r is not %r (got %r)" % (i, lines[i][:80], exp[i][:120], text[:120]), case, key=None)
            return
        text = text[len(exp[i]):]
        i += 1
    j = len(exp)
    while j > i and exp[j - 1] is not None:
        if not text.endswith(exp[j - 1]):
            ctx.violation("eliot-prettyprint output for line #%d %r is not %r" % (j - 1, lines[j - 1][:80], exp[j - 1][:120]), case, key=None)
            return
        text = text[:len(text) - len(exp[j - 1])]
        j -= 1
    if i == j:
        if text:
            ctx.violation("eliot-prettyprint wrote extra output %r" % text[:120], case, key=None)
    elif j - i > 1 or not text.endswith("\n"):
        ctx.violation("eliot-prettyprint did not account for every input line", case, key=None)


FILTERS = [
    # (expression, selected-for-SKIP predicate, expected value)
    ("J", lambda J: False, lambda J: J),
    ("J['task_uuid']", lambda J: False, lambda J: J["task_uuid"]),
    ("J.get('x')", lambda J: False, lambda J: J.get("x")),
    ("[J['task_level'], len(J)]", lambda J: False, lambda J: [J["task_level"], len(J)]),
    ("{'t': J['timestamp'], 'rest': sorted(k for k in J if k != 'timestamp')}", lambda J: False,
     lambda J: {"t": J["timestamp"], "rest": sorted(k for k in J if k != "timestamp")}),
    ("datetime.utcfromtimestamp(J['timestamp'])", lambda J: False, lambda J: _dt.datetime.utcfromtimestamp(J["timestamp"]).isoformat()),
    ("SKIP if J.get('message_type') == 'skipme' else J", lambda J: J.get("message_type") == "skipme", lambda J: J),
    ("J if 'action_type' in J else SKIP", lambda J: "action_type" not in J, lambda J: J),
    ("SKIP", lambda J: True, lambda J: None),
    ("J['task_level'] if len(J['task_level']) > 1 else SKIP", lambda J: len(J["task_level"]) <= 1, lambda J: J["task_level"]),
    # expressions that change the decoded message in place and hand the same object back (redaction, enrichment)
    ("J.pop('task_uuid', None) and J or J", lambda J: False, lambda J: (J.pop("task_uuid", None), J)[1]),
    ("J.update(host='h1', n=len(J)) or J", lambda J: False, lambda J: (J.update(host="h1", n=len(J)), J)[1]),
    ("J.setdefault('seen', 1) and J", lambda J: False, lambda J: (J.setdefault("seen", 1), J)[1]),
    ("J.__setitem__('x', [J.get('x')]) or J", lambda J: False, lambda J: (J.__setitem__("x", [J.get("x")]), J)[1]),
    ("J.__delitem__('timestamp') or J", lambda J: False, lambda J: (J.__delitem__("timestamp"), J)[1]),
    ("[J.pop(k) for k in list(J) if k not in ('task_uuid', 'task_level')] and J or J", lambda J: False,
     lambda J: {k: v for k, v in J.items() if k in ("task_uuid", "task_level")}),
    ("(J.update(kept=True) or J) if 'action_type' in J else SKIP", lambda J: "action_type" not in J, lambda J: dict(J, kept=True)),
]


def oracle_filter(ctx, case, obs):
    expr, sel, val = FILTERS[case["filter"]]
    lines = case["lines_text"]

    def is_json(l):
        try:
            json.loads(l)
            return True
        except ValueError:
            return False

    foreign = [l for l in lines if not is_json(l)]
    if obs["abort"] is not None or obs["rc"] != 0:
        if foreign and obs["abort"] == "ValueError":
            key = {"tool": "eliot.filter", "line": "not-json"}
            ctx.violation("eliot.filter %r aborts with %s at the input line %r; the lines after it are never read" % (expr, obs["abort"], foreign[0]),
                          dict(case, lines_text=[foreign[0]]), key=key)
            ctx.count("oracle-failed:" + json.dumps(key, sort_keys=True))
        else:
            ctx.violation("eliot.filter %r did not finish normally (%s, rc=%r)" % (expr, obs["abort"], obs["rc"]), case, key=None)
        return
    lines = [l for l in lines if is_json(l)]   # what a filter that survives foreign text writes for it is not laid down
    outs = obs["out"].split("\n")
    if outs[-1] != "":
        ctx.violation("eliot.filter output does not end with a newline", case, key=None)
        return
    outs = outs[:-1]
    want = [val(json.loads(l)) for l in lines if not sel(json.loads(l))]
    if foreign:
        # keep, in order, the output lines that account for the JSON input lines; whatever else was written concerns the foreign ones
        kept, i = [], 0
        for o in outs:
            try:
                if i < len(want) and same(json.loads(o), json.loads(json.dumps(want[i]))):
                    kept.append(o)
                    i += 1
            except ValueError:
                pass
        outs = kept
    if len(outs) != len(want):
        ctx.violation("eliot.filter %r wrote %d lines for %d input lines of which %d are selected for SKIP" % (
            expr, len(outs), len(lines), len(lines) - len(want)), case, key=None)
        return
    for o, w in zip(outs, want):
        try:
            got = json.loads(o)
        except ValueError:
            ctx.violation("eliot.filter wrote a line that is not JSON: %r" % o[:100], case, key=None)
            return
        if not same(got, json.loads(json.dumps(w))):
            ctx.violation("eliot.filter %r wrote %r, expected the JSON encoding of %r" % (expr, o[:100], w), case, key=None)
            return


# ---- cases ----------------------------------------------------------------------------------

def nontrivial_msg(m):
    return any(isinstance(v, (list, dict)) or (isinstance(v, str) and "\n" in v) for v in m.values())


def gen_cases(ctx):
    rng = ctx.rng("gen")
    cases = []
    for i in range(ctx.budget(300, 9000)):
        m = gen_message(rng, newline_name=(i % 23 == 7))
        cases.append(dict(kind="format", compact=rng.random() < 0.5, local=rng.random() < 0.3, msg=m, tz=rng.choice(TZS)))
    # the hand-found one: a newline in a field name, compact
    cases.append(dict(kind="format", compact=True, local=False,
                      msg={"task_uuid": "u", "task_level": [1], "timestamp": 1.0, "a\nb": 1}))
    bad = bad_lines()
    for i in range(ctx.budget(70, 1800)):
        n = rng.randint(2, 8)
        tol = tolerated_lines(rng)
        lines = []
        for _ in range(n):
            lines.append(encode_line(rng, gen_message(rng)) if rng.random() < 0.55 else rng.choice(tol))
        if i % 3 == 0:
            lines.insert(rng.randrange(len(lines) + 1), bad[(i // 3) % len(bad)][0])
        if rng.random() < 0.3:
            lines[-1] = lines[-1].rstrip(b"\n") or b"x"
        cases.append(dict(kind="cli", compact=rng.random() < 0.5, local=rng.random() < 0.3, lines=[list(l) for l in lines], tz=rng.choice(TZS)))
    # non-objects holding the required field names, both formats: on every seed
    for compact in (False, True):
        cases.append(dict(kind="cli", compact=compact, local=False, tz=TZS[0],
                          lines=[list(l) for l in NAMES_AS_ELEMENTS] + [list(b'{"task_uuid":"u","task_level":[1],"timestamp":1.0}\n')]))
    # every known-bad line once, alone (stable keys on every seed)
    for l, _key in bad:
        cases.append(dict(kind="cli", compact=False, local=False, lines=[list(l)]))
    for i in range(ctx.budget(60, 1500)):
        n = rng.randint(2, 7)
        ms = []
        while len(ms) < n:
            m = gen_message(rng)
            if not has_surrogate(m):
                ms.append(m)
        texts = [json.dumps(m, ensure_ascii=rng.random() < 0.5) + "\n" for m in ms]
        if FILTERS[i % len(FILTERS)][0] in ("J", "SKIP"):
            # these expressions do not look inside J: any JSON value is fine for them, and foreign text is part of the streams
            for _ in range(rng.randint(0, 2)):
                texts.insert(rng.randrange(len(texts) + 1), rng.choice(["[1, 2]\n", "5\n", "null\n", "\"s\"\n", "{}\n", "2.5\n"]))
            if rng.random() < 0.35:
                texts.insert(rng.randrange(len(texts) + 1), rng.choice(["not json\n", "{\n", "\n", "{'a': 1}\n"]))
        cases.append(dict(kind="filter", filter=i % len(FILTERS), lines_text=texts, tz=rng.choice(TZS)))
    # a line that is not JSON between two Eliot lines, identity filter: on every seed
    cases.append(dict(kind="filter", filter=0, tz=TZS[0],
                      lines_text=['{"task_uuid": "u", "task_level": [1], "timestamp": 1.0}\n', "not json\n",
                                  '{"task_uuid": "u", "task_level": [2], "timestamp": 2.0}\n']))
    # summer and winter noon in a daylight-saving zone, both formatters, UTC rendering: on every seed
    for ts in (1625140800.25, 1610712000.25):
        for compact in (False, True):
            cases.append(dict(kind="format", compact=compact, local=False, tz=TZS[3],
                              msg={"task_uuid": "u", "task_level": [1], "timestamp": ts, "message_type": "m"}))
    return cases


def model_case(c):
    old = sys.getrecursionlimit()
    sys.setrecursionlimit(20000)   # only for the harness's own recursive encoders; the real code runs under the default limit
    try:
        return _model_case(c)
    finally:
        sys.setrecursionlimit(old)


def _model_case(c):
    table = Table()
    if c["kind"] == "format":
        table.add_message(c["msg"])
        return dict(kind="format", compact=c["compact"], local=c["local"], msg=tag(c["msg"]), table=table.out())
    if c["kind"] == "cli":
        # json.loads of a 100000-deep line is only attempted once here and once by the program
        lines = [line_case(bytes(l), table) for l in c["lines"]]
        return dict(kind="cli", compact=c["compact"], local=c["local"], lines=lines, table=table.out())
    expr, sel, val = FILTERS[c["filter"]]
    lines = []
    for s in c["lines_text"]:
        b = s.encode("utf-8")
        d = line_case(b, table)
        try:
            J = json.loads(s)
        except ValueError:
            lines.append(d)   # not JSON: the program never gets to the expression
            continue
        try:
            if sel(J):
                d["expr"] = "skip"
            else:
                r = val(J)
                fd = json.dumps(r)
                rv = json.loads(fd)
                d["expr"] = {"value": tag(rv)}
                table.row(rv)["fdumps"] = {"ok": fd}
        except Exception as e:  # noqa
            d["expr"] = {"raises": type(e).__name__}
        lines.append(d)
    return dict(kind="filter", lines=lines, table=table.out())


def split_chunks(model_out, text):
    """cut the real output at the model's chunk boundaries (for a readable diff)"""
    return text


def run_one(ctx, c, mo):
    if "bad" in mo:
        ctx.broken_tie("correspondence:readers-model", "driver rejected the case: %s" % mo["bad"], c)
        return
    if c["kind"] == "format":
        obs = real_format(c["msg"], c["compact"], c["local"])
        obs.pop("ill_typed", None)
        model = {"ok": from_cp(mo["ok"])} if "ok" in mo else mo
        ctx.case(c, nontrivial=nontrivial_msg(c["msg"]), tags=["kind:format", "format:" + ("compact" if c["compact"] else "pretty"),
                                                               "tz:" + ("local" if c["local"] else "utc"), "fields:%d" % min(len(c["msg"]), 9)])
        if obs != model:
            ctx.broken_tie("correspondence:readers-model", "formatter output differs from the model", dict(case=c, real=obs, model=model))
        else:
            ctx.traces += 1
        oracle_format(ctx, c, obs)
        if "ok" in obs:
            oracle_twice(ctx, c)
            ctx.count("formatted-twice-on-one-dict")
    elif c["kind"] == "cli":
        data = b"".join(bytes(l) for l in c["lines"])
        obs = real_cli(data, c["compact"], c["local"])
        model = {"out": "".join(from_cp(x) for x in mo["out"]), "abort": mo["abort"]}
        foreign = sum(1 for l in c["lines"] if not (loads_res(bytes(l))[0] == "value" and isinstance(loads_res(bytes(l))[1], dict)
                                                     and all(f in loads_res(bytes(l))[1] for f in REQUIRED))) if len(bytes(c["lines"][0])) < 50000 else 1
        ctx.case(c, nontrivial=foreign >= 1, tags=["kind:cli", "format:" + ("compact" if c["compact"] else "pretty"),
                                                   "tz:" + ("local" if c["local"] else "utc"), "foreign-lines:%d" % min(foreign, 5)])
        ctx.count("cli-lines", n=len(c["lines"]))
        if obs != model:
            ctx.broken_tie("correspondence:readers-model", "eliot-prettyprint differs from the model", dict(case=c, real=obs, model=model))
        else:
            ctx.traces += 1
        oracle_cli(ctx, c, obs)
    else:
        expr = FILTERS[c["filter"]][0]
        obs = real_filter(expr, c["lines_text"])
        model = {"out": "".join(from_cp(x) for x in mo["out"]), "abort": mo["abort"]}
        ctx.case(c, nontrivial=True, tags=["kind:filter", "expr:" + expr[:30]])
        ctx.count("filter-lines", n=len(c["lines_text"]))
        if {"out": obs["out"], "abort": obs["abort"]} != model:
            ctx.broken_tie("correspondence:readers-model", "eliot.filter differs from the model", dict(case=c, real=obs, model=model))
        else:
            ctx.traces += 1
        oracle_filter(ctx, c, obs)


class _Tz:
    def __init__(self, tz=TZ):
        self.tz = tz

    def __enter__(self):
        self.old = os.environ.get("TZ")
        os.environ["TZ"] = self.tz
        time.tzset()

    def __exit__(self, *a):
        if self.old is None:
            os.environ.pop("TZ", None)
        else:
            os.environ["TZ"] = self.old
        time.tzset()


def run(ctx):
    cases = gen_cases(ctx)
    mcs = []
    for c in cases:
        with _Tz(c.get("tz", TZ)):    # the library parameters of the model (datetime among them) are tabulated in the case's zone
            mcs.append(model_case(c))
    model = lean_driver("Driver/C20.lean", mcs)
    for c, mo in zip(cases, model):
        with _Tz(c.get("tz", TZ)):
            run_one(ctx, c, mo)
            ctx.count("zone:" + c.get("tz", TZ))
    if "correspondence:readers-model" not in ctx.broken:
        ctx.obligation("correspondence:readers-model", "correspondence", True, "%d cases compared" % ctx.traces)


def replay(ctx, obj):
    c = obj.get("case") or {}
    if "case" in c and "real" in c:
        c = c["case"]
    with _Tz(c.get("tz", TZ)):
        if c.get("kind") == "format-twice":
            print(real_format_twice(c["msg"], c["compact"], c["local"]))
            oracle_twice(ctx, dict(c, kind="format"))
        elif c.get("kind") == "format":
            obs = real_format(c["msg"], c["compact"], c["local"])
            print(obs.get("ok", obs))
            oracle_format(ctx, c, obs)
        elif c.get("kind") == "cli":
            obs = real_cli(b"".join(bytes(l) for l in c["lines"]), c["compact"], c["local"])
            print(obs)
            oracle_cli(ctx, c, obs)
        elif c.get("kind") == "filter":
            obs = real_filter(FILTERS[c["filter"]][0], c["lines_text"])
            print(obs)
            oracle_filter(ctx, c, obs)
