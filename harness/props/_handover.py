"""C12, concurrent clause ("no message logged by any thread is lost across the hand-over from buffering
to real destinations") - to be called from harness/props/C12.py as `run_handover(ctx)`.

Real threads under the line-level scheduler on eliot/_output.py, gated inside `Destinations.send`,
`Destinations.add` and the destinations' `__call__`: 1-2 logging threads (1 message each in the quick
tier, up to 3 thorough) against the thread performing the *first* `add` (1-2 destinations, 0 or 2
messages buffered before).  First the witness schedule of the Lean theorem
`Handover.handover_race_witness` is replayed on the real code, then context-bounded DFS + random.
Oracle (model-free): after all threads have finished every message logged by any thread has been
received by every destination of the first add (the old buffer is dropped by then, nothing will
re-send it).  Each executed schedule is also run through the Lean model (Driver/Handover.lean,
adder compiled from skeleton E8) which must predict the same deliveries.

LEAN side for C12.py:  LEAN_TARGETS += _handover.LEAN_TARGETS, THEOREMS += _handover.THEOREMS,
GENERATED_OBLIGATIONS += _handover.GENERATED_OBLIGATIONS (`Generated.handover = Handover.fixedSkel`, in
Eliot/Proofs/HandoverGen.lean).  `handover_no_loss` / `handover_no_overtake` are about the repaired
skeleton (model Eliot.Conc.HandoverFix); the `*_witness` theorems are about the OLD skeleton
(`pinnedSkel`, model Eliot.Conc.Handover) only.  On a tree with the old shape the generated obligation
fails and the search below reports the three losing / reordering schedules with their keys.
"""
import json
import time

from .. import sched
from ..framework import REPO, InfraError, lean_driver
from ..extractors import e8_handover

OUTPUT = str(REPO / "eliot" / "_output.py")
KEY_OLD_LIST = {"schedule": "logger-holds-old-destination-list-across-first-add"}
KEY_EMPTY_LIST = {"schedule": "logger-iterates-new-empty-destination-list-before-extend"}
KEY_OVERTAKE = {"schedule": "message-logged-during-first-add-overtakes-buffered-messages"}
KEY_REMOVE_SKIP = {"schedule": "remove-during-send-makes-sender-skip-the-next-destination"}
# Removing a destination that is followed by others in the list, while another thread is iterating over that list in
# send(): `list.remove` shifts the tail under the iterator and the sender skips the next destination - a destination that
# is registered all along misses the message.  Observed on the tree as of 730dc3c, but OUTSIDE the 20 properties (DESIGN.md
# section 8, "outside the property"): C12 quantifies schedules only over the first add_destinations, and no property
# schedules remove_destination against a sender.  The configuration is therefore not part of the check (flag off); it is
# kept so that the behaviour can be reproduced, and is then reported with KEY_REMOVE_SKIP.
INCLUDE_REMOVE_BEFORE_OTHERS = False
# also check "in order and ahead of later messages" under interleavings (set False to restrict the oracle to loss / duplication)
CHECK_ORDER = True
LEAN_TARGETS = ["Eliot.Conc.Handover", "Eliot.Conc.HandoverFix", "Eliot.Generated.Handover", "Eliot.Proofs.Handover",
                "Eliot.Proofs.HandoverFix", "Eliot.Proofs.HandoverOrder", "Eliot.Proofs.HandoverGen"]
THEOREMS = ["Eliot.Conc.HandoverFix.handover_no_loss", "Eliot.Conc.HandoverFix.handover_no_overtake",
            "Eliot.Conc.HandoverFix.handover_drain_exclusive",
            "Eliot.Conc.HandoverFix.handover_per_thread_fifo", "Eliot.Conc.HandoverFix.handover_pre_first",
            "Eliot.Conc.Handover.handover_race_witness", "Eliot.Conc.Handover.handover_no_loss_false",
            "Eliot.Conc.Handover.handover_race_witness_empty_list", "Eliot.Conc.Handover.handover_race_witness_prebuffered",
            "Eliot.Conc.Handover.handover_overtake_witness"]
GENERATED_OBLIGATIONS = ["Generated.handover = Handover.fixedSkel"]


def gated_functions():
    """Every method of BufferingDestination and Destinations (whatever they are called in the current
    source: send, add, __call__, drain, ...) plus lambdas (forwarders); constructors are not gated."""
    import ast

    names = {"<lambda>"}
    try:
        tree = ast.parse(open(OUTPUT).read())
        for c in tree.body:
            if isinstance(c, ast.ClassDef) and c.name in ("BufferingDestination", "Destinations"):
                names |= {f.name for f in c.body if isinstance(f, ast.FunctionDef)}
    except Exception:
        names |= {"send", "add", "__call__"}
    return names - {"__init__"}


def make_scheduler(timeout=30.0):
    return sched.Scheduler([OUTPUT], [sched.LockLines(OUTPUT)], timeout=timeout, only_funcs=gated_functions())


def run_real(S, case, chooser):
    """case: dict(pre=[ids], loggers=[[ids]...], dests=n, via="send"|"logger")"""
    import eliot._output as O

    D = O.Destinations()
    after = [list(op) for op in case.get("after", [])]
    nsinks = max([case["dests"]] + [op[1] + 1 for op in after])
    got = [[] for _ in range(nsinks)]
    events = []  # ["call", dest, n, thread, step] / ["removed", dest, step] / ["added", dest, step]

    unstamped = []

    def mksink(k):
        def sink(m):
            tid, step = S.current()
            events.append(["call", k, m.get("n"), tid, step - 1])
            got[k].append(m.get("n"))
            if case.get("globals") and m.get("g0") != 1:
                unstamped.append([k, m.get("n")])
        return sink

    sinks = [mksink(k) for k in range(nsinks)]
    for k in case["pre"]:
        D.send({"n": k})
    if case.get("via") == "logger":
        class L(O.Logger):
            _destinations = D
        lg = L()
        emit = lambda k: lg.write({"n": k})  # noqa
    else:
        emit = lambda k: D.send({"n": k})  # noqa

    def logger(ids):
        def body():
            for k in ids:
                emit(k)
        return body

    def adder():
        if case.get("globals"):
            # a global field set by the adding thread before the first add - while a sender may already be under way: every
            # delivery happens after it, so every delivered message must carry it
            D.addGlobalFields(g0=1)
        D.add(*sinks[: case["dests"]])
        # the rest of the history, after the hand-over, in the same thread
        for op, k in after:
            if op == "remove":
                D.remove(sinks[k])
                events.append(["removed", k, S.current()[1] - 1])
            else:
                D.add(sinks[k])
                events.append(["added", k, S.current()[1] - 1])

    res = S.run([logger(ids) for ids in case["loggers"]] + [adder], chooser)
    buffers = [d for d in D._destinations if isinstance(d, O.BufferingDestination)]
    obs = dict(got=got, events=events, errors={t: type(e).__name__ for t, e in res.errors.items()},
               still_buffering=bool(buffers), any_added=bool(getattr(D, "_any_added", None)), unstamped=unstamped)
    return res, obs


def oracle(case, res, obs):
    bad = ["logging changed process-wide state: %s" % c for c in getattr(res, "state_changes", [])]
    if res.deadlock:
        return bad + ["threads deadlocked at %s" % sorted(res.deadlock.items())]
    if obs["errors"]:
        bad.append("send / add raised: %s" % obs["errors"])
    if obs.get("unstamped"):
        bad.append("messages delivered without the global field that was set before the first add_destinations (destination, n): %s" % obs["unstamped"])
    logged = [k for ids in case["loggers"] for k in ids]
    after = case.get("after", [])
    removed = {k for op, k in after if op == "remove"}
    bad += selected_after_removal(case, res, obs)
    for d, g in enumerate(obs["got"]):
        dup = sorted(set(k for k in g if g.count(k) > 1))
        if d >= case["dests"] or d in removed:
            # added later / removed meanwhile: which messages it must get depends on when they were logged; only
            # "at most once" and "nothing selected for it after its removal" are checked
            if dup:
                bad.append("destination %d received %s more than once" % (d, dup))
            continue
        lost = [k for k in logged + list(case["pre"]) if k not in g]
        if lost and not obs["still_buffering"]:
            bad.append("messages %s were logged but destination %d of the first add never received them (received %s) and no buffer is left to re-send them"
                       % (lost, d, g))
        if dup:
            bad.append("destination %d received %s more than once" % (d, dup))
        pre = [k for k in g if k in case["pre"]]
        if pre != [k for k in case["pre"] if k in pre]:
            bad.append("buffered messages re-delivered out of order to destination %d: %s" % (d, pre))
        if CHECK_ORDER and not bad:
            # "... in order and ahead of later messages": everything buffered before the threads started
            # was logged before every message of the logging threads
            firstnew = next((i for i, k in enumerate(g) if k in logged), None)
            if firstnew is not None and any(k in case["pre"] for k in g[firstnew:]):
                bad.append("destination %d received %s: a message logged during the first add overtook older buffered messages" % (d, g))
            elif any([k for k in g if k in ids] != [k for k in ids if k in g] for ids in case["loggers"]):
                bad.append("destination %d received %s: one thread's messages overtook each other during the first add" % (d, g))
    return bad


_SK = {}


def _lines():
    if REPO not in _SK:
        _SK[REPO] = e8_handover.skeleton(REPO)["lines"]
    return _SK[REPO]


def selected_after_removal(case, res, obs):
    """"A removed destination receives nothing further": a send that is already under way when remove(d) returns may
    still call d if it had picked d before (that is inherent in a lock-free send), but no sender may *pick* d - take it
    from a destination list - after remove(d) has returned."""
    bad = []
    L = _lines()
    fors = {L.get("sendto_for"), L.get("send_for")} - {None}
    calls = {L.get("sendto_call"), L.get("send_call")} - {None}
    if not fors or not calls:
        return bad
    removed_at = {}
    for e in obs.get("events", []):
        if e[0] == "removed":
            removed_at.setdefault(e[1], e[2])
        elif e[0] == "added" and e[1] in removed_at:
            del removed_at[e[1]]  # registered again
    for e in obs.get("events", []):
        if e[0] != "call" or e[1] not in removed_at or e[4] is None or e[4] <= removed_at[e[1]]:
            continue
        d, n, tid, at = e[1], e[2], e[3], e[4]
        if not (0 <= at < len(res.trace)) or res.trace[at].tid != tid or res.trace[at].line not in calls:
            continue
        frame_func = res.trace[at].func
        pick = next((j for j in range(at - 1, -1, -1) if res.trace[j].tid == tid and res.trace[j].func == frame_func and res.trace[j].line in fors), None)
        if pick is not None and pick > removed_at[d]:
            bad.append("message %s was handed to destination %d although remove(%d) had already returned when the sender took it from its destination list"
                       " (remove returned at step %d, picked at step %d, called at step %d)" % (n, d, d, removed_at[d], pick, at))
    return bad


def remove_during_iteration(case, res):
    """The trace pattern of KEY_REMOVE_SKIP: a step of `Destinations.remove` by the adding thread lies between two
    evaluations of the same sender's `for dest in ...` line within one send (the list shrank under its iterator)."""
    L = _lines()
    fors = {L.get("sendto_for"), L.get("send_for")} - {None}
    n = len(case["loggers"])
    removes = [i for i, s in enumerate(res.trace) if s.tid == n and s.func == "remove"]
    if not removes or not fors:
        return False
    for t in range(n):
        prev = None
        for i, s in enumerate(res.trace):
            if s.tid != t:
                continue
            if s.func in ("send", "_send_to") and s.line in (L.get("send_first"), L.get("sendto_first")):
                prev = None  # a new send starts
            if s.func in ("send", "_send_to") and s.line in fors:
                if prev is not None and any(prev < r < i for r in removes):
                    return True
                prev = i
    return False


def classify(sk, case, res):
    """Structural key of a losing schedule (None if it is neither of the two known shapes)."""
    L = sk["lines"]
    n = len(case["loggers"])
    adder = [(i, s) for i, s in enumerate(res.trace) if s.tid == n and s.func == "add"]
    swap = next((i for i, s in adder if s.line == L.get("swap")), None)
    extend = next((i for i, s in adder if s.line == L.get("extend")), None)
    add_last = max([i for i, s in enumerate(res.trace) if s.tid == n], default=None)
    if swap is None or extend is None:
        return None
    for t in range(n):
        fors = [i for i, s in enumerate(res.trace) if s.tid == t and s.func == "send" and s.line == L.get("send_for")]
        calls = [i for i, s in enumerate(res.trace) if s.tid == t and s.func == "send" and s.line == L.get("send_call")]
        # the first `for` step of each send is the one that evaluates self._destinations
        firsts = [i for k, i in enumerate(fors) if k == 0 or any(s.tid == t and s.func == "send" and s.line == L.get("send_first") for s in res.trace[fors[k - 1]:i])]
        for i in firsts:
            if swap < i < extend:
                return KEY_EMPTY_LIST
            c = next((j for j in calls if j > i), None)
            if c is not None:
                # the delivery itself: the buffer's append line when the destination is the (gated) buffer
                d = next((j for j in range(c + 1, len(res.trace)) if res.trace[j].tid == t), None)
                if d is not None and res.trace[d].func == "__call__" and res.trace[d].line == L.get("buffer_append"):
                    c = d
            if i < swap and c is not None and c > swap:
                return KEY_OLD_LIST
    return None


def _next_of_thread(res):
    nxt, last = {}, {}
    for i, s in enumerate(res.trace):
        if s.tid in last:
            nxt[last[s.tid]] = i
        last[s.tid] = i
    return nxt


def model_case(sk, case, res):
    out = _model_sched_fixed(sk, case, res) if sk.get("shape") == "fixed" else _model_sched_pinned(sk, case, res)
    return dict(pre=case["pre"], prog=case["loggers"], dests=list(range(case["dests"])), sched=out)


def _model_sched_pinned(sk, case, res):
    L = sk["lines"]
    n = len(case["loggers"])
    add_lines = set(L.get("add", []))
    out = []
    nxt = _next_of_thread(res)
    for i, s in enumerate(res.trace):
        if s.file != OUTPUT:
            continue
        if s.tid < n:
            if s.func == "send" and s.line in (L.get("send_first"), L.get("send_for")):
                out.append(["l", s.tid])
            elif s.func == "send" and s.line == L.get("send_call"):
                # the delivery happens in this step unless the destination is itself gated (the buffer):
                # then it happens at the buffer's append line
                j = nxt.get(i)
                if j is None or res.trace[j].func != "__call__":
                    out.append(["l", s.tid])
            elif s.func == "__call__" and s.line == L.get("buffer_append"):
                out.append(["l", s.tid])
        elif s.tid == n:
            if s.func == "add" and (s.line in add_lines or s.line in (L.get("resend_for"), L.get("resend_send"))):
                out.append("a")
            elif s.func == "send" and s.line == L.get("send_for"):
                out.append("a")
            elif s.func == "send" and s.line == L.get("send_call"):
                j = nxt.get(i)
                if j is None or res.trace[j].func != "__call__":
                    out.append("a")
            elif s.func == "__call__" and s.line == L.get("buffer_append"):
                out.append("a")
    return out


def _model_sched_fixed(sk, case, res):
    """Repaired shape: one model step per `for` evaluation / destination call of _send_to, per entry into
    a `with self._lock:` block (the critical section), per `self._forward(message)`, per statement of add."""
    L = sk["lines"]
    n = len(case["loggers"])
    add_lines = {L.get(k) for k in ("add_test", "set_any_added", "take_buffer_dest", "mk_new", "assign_dests", "extend")} - {None}
    out = []
    nxt = _next_of_thread(res)
    for i, s in enumerate(res.trace):
        if s.file != OUTPUT:
            continue
        who = ["l", s.tid] if s.tid < n else ("a" if s.tid == n else None)
        if who is None:
            continue
        k = 0
        if s.func == "send" and s.line == L.get("send_capture"):
            k = 2 if s.tid < n else 0
        elif s.func == "_send_to" and s.line == L.get("sendto_for"):
            k = 1
        elif s.func == "_send_to" and s.line == L.get("sendto_call"):
            j = nxt.get(i)
            k = 0 if (j is not None and res.trace[j].func == "__call__") else 1
        elif s.func == "__call__" and s.note == "acquire":
            k = 1
        elif s.func == "__call__" and s.line == L.get("buffer_forward"):
            k = 1
        elif s.tid == n and s.func == "add" and s.line in add_lines:
            k = 1
        elif s.tid == n and s.func == "drain" and (s.note in ("acquire", "release") or s.line in (L.get("drain_for"), L.get("drain_forward"))):
            k = 1
        out.extend([who] * k)
    return out


def witness_schedule(S, sk, case):
    """The real schedule corresponding to the Lean witness: the logger runs until it has executed
    the `for dest in self._destinations` line, then the adder runs the whole `add`, then the logger."""
    res, _ = run_real(S, case, sched.Explicit([0] * 10000))
    cap = sk["lines"].get("send_capture") or sk["lines"].get("send_for")
    k = next((i for i, s in enumerate(res.trace) if s.tid == 0 and s.func == "send" and s.line == cap), None)
    if k is None:
        return None
    n = len(case["loggers"])
    return [0] * (k + 1) + [n] * 400


def run_handover(ctx, seconds=None):
    run_staged_faults(ctx)
    sk = e8_handover.skeleton(REPO)
    name = "correspondence:handover-model"
    S = make_scheduler()
    rng = ctx.rng("handover-schedules")
    deadline = time.time() + (seconds if seconds is not None else ctx.budget(35, 300)) * sched.budget_scale()
    MINCFG, MINPER = 9, 72  # minimum exploration whatever the clock says (7 configurations x 72 schedules >= 500)
    cases = [dict(pre=[], loggers=[[7]], dests=1, via="send"),
             dict(pre=[1, 2], loggers=[[7]], dests=1, via="send"),
             dict(pre=[], loggers=[[7]], dests=2, via="logger"),
             dict(pre=[1, 2], loggers=[[7], [8]], dests=1, via="send")]
    # the history goes on after the hand-over, in the adding thread: remove / later add while a sender is still under way
    cases += [dict(pre=[], loggers=[[7]], dests=1, via="send", after=[["remove", 0]]),
              dict(pre=[1], loggers=[[7]], dests=2, via="send", after=[["add", 2], ["remove", 2]]),
              dict(pre=[], loggers=[[7], [8]], dests=1, via="logger", after=[["remove", 0], ["add", 1]])]
    # a global field set by the adding thread right before the first add, while senders are under way
    cases += [dict(pre=[], loggers=[[7]], dests=1, via="send", globals=True),
              dict(pre=[1, 2], loggers=[[7], [8]], dests=2, via="logger", globals=True)]
    if INCLUDE_REMOVE_BEFORE_OTHERS:
        cases.append(dict(pre=[1], loggers=[[7]], dests=2, via="send", after=[["add", 2], ["remove", 0]]))
    if not ctx.quick:
        cases += [dict(pre=[1, 2], loggers=[[7, 8, 9]], dests=2, via="send"), dict(pre=[], loggers=[[7, 8, 9], [4, 5, 6]], dests=1, via="logger"),
                  dict(pre=[1], loggers=[[7, 8], [4]], dests=2, via="send")]
    bound = ctx.budget(2, 3)
    dfs_limit = ctx.budget(400, 6000)
    nrandom = ctx.budget(40, 1500)
    model_in, model_ctx = [], []
    seen_keys = set()

    def one(case, how, res, obs):
        full = dict(kind="handover", config=case, schedule=res.schedule)
        overlap = res.preemptions >= 1
        ctx.case(full, nontrivial=overlap, tags=["handover:loggers:%d" % len(case["loggers"]), "handover:pre:%d" % len(case["pre"]),
                                                 "handover:dests:%d" % case["dests"], "handover:sched:" + how, "handover:after:%d" % len(case.get("after", [])),
                                                 "handover:preemptions:%d" % min(res.preemptions, 4)])
        bad = oracle(case, res, obs)
        if bad:
            key = KEY_OVERTAKE if "overtook" in bad[0] else classify(sk, case, res)
            if key is None and "never received" in bad[0] and remove_during_iteration(case, res):
                key = KEY_REMOVE_SKIP
            ctx.count("handover:lost:" + (key["schedule"] if key else "unclassified"))
            k = json.dumps(key)
            if k not in seen_keys or key is None:
                seen_keys.add(k)
                ctx.violation(bad[0], dict(full, observed=obs, also=bad[1:3]), key=key)
        if not case.get("after") and not case.get("globals"):  # the Lean model covers the first add only
            model_in.append(model_case(sk, case, res))
            model_ctx.append((full, case, obs))
        else:
            ctx.count("handover:after-ops:oracle-only")

    # 1. the witness of the Lean theorem, replayed on the real code
    w = witness_schedule(S, sk, cases[0])
    if w is None:
        ctx.broken_tie(name, "cannot place the witness schedule on the real code (send does not evaluate self._destinations on a recognised line)", None)
    else:
        res, obs = run_real(S, cases[0], sched.Explicit(w))
        ctx.count("handover:witness-replayed")
        ctx.extra["handover_witness_lost"] = bool(oracle(cases[0], res, obs))
        one(cases[0], "witness", res, obs)
    # 2. search
    done = 0
    for ci, case in enumerate(cases):
        left = deadline - time.time()
        if left <= 0 and done >= MINCFG:
            break
        done += 1
        per_end = time.time() + max(0.0, left / (len(cases) - ci))
        here = 0
        for res, obs in sched.explore(lambda ch: run_real(S, case, ch), bound=bound, limit=dfs_limit, result=lambda r: r[0]):
            one(case, "dfs", res, obs)
            here += 1
            if time.time() > per_end and here >= MINPER:
                ctx.count("budget:cut")
                break
        for _ in range(nrandom):
            if time.time() > per_end and here >= MINPER:
                break
            res, obs = run_real(S, case, sched.RandomChooser(rng, stay=rng.choice([0.0, 0.5, 0.8, 0.9])))
            one(case, "random", res, obs)
            here += 1
    nsched = len(model_in) + ctx.dist.get("handover:after-ops:oracle-only", 0)
    ctx.count("explored:handover:configurations", n=done)
    ctx.count("explored:handover:schedules", n=nsched)
    # 3. the model on the same schedules
    if model_in:
        answers = lean_driver("Driver/Handover.lean", model_in)
        agree = 0
        for (full, case, obs), mo in zip(model_ctx, answers):
            if "bad" in mo:
                ctx.broken_tie(name, "model driver rejected the case: %s" % mo["bad"], full)
                break
            real = dict(delivered=[[d, g] for d, g in enumerate(obs["got"])], finished=True)
            model = dict(delivered=mo["delivered"], finished=mo["finished"])
            if real != model:
                ctx.broken_tie(name, "model and real run deliver differently", dict(full, real=real, model=model))
                if len(ctx.extra.get("disagreements", [])) > 20:
                    break
            else:
                ctx.traces += 1
                agree += 1
        if name not in ctx.broken:
            ctx.obligation(name, "correspondence", True, "%d executed schedules: model predicts the same deliveries (lost messages included)" % agree)


# ---- staged messages meet failing / logging destinations at the first add (sequential) -------------------

def run_staged(case):
    """case: dict(pre=k, dests=[kinds in registration order], fail=[indices of the flaky destination's calls that raise],
    post=m).  Kinds: "H" healthy (records), "F" flaky (raises on the listed calls), "R" logs a message of its own the first
    time it is called (re-entrantly, through the same Destinations).  k messages are staged before the first add,
    m more are logged after it."""
    import eliot._output as O

    D = O.Destinations()
    saved = O.Logger._destinations
    O.Logger._destinations = D
    seen = {i: [] for i in range(len(case["dests"]))}
    raised = []  # what the flaky destination raised on: (message_type, n)
    calls = {"F": 0}
    opened = {}

    def mk(i, kind):
        def dest(m):
            seen[i].append([m.get("message_type"), m.get("n")])
            if kind == "F":
                c = calls["F"]
                calls["F"] += 1
                if c in case["fail"]:
                    raised.append([m.get("message_type"), m.get("n")])
                    raise IOError("destination %d failed on its call %d" % (i, c))
            elif kind == "R" and not opened.get(i):
                opened[i] = True
                O.Logger().write({"message_type": "dest:opened", "n": 1000 + i})
        return dest

    errors = []
    try:
        try:
            for n in range(case["pre"]):
                O.Logger().write({"message_type": "m", "n": n})
            D.add(*[mk(i, k) for i, k in enumerate(case["dests"])])
            for n in range(case["pre"], case["pre"] + case["post"]):
                O.Logger().write({"message_type": "m", "n": n})
        except BaseException as e:  # noqa - observation
            errors.append(type(e).__name__)
    finally:
        O.Logger._destinations = saved
    return dict(seen=seen, raised=raised, errors=errors)


def oracle_staged(case, obs):
    """Everything staged before the first add - and everything logged by anybody while it is being handed over - reaches
    every healthy destination of that first call exactly once; the staged messages keep their order.  (Where a report or a
    destination's own message lands *between* the staged ones is not checked: order of such extra messages is C02's.)"""
    bad = []
    if obs["errors"]:
        bad.append("logging / add_destinations raised %s" % obs["errors"])
    ordinary = list(range(case["pre"] + case["post"]))
    nreports = sum(1 for t, _ in obs["raised"] if t != "eliot:destination_failure")
    own = [1000 + i for i, k in enumerate(case["dests"]) if k == "R" and obs["seen"][i]]  # those that were used at all
    for i, kind in enumerate(case["dests"]):
        if kind != "H":
            continue
        got = obs["seen"][i]
        ms = [n for t, n in got if t == "m"]
        if ms != ordinary:
            bad.append("healthy destination %d received the messages %s, staged and logged were %s" % (i, ms, ordinary))
        reps = sum(1 for t, _ in got if t == "eliot:destination_failure")
        if reps != nreports:
            bad.append("a destination raised on %d messages but healthy destination %d received %d eliot:destination_failure reports"
                       % (nreports, i, reps))
        opened = sorted(n for t, n in got if t == "dest:opened")
        if opened != own:
            bad.append("messages logged by destinations on first use %s, healthy destination %d received %s" % (own, i, opened))
    return bad


def run_staged_faults(ctx):
    rng = ctx.rng("staged-faults")
    cases = []
    for pre in (1, 2, 3, 5):
        for dests in (["F", "H"], ["H", "F"], ["R", "H"], ["H", "R"], ["F", "R", "H"], ["H", "H", "F"]):
            masks = [[0], [pre - 1], list(range(min(pre, 3)))] if "F" in dests else [[]]
            for fail in masks:
                cases.append(dict(kind="staged", pre=pre, dests=dests, fail=sorted(set(fail)), post=2))
    for _ in range(ctx.budget(40, 600)):
        pre = rng.randint(0, 8)
        dests = [rng.choice("HFR") for _ in range(rng.randint(1, 4))]
        if dests.count("F") > 1:
            dests = [("H" if (k == "F" and j != dests.index("F")) else k) for j, k in enumerate(dests)]
        if "H" not in dests:
            dests.append("H")
        fail = sorted(set(rng.randrange(0, pre + 3) for _ in range(rng.randint(0, 3)))) if "F" in dests else []
        cases.append(dict(kind="staged", pre=pre, dests=dests, fail=fail, post=rng.randint(0, 3)))
    nviol = 0
    for case in cases:
        ctx.running(case, "the first add_destinations call (or a logging call around it)")
        obs = run_staged(case)
        ctx.running(None)
        during = [c for c in case["fail"] if c < case["pre"]]
        ctx.case(case, nontrivial=case["pre"] >= 1 and (bool(during) or "R" in case["dests"]),
                 tags=["staged:pre:%d" % min(case["pre"], 5), "staged:fails-during-hand-over:%d" % len(during),
                       "staged:logging-destination:%d" % case["dests"].count("R")])
        bad = oracle_staged(case, obs)
        if bad and nviol < 3:
            nviol += 1
            ctx.violation(bad[0], dict(case, observed=obs, also=bad[1:3]), key=None)


def replay_handover(ctx, obj):
    case = obj.get("case") or {}
    if case.get("kind") == "staged":
        c = {k: case[k] for k in ("kind", "pre", "dests", "fail", "post")}
        obs = run_staged(c)
        print("case    :", json.dumps(c))
        print("received:", json.dumps(obs["seen"]), " raised on:", obs["raised"])
        bad = oracle_staged(c, obs)
        if bad:
            ctx.violation(bad[0], dict(c, observed=obs, also=bad[1:3]))
        return True
    if case.get("kind") != "handover":
        return False
    sk = e8_handover.skeleton(REPO)
    S = make_scheduler()
    res, obs = run_real(S, case["config"], sched.Explicit(case["schedule"]))
    print("configuration:", json.dumps(case["config"]))
    print("executed     :", [(s.tid, s.line, s.func) for s in res.trace])
    print("received     :", obs["got"], " errors:", obs["errors"])
    bad = oracle(case["config"], res, obs)
    if bad:
        ctx.violation(bad[0], dict(case, observed=obs, also=bad[1:3]), key=KEY_OVERTAKE if "overtook" in bad[0] else classify(sk, case["config"], res))
    return True


replay = replay_handover
