"""C12 - startup buffering and (un)registration lose and duplicate no message."""
from ..framework import lean_driver, canon
from .. import sysinterp, sysgen

from . import _handover

PROP = "C12"
LEAN_TARGETS = ["Eliot.Properties.C12", "Eliot.Properties.C12Buf"] + [t for t in _handover.LEAN_TARGETS if t != "Eliot.Proofs.HandoverGen"]
SKELETON_TARGETS = {"Eliot.ShapesSkel.C12_shapes (E16: Destinations.remove and addGlobalFields as statement lists)": ("Eliot.Properties.ShapesSkel", "Eliot/Audit/ShapesSkel.lean", ["Eliot.ShapesSkel.destinationsRemoveBody_shape", "Eliot.ShapesSkel.addGlobalFieldsBody_shape"]),
                    "Generated.handover = Handover.fixedSkel": "Eliot.Proofs.HandoverGen"}
AUDIT = "Eliot/Audit/C12.lean"
THEOREMS = ["Sys.C12.trim1000_trim", "Sys.C12.bufPhase_basic", "Sys.C12.buffered_until_first_add", "Sys.C12.first_add_delivers_buffer",
            "Sys.C12.later_add_gets_nothing_old", "Sys.C12.removed_gets_nothing", "Sys.C12.after_remove",
            "Sys.C12.globals_are_dict", "Sys.C12.globals_at_delivery",
            "Sys.C12.buffered_until_first_add_all", "Sys.C12.still_buffering"] + _handover.THEOREMS
RULE = ("histories of 5-60 (quick) / 5-400 (thorough) log / add_destinations / remove_destination / add_global_fields calls over 4 "
        "destinations, including more than 1000 buffered messages, several destinations per call, add_destinations() with none, "
        "remove-then-add, global fields that override message fields and change between buffering and hand-over; healthy destinations "
        "(failures are C08's); non-trivial = the history crosses the first add with a non-empty buffer and registers or removes a "
        "destination later; the concurrent hand-over clause is exercised by the scheduled runs (see `handover`)")
TRUSTED = ["destinations are healthy in the oracle runs (failure isolation is C08)"]
ASSUMPTIONS = ["a destination is registered at most once at a time (remove() removes the first occurrence)",
               "schedules are quantified over the first add_destinations only: remove_destination / later add_destinations racing with a "
               "sender on another thread are outside the property (DESIGN.md section 8; e.g. remove() of a destination that is followed by "
               "others makes a concurrent sender skip the next one)"]
EXPLANATION = "buffer-phase relation and fan-out relation proved on basic steps and lifted to all programs; first-add hand-over as a fold of send"


def gen_history(rng, big):
    ops = []
    n = 0
    dests = []
    added = False
    length = rng.randint(5, 60 if not big else 40)
    burst_at = rng.randrange(length) if big else None
    for i in range(length):
        r = rng.random()
        if burst_at == i and not added:
            # around the buffer's bound: just below, exactly at, and above 1000 (and well inside the second half)
            for _ in range(rng.choice([rng.randint(450, 999), 999, 1000, 1001, rng.randint(1001, 1060)])):
                ops.append(dict(op="log", ms=dict(mtype="m", fields=[["n", {"n": n}]], sers=None)))
                n += 1
            continue
        if r < 0.55:
            f = [["n", {"n": n}]]
            if rng.random() < 0.3:
                f.append([rng.choice(["g1", "x"]), {"n": 100 + n}])
            ops.append(dict(op="log", ms=dict(mtype="m", fields=f, sers=None)))
            n += 1
        elif r < 0.75:
            new = [d for d in range(4) if d not in dests]
            k = rng.randint(0, min(2, len(new)))
            ds = rng.sample(new, k)
            ops.append(dict(op="addDests", ds=ds))
            dests += ds
            added = True
        elif r < 0.85 and dests:
            d = rng.choice(dests)
            dests.remove(d)
            ops.append(dict(op="removeDest", d=d))
        else:
            ops.append(dict(op="addGlobals", fs=[[rng.choice(["g1", "g2", "x"]), {"n": rng.randint(10, 19)}]]))
    if not added or rng.random() < 0.5:
        ops.append(dict(op="addDests", ds=[d for d in range(4) if d not in dests][:2]))
    return ops


ENV = dict(classes=[], excs=[], keyErrorClass=105, extractors=[], serFail=[], destFail=[])


def spec(ops):
    """Independent statement of the property: what each destination must receive, as (n, global fields seen)."""
    buf, dests, added, glob = [], [], False, {}
    out = {d: [] for d in range(4)}
    for o in ops:
        if o["op"] == "log":
            msg = {k: v["n"] for k, v in o["ms"]["fields"]}
            msg.update(glob)
            if not added:
                buf.append(msg)
                buf = buf[-1000:]
            else:
                for d in dests:
                    out[d].append(dict(msg))
        elif o["op"] == "addGlobals":
            glob.update({k: v["n"] for k, v in o["fs"]})
        elif o["op"] == "removeDest":
            dests.remove(o["d"])
        elif o["op"] == "addDests":
            if not added:
                added = True
                dests = list(o["ds"])
                for msg in buf:
                    m2 = dict(msg)
                    m2.update(glob)
                    for d in dests:
                        out[d].append(m2)
                buf = []
            else:
                dests += o["ds"]
    return out


def user_part(m):
    return {k: v for k, v in m.items() if k in ("n", "g1", "g2", "x")}


def check_case(ctx, case, mo):
    real, rt = sysinterp.run_case(case)
    ops = case["prog"]
    first_add = next((i for i, o in enumerate(ops) if o["op"] == "addDests"), None)
    logs_before = sum(1 for o in ops[: first_add or 0] if o["op"] == "log")
    later_cfg = any(o["op"] in ("addDests", "removeDest") for o in ops[(first_add or 0) + 1:])
    nt = first_add is not None and logs_before > 0 and later_cfg
    ctx.case(case if len(ops) < 30 else {"prog_len": len(ops), "head": ops[:5]}, nontrivial=nt,
             tags=["buffered>1000" if logs_before > 1000 else "buffered<=1000"], sample=len(ops) < 30)
    ctx.count("ops", n=len(ops))
    if "bad" in mo:
        ctx.broken_tie("correspondence:sys-model", "model rejected the case: %s" % mo["bad"], case)
    elif mo.get("outcome") != "stuck":
        diffs = [k for k in ("offered", "accepted", "outcome") if canon(real.get(k)) != canon(mo.get(k))]
        if diffs:
            ctx.broken_tie("correspondence:sys-model", "real and model differ in %s" % ",".join(diffs), case)
        else:
            ctx.traces += 1
    bad = [a for a in rt.api if a[1] != "ok"]
    if bad or real["outcome"] != "ok":
        if real["outcome"] != "stuck":
            ctx.violation("API call failed during a history of log/add/remove/globals calls: %s" % (bad[:1] or real["outcome"]), case)
        return
    want = spec(ops)
    for d in range(4):
        got = [user_part(m) for dd, m in real["offered"] if dd == d]
        if got != want[d]:
            i = next((k for k, (a, b) in enumerate(zip(got, want[d])) if a != b), min(len(got), len(want[d])))
            ctx.violation("destination %d received %d messages, the property requires %d; first difference at index %d: got %s, expected %s"
                          % (d, len(got), len(want[d]), i, got[i] if i < len(got) else None, want[d][i] if i < len(want[d]) else None), case)
            return


def run(ctx):
    rng = ctx.rng("hist")
    n = ctx.budget(150, 4000)
    nbig = ctx.budget(5, 60)
    cases = [dict(env=ENV, prog=gen_history(rng, i < nbig)) for i in range(n)]
    model = lean_driver("Driver/Sys.lean", cases)
    for case, mo in zip(cases, model):
        check_case(ctx, case, mo)
    if "correspondence:sys-model" not in ctx.broken:
        ctx.obligation("correspondence:sys-model", "correspondence", True, "%d histories: per-destination offered/accepted sequences agree" % ctx.traces)
    _handover.run_handover(ctx)


def replay(ctx, obj):
    case = obj["case"]
    if "schedule" in case or "handover" in case or case.get("kind") == "staged":
        return _handover.replay(ctx, obj)
    mo = lean_driver("Driver/Sys.lean", [case])[0]
    check_case(ctx, case, mo)
