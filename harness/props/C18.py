"""C18 - log_call is transparent: same result, same exceptions, faithful argument log.

Cases: generated `def`s (every parameter kind, defaults, 0-6 parameters, names from a pool that
contains start_action's own keyword names, Eliot's structural keys, `self`, `result`, `args`...),
built twice with `exec` from the same source - once decorated with `log_call(...)`, once plain - as
function / method / staticmethod / classmethod, called with valid and invalid argument lists.

Tie (model = lean/Eliot/Model/LogCall.lean through Driver/C18.lean), per call:
  plain call            <-> `bind` / `callDirect`          (result class + the locals the body saw)
  inspect.getcallargs   <-> `getcallargs`
  logging_wrapper (raw) <-> `wrapper`                      (result + both messages, field by field)
  decorated call        <-> `decorated` (boltons outer function + wrapper), incl. the locals of the body
  log_call over an ordinary decorator (functools.wraps pass-through, one that adds a parameter, ones without wraps), with
  include_args taken from what inspect.signature shows <-> `decorated` on the wrapper's own parameters
  stacked decoration    <-> `decoratedTwice` (log_call(**outer)(log_call(**inner)(f)): four messages, the inner action inside the outer)
  decoration            <-> `decorate` (ValueError for include_args naming no parameter)
  `posOnlyRespected` => the model's `bindingAgrees` flag (evaluated sufficient condition for the
  hypothesis of the partial theorems).

The oracle keys of the defects fixed in /repo (6098461: {"param_name": "logger"|"action_type"|"_serializers"} with or without
"effect": "start-field-missing"; cab5e1a: {"include_args": "self"}) stay: their hand-written cases run on every seed, so a
regression is reported as a VIOLATION.

Oracles (never look at the model): see `check_case`.  Every oracle failure is attributed by a
counterfactual re-run on the real code (rename the one special parameter name / drop `self` from
include_args / make positional-only parameters ordinary): if the failure disappears the key names
that cause, otherwise the key is just the oracle id (and can match no known finding).
"""
import inspect
import json

from ..framework import lean_driver

PROP = "C18"
LEAN_TARGETS = ["Eliot.Properties.C18"]
AUDIT = "Eliot/Audit/C18.lean"
SKELETON_TARGETS = {"Eliot.ShapesSkel.C18_shapes (E16: log_call as a statement list)": ("Eliot.Properties.ShapesSkel", "Eliot/Audit/ShapesSkel.lean", ["Eliot.ShapesSkel.logCallBody_shape"])}
THEOREMS = [
    "LC.wrapper_transparent_partial",
    "LC.action_type_now_transparent",
    "LC.logger_now_transparent",
    "LC.serializers_now_transparent",
    "LC.include_self_now_transparent",
    "LC.wrapper_not_transparent_posonly_kwargs",
    "LC.wrapper_not_transparent_posonly_keyword",
    "LC.wrapper_not_transparent_call_capture",
    "LC.wrapper_transparent_false",
    "LC.start_fields_are_bound_args_partial",
    "LC.start_fields_not_bound_args_task_level",
    "LC.start_fields_not_bound_args_action_type",
    "LC.logger_none_now_logged",
    "LC.start_fields_are_bound_args_false",
    "LC.decorated_raises_only_type_error_or_body",
    "LC.end_has_result_iff",
    "LC.default_action_type",
    "LC.bind_keys",
    "LC.bind_demote",
    "LC.bindingAgrees_of_posOnlyRespected",
    "LC.stacked_shape",
    "LC.stacked_both_log_bound_args",
]
RULE = ("calls = generated signature (0-6 parameters over the five kinds, defaults, <= 1 name from the special pool "
        "{logger, action_type, _serializers, task_level, timestamp, task_uuid, action_status} plus harmless odd names) x form "
        "(function/method/staticmethod/classmethod) x decorator options x a valid argument list or one single-fault invalid one; "
        "non-trivial = signature with >= 2 parameter kinds; distinct by canonical hash of (sig, form, opts, args, body)")
TRUSTED = ["CPython's argument binding, inspect.getcallargs and boltons.funcutils.wraps are modelled and compared on every case, not verified",
           "exec-generated functions stand for all functions; argument values are None/int/str atoms (the wrapper only tests `is None`)"]
ASSUMPTIONS = ["partial theorems: no parameter is called _call (the name boltons' generated function uses for the wrapper); the three binders agree on the call (bindingAgrees, evaluated; implied by `no keyword spelled like a "
               "positional-only parameter` on every generated call); for the start fields additionally no parameter is named like one of the "
               "five keys Action._start writes itself (noStructural)",
               "logging itself does not raise (C07)"]
EXPLANATION = ("transparency / start fields proved under explicit decidable hypotheses, refuted at full strength by evaluated witnesses; "
               "end-result and default action type proved at full strength; model tied to the real decorated/undecorated pair per call")

NEUTRAL = ["x", "y", "z", "a", "b", "c", "n", "w"]
SOFT = ["result", "args", "kwargs", "message_type", "exception", "reason", "self", "_func", "wrapped_function", "include_args"]
COLLIDE = ["logger", "action_type", "_serializers"]
STRUCT = ["task_level", "timestamp", "task_uuid", "action_status"]  # + action_type: overwritten too since 6098461
CAPTURED = ["_call"]   # the name boltons' generated outer function uses for the wrapper it calls (`_func` is bound too, but unused)
HOT = COLLIDE + STRUCT + CAPTURED
STRUCT_KEYS = ["action_status", "timestamp", "task_uuid", "action_type", "task_level"]
KINDS = ["posOnly", "posOrKw", "varPos", "kwOnly", "varKw"]
RANK = {k: i for i, k in enumerate(KINDS)}
MODNAME = "genmod"


# ---- generation -----------------------------------------------------------------------------

def gen_val(rng, none_p=0.15):
    r = rng.random()
    if r < none_p:
        return None
    if r < 0.6:
        return rng.randint(0, 20)
    return "v%d" % rng.randint(0, 5)


def gen_sig(rng):
    form = rng.choices(["function", "method", "staticmethod", "classmethod"], [55, 25, 10, 10])[0]
    n = rng.choice([0, 1, 1, 2, 2, 3, 3, 4, 4, 5, 6])
    kinds = sorted((rng.choices(KINDS, [2, 5, 1, 3, 1])[0] for _ in range(n)), key=RANK.get)
    out, seen = [], set()
    for k in kinds:  # at most one *args / **kwargs
        if k in ("varPos", "varKw"):
            if k in seen:
                k = "posOrKw" if k == "varPos" else "kwOnly"
            seen.add(k)
        out.append(k)
    kinds = sorted(out, key=RANK.get)
    pool = list(NEUTRAL)
    rng.shuffle(pool)
    soft = [s for s in SOFT if not (s == "self" and form in ("method",))]
    names = []
    for k in kinds:
        if k == "varPos" and rng.random() < 0.6 and "args" not in names:
            names.append("args")
        elif k == "varKw" and rng.random() < 0.6 and "kwargs" not in names:
            names.append("kwargs")
        elif rng.random() < 0.2:
            c = rng.choice(soft)
            names.append(c if c not in names else pool.pop())
        else:
            names.append(pool.pop())
    hot = None
    if names and rng.random() < 0.4:
        hot = rng.choice(HOT)
        names[rng.randrange(len(names))] = hot
    params = [dict(name=nm, kind=k) for nm, k in zip(names, kinds)]
    # defaults: a suffix of the positional parameters, any keyword-only one
    P = [p for p in params if p["kind"] in ("posOnly", "posOrKw")]
    for p in P[len(P) - rng.randint(0, len(P)):]:
        p["default"] = gen_val(rng, 0.3 if p["name"] in ("logger", "_serializers") else 0.15)
    for p in params:
        if p["kind"] == "kwOnly" and rng.random() < 0.5:
            p["default"] = gen_val(rng, 0.3 if p["name"] in ("logger", "_serializers") else 0.15)
    if form in ("method", "classmethod"):
        first = "cls" if form == "classmethod" else ("self" if rng.random() < 0.9 else "this")
        k = "posOnly" if any(p["kind"] == "posOnly" for p in params) or rng.random() < 0.1 else "posOrKw"
        params.insert(0, dict(name=first, kind=k))
    return form, params, hot


def gen_opts(rng, params, form):
    names = [p["name"] for p in params]
    o = dict(action_type=None, include_args=None, include_result=True)
    if rng.random() < 0.4:
        o["action_type"] = rng.choice(["app:act", "t", "genmod.f"])
    if rng.random() < 0.35:
        hot = any(n in HOT for n in names)  # one suspected cause per case, so that attribution is unambiguous
        cand = [n for n in names if n != "self" or (not hot and rng.random() < 0.08)]
        k = rng.randint(0, len(cand))
        inc = rng.sample(cand, k)
        if rng.random() < 0.04:
            inc.append("nosuch")
        o["include_args"] = inc
    if rng.random() < 0.4:
        o["include_result"] = False
    return o


def gen_call(rng, params, form, valid):
    """arguments as the caller writes them (the implicit self/cls is not part of them)"""
    ps = params[1:] if form in ("method", "classmethod") else params
    P = [p for p in ps if p["kind"] in ("posOnly", "posOrKw")]
    K = [p for p in ps if p["kind"] == "kwOnly"]
    varpos = any(p["kind"] == "varPos" for p in ps)
    varkw = any(p["kind"] == "varKw" for p in ps)
    must = 0
    for i, p in enumerate(P):
        if p["kind"] == "posOnly" and "default" not in p:
            must = i + 1
    npos = rng.randint(must, len(P)) if rng.random() < 0.7 else must
    pos = [gen_val(rng, 0.3 if p["name"] in ("logger", "_serializers") else 0.1) for p in P[:npos]]
    if varpos and npos == len(P):
        pos += [gen_val(rng) for _ in range(rng.choice([0, 0, 1, 2, 3]))]
    kw = []
    for p in P[npos:]:
        if p["kind"] == "posOrKw" and ("default" not in p or rng.random() < 0.5):
            kw.append([p["name"], gen_val(rng, 0.3 if p["name"] in ("logger", "_serializers") else 0.1)])
    for p in K:
        if "default" not in p or rng.random() < 0.5:
            kw.append([p["name"], gen_val(rng, 0.3 if p["name"] in ("logger", "_serializers") else 0.1)])
    taken = {p["name"] for p in params}
    hot_in_sig = any(p["name"] in HOT for p in params)
    tag = "valid"
    if varkw:
        for _ in range(rng.choice([0, 0, 1, 2])):
            k = rng.choice(["k1", "k2", "logger", "action_type", "q"])
            if k not in taken and k not in [x[0] for x in kw]:
                kw.append([k, gen_val(rng)])
        po = [p["name"] for p in ps if p["kind"] == "posOnly"]
        if po and not hot_in_sig and rng.random() < 0.35:
            k = rng.choice(po)
            if k not in [x[0] for x in kw]:
                kw.append([k, gen_val(rng)])
                tag = "valid-posonly-name-in-kwargs"
    rng.shuffle(kw)
    if valid:
        return pos, kw, tag
    # one fault
    faults = ["drop", "extra-pos", "unknown-kw", "twice", "posonly-by-kw"]
    rng.shuffle(faults)
    for f in faults:
        if f == "drop":
            req_kw = [x for x in kw if any(p["name"] == x[0] and "default" not in p for p in ps)]
            if req_kw:
                kw.remove(rng.choice(req_kw))
                return pos, kw, "invalid-missing"
            if must and pos and not hot_in_sig:
                return pos[:must - 1], kw, "invalid-missing"
        elif f == "extra-pos" and not varpos:
            return pos + [gen_val(rng) for _ in range(len(P) - len(pos) + 1)], kw, "invalid-too-many"
        elif f == "unknown-kw" and not varkw:
            return pos, kw + [["nosuch", 1]], "invalid-unknown-kw"
        elif f == "twice":
            c = [p["name"] for p in P[:len(pos)] if p["kind"] == "posOrKw"]
            if c:
                return pos, kw + [[rng.choice(c), gen_val(rng)]], "invalid-twice"
        elif f == "posonly-by-kw" and not varkw and not hot_in_sig:
            c = [p["name"] for p in ps if p["kind"] == "posOnly"]
            if c:
                k = rng.choice(c)
                i = [p["name"] for p in P].index(k)
                if rng.random() < 0.6:
                    return pos[:i], [x for x in kw if x[0] != k] + [[k, gen_val(rng)]], "invalid-posonly-by-keyword"
                return pos, kw + [[k, gen_val(rng)]], "invalid-posonly-by-keyword"
    return pos, kw, tag


# ---- real side ------------------------------------------------------------------------------

class BodyError(Exception):
    pass


class _Helper:
    def __init__(self):
        self.rec = []
        self.raise_ = False
        self.exc = None
        self.ret = None
        self.last = None

    @staticmethod
    def freeze(v):
        if isinstance(v, dict):
            return ("dict",) + tuple(sorted(v.items(), key=lambda kv: kv[0]))
        if getattr(v, "_is_K", False):
            return "<cls>" if isinstance(v, type) else "<self>"
        return v


def sig_source(params):
    parts, seen_po, star = [], False, False
    for i, p in enumerate(params):
        k = p["kind"]
        if k != "posOnly" and seen_po:
            parts.append("/")
            seen_po = False
        if k == "posOnly":
            seen_po = True
        if k == "kwOnly" and not star:
            parts.append("*")
            star = True
        s = p["name"]
        if k == "varPos":
            s = "*" + s
            star = True
        elif k == "varKw":
            s = "**" + s
        if "default" in p:
            s += "=%r" % (p["default"],)
        parts.append(s)
    if seen_po:
        parts.append("/")
    return ", ".join(parts)


def deco_line(o):
    a = []
    if o["action_type"] is not None:
        a.append("action_type=%r" % o["action_type"])
    if o["include_args"] is not None:
        a.append("include_args=%r" % (o["include_args"],))
    if not o["include_result"]:
        a.append("include_result=False")
    return "@log_call(%s)" % ", ".join(a) if a else "@log_call"


def layers(case):
    """decorator options, outermost first"""
    return ([case["outer_opts"]] if case.get("outer_opts") else []) + [case["opts"]]


def source(case, decorated):
    deco = [deco_line(o) for o in layers(case)] if decorated else []
    fn = deco + [
        "def f(%s):" % sig_source(case["sig"]),
        "    'doc of f'",
        "    _l = dict(locals())",
        "    _H.rec.append(_l)",
        "    if _H.raise_: raise _H.exc",
        "    _H.last = ('ret', _H.ret, tuple(sorted(((k, _H.freeze(v)) for k, v in _l.items()), key=lambda kv: kv[0])))",
        "    return _H.last",
    ]
    form = case["form"]
    if form == "function":
        return "\n".join(fn) + "\n"
    top = {"staticmethod": ["@staticmethod"], "classmethod": ["@classmethod"], "method": []}[form]
    return "class K:\n    _is_K = True\n" + "\n".join("    " + l for l in top + fn) + "\n"


def build(case, decorated):
    """-> (helper, call(pos, kw), function object as a user sees it, underlying plain function)"""
    from eliot import log_call

    H = _Helper()
    g = {"__name__": MODNAME, "log_call": log_call, "_H": H}
    exec(source(case, decorated), g)
    form = case["form"]
    if form == "function":
        f = g["f"]
        return H, (lambda pos, kw: f(*pos, **kw)), f, f, None
    K = g["K"]
    raw = K.__dict__["f"]
    under = raw.__func__ if form in ("staticmethod", "classmethod") else raw
    if form == "method":
        obj = K()
        return H, (lambda pos, kw: obj.f(*pos, **kw)), under, under, obj
    if form == "classmethod":
        return H, (lambda pos, kw: K.f(*pos, **kw)), under, under, K
    return H, (lambda pos, kw: K.f(*pos, **kw)), under, under, None


def run_call(H, call, case, msgs):
    """one call -> observation; never raises"""
    from eliot import _action

    try:
        _action._ACTION_CONTEXT.set(None)
    except Exception:  # noqa
        pass
    del msgs[:]
    del H.rec[:]
    H.raise_ = bool(case["body"]["raise"])
    H.exc = BodyError("boom")
    H.ret = case["body"]["ret"]
    try:
        H.last = None
        v = call(case["pos"], dict((k, v) for k, v in case["kw"]))
        out = {"ret": v, "identical": v is H.last}
    except BaseException as e:  # noqa
        out = {"raised": type(e).__name__, "from_body": e is H.exc, "text": str(e)[:200]}
    out["rec"] = [dict(r) for r in H.rec]
    out["msgs"] = [dict(m) for m in msgs]
    return out


def observe(case, msgs):
    """decorated + undecorated + raw logging_wrapper + inspect.getcallargs on the real code"""
    obs = {}
    Hu, callu, fu, under_u, impl_u = build(case, False)
    try:
        Hd, calld, fd, under_d, impl_d = build(case, True)
        obs["decorate"] = "ok"
    except BaseException as e:  # noqa
        obs["decorate"] = type(e).__name__
        Hd = None
    obs["und"] = run_call(Hu, callu, case, msgs)
    implicit = [] if impl_u is None else [impl_u]
    try:
        obs["gca"] = {"ok": inspect.getcallargs(under_u, *(implicit + list(case["pos"])), **dict((k, v) for k, v in case["kw"]))}
    except TypeError:
        obs["gca"] = {"err": "TypeError"}
    if Hd is not None:
        obs["dec"] = run_call(Hd, calld, case, msgs)
        lw = getattr(fd, "__globals__", {}).get("_call")
        if lw is not None and callable(lw):
            impl = [] if impl_d is None else [impl_d]
            obs["raw"] = run_call(Hd, (lambda pos, kw: lw(*(impl + list(pos)), **kw)), case, msgs)
        meta = {}
        for attr in ("__name__", "__doc__", "__module__", "__qualname__"):
            meta[attr] = [getattr(fd, attr, None), getattr(fu, attr, None)]
        try:
            meta["signature"] = [str(inspect.signature(fd)), str(inspect.signature(fu))]
            meta["signature_eq"] = inspect.signature(fd) == inspect.signature(fu)
        except Exception as e:  # noqa
            meta["signature"] = ["<%s>" % type(e).__name__, None]
            meta["signature_eq"] = False
        try:
            meta["argspec"] = [repr(inspect.getfullargspec(fd)), repr(inspect.getfullargspec(fu))]
        except Exception as e:  # noqa
            meta["argspec"] = ["<%s>" % type(e).__name__, None]
        for attr in ("__defaults__", "__kwdefaults__"):
            meta[attr] = [repr(getattr(fd, attr, None) or None), repr(getattr(fu, attr, None) or None)]

        def gca(f, impl):
            try:
                d = inspect.getcallargs(f, *(([] if impl is None else [impl]) + list(case["pos"])), **dict((k, v) for k, v in case["kw"]))
                return repr(sorted((k, _Helper.freeze(v)) for k, v in d.items()))
            except TypeError:
                return "TypeError"
            except Exception as e:  # noqa
                return "<%s>" % type(e).__name__

        meta["getcallargs"] = [gca(fd, impl_d), gca(fu, impl_u)]
        obs["meta"] = meta
    try:
        b = inspect.signature(under_u).bind(*(implicit + list(case["pos"])), **dict((k, v) for k, v in case["kw"]))
        b.apply_defaults()
        obs["expected_bound"] = dict(b.arguments)
    except TypeError:
        obs["expected_bound"] = None
    return obs


# ---- oracles (model-free) -------------------------------------------------------------------

def is_marker(v):
    return getattr(v, "_is_K", False)


def same_value(a, b):
    if is_marker(a) or is_marker(b):
        # the implicit self / cls of the decorated and of the undecorated twin class
        return is_marker(a) and is_marker(b) and isinstance(a, type) == isinstance(b, type)
    return type(a) is type(b) and a == b


def check_case(case, obs):
    """-> list of (oracle id, text, detail).  Statement of C18 on the real observations only."""
    fails = []
    if "dec" not in obs:
        # decoration itself failed: legitimate only for include_args naming something that is no parameter
        names = [p["name"] for p in case["sig"]]
        inc = [k for o in layers(case) for k in (o["include_args"] or [])]
        if all(k in names for k in inc):
            fails.append(("decoration", "log_call(...) raised %s at decoration time for valid options" % obs["decorate"], {}))
        elif obs["decorate"] != "ValueError":
            fails.append(("decoration", "include_args naming no parameter raised %s, not ValueError" % obs["decorate"], {}))
        return fails
    u, d = obs["und"], obs["dec"]
    # O1/O2 transparency
    if "ret" in u:
        if "raised" in d:
            fails.append(("transparency", "undecorated call returns, decorated call raises %s (%s)" % (d["raised"], d["text"]), {}))
        elif not same_value(u["ret"], d["ret"]):
            fails.append(("transparency", "decorated call returns %r, undecorated %r" % (d["ret"], u["ret"]), {}))
        elif not d.get("identical", True):
            fails.append(("transparency", "decorated call returns an equal value but not the object the function returned", {}))
    else:
        if "ret" in d:
            fails.append(("transparency", "undecorated call raises %s, decorated call returns" % u["raised"], {}))
        elif u["raised"] != d["raised"]:
            fails.append(("transparency", "undecorated call raises %s, decorated raises %s" % (u["raised"], d["raised"]), {}))
        elif u["from_body"] and not d["from_body"]:
            fails.append(("transparency", "the exception raised by the body is not the object that leaves the decorated call", {}))
    if fails:
        return fails
    exp = obs["expected_bound"]
    if exp is None:
        return fails  # the call does not bind: nothing is promised about the log
    # one action per log_call layer: starts outermost first, ends innermost first
    m = d["msgs"]
    L = layers(case)
    n = len(L)
    final = "succeeded" if "ret" in u else "failed"
    ok_shape = (len(m) == 2 * n and all(x.get("action_status") == "started" for x in m[:n])
                and all(x.get("action_status") == final for x in m[n:])
                and len({x.get("task_uuid") for x in m}) == 1
                and all(m[i].get("task_level") == [2] * i + [1] for i in range(n))
                and all(m[2 * n - 1 - i].get("task_level") == [2] * i + [3 if i < n - 1 else 2] for i in range(n)))
    if not ok_shape:
        fails.append(("one-action", "decorated call did not log exactly one start and one matching end message per log_call layer: %r" % (
            [(x.get("action_status"), x.get("task_level")) for x in m],), {}))
        return fails
    qual = "f" if case["form"] == "function" else "K.f"
    for i, opts in enumerate(L):
        start, end = m[i], m[2 * n - 1 - i]
        where = "" if n == 1 else (" of the outer log_call" if i == 0 else " of the inner log_call")
        # O3 start fields = bound arguments without self, restricted to include_args
        want = {k: v for k, v in exp.items() if k != "self"}
        inc = opts["include_args"]
        if inc is not None:
            want = {k: v for k, v in want.items() if k in inc}
        for k, v in want.items():
            if k not in start:
                fails.append(("start-fields", "bound argument %s=%r missing from the start message%s" % (k, v, where), {"field": k, "effect": "start-field-missing"}))
            elif not (start[k] is v or same_value(start[k], v)):
                fails.append(("start-fields", "start message%s has %s=%r, the call bound %r" % (where, k, start[k], v), {"field": k, "effect": "start-field-overwritten"}))
        for k in start:
            if k not in want and k not in STRUCT_KEYS:
                fails.append(("start-fields", "start message%s has a field %s that is not a logged argument" % (where, k), {"field": k, "effect": "start-field-extra"}))
        # O4 result
        if "ret" in u:
            if opts["include_result"]:
                if "result" not in end or not (end["result"] is d["ret"] or same_value(end["result"], d["ret"])):
                    fails.append(("end-result", "successful end message%s lacks result == return value" % where, {}))
            elif "result" in end:
                fails.append(("end-result", "include_result=False but the end message%s has a result" % where, {}))
        # O5 action type (the default is only checked on the innermost layer: it names the function itself)
        want_type = opts["action_type"] if opts["action_type"] is not None else ("%s.%s" % (MODNAME, qual) if i == n - 1 else None)
        if want_type is not None and "action_type" not in want and (start.get("action_type") != want_type or end.get("action_type") != want_type):
            fails.append(("action-type", "action_type%s is %r, expected %r" % (where, start.get("action_type"), want_type), {}))
    # O6 metadata
    meta = obs["meta"]
    for attr in ("__name__", "__doc__", "__module__"):
        if meta[attr][0] != meta[attr][1]:
            fails.append(("metadata", "%s not preserved: %r vs %r" % (attr, meta[attr][0], meta[attr][1]), {}))
    if meta["__qualname__"][0] != meta["__qualname__"][1]:
        fails.append(("metadata-qualname", "__qualname__ not preserved: %r vs %r" % tuple(meta["__qualname__"]), {}))
    if not meta["signature_eq"]:
        fails.append(("metadata", "inspect.signature not preserved: %s vs %s" % tuple(meta["signature"]), {}))
    for what in ("argspec", "__defaults__", "__kwdefaults__", "getcallargs"):
        if meta[what][0] != meta[what][1]:
            fails.append(("metadata", "the decorated function does not keep the signature: %s is %s, the function's is %s" % (
                {"argspec": "inspect.getfullargspec", "getcallargs": "inspect.getcallargs(f, *args, **kw)"}.get(what, what), meta[what][0], meta[what][1]), {}))
    return fails


def variants(case):
    """counterfactual cases, each removing one suspected cause: (key-fragment, case')"""
    out = []
    names = [p["name"] for p in case["sig"]]

    def rename(c, old, new):
        c = json.loads(json.dumps(c))
        for p in c["sig"]:
            if p["name"] == old:
                p["name"] = new
        c["kw"] = [[new if k == old else k, v] for k, v in c["kw"]]
        for o in layers(c):
            if o["include_args"] is not None:
                o["include_args"] = [new if k == old else k for k in o["include_args"]]
        return c

    for h in HOT:
        if h in names:
            out.append(({"param_name": h}, rename(case, h, "qq")))
    if any(o["include_args"] is not None and "self" in o["include_args"] for o in layers(case)):
        c = json.loads(json.dumps(case))
        for o in layers(c):
            if o["include_args"] is not None:
                o["include_args"] = [k for k in o["include_args"] if k != "self"]
        out.append(({"include_args": "self"}, c))
    po = [p["name"] for p in case["sig"] if p["kind"] == "posOnly"]
    if any(k in po for k, _ in case["kw"]):
        c = json.loads(json.dumps(case))
        for p in c["sig"]:
            if p["kind"] == "posOnly":
                p["kind"] = "posOrKw"
        varkw = any(p["kind"] == "varKw" for p in case["sig"])
        out.append(({"binding": "posonly-name-reused-in-kwargs" if varkw else "posonly-passed-as-keyword"}, c))
    return out


def attribute(case, oracle, detail, msgs):
    """key of a failed oracle: the single cause whose removal makes this oracle pass again"""
    if oracle == "metadata-qualname":
        return {"metadata": "__qualname__"}
    for frag, c2 in variants(case):
        try:
            f2 = check_case(c2, observe(c2, msgs))
        except Exception:  # noqa
            continue
        if not any(o == oracle for o, _, _ in f2):
            key = dict(frag)
            if "param_name" in key and oracle == "start-fields":
                key["effect"] = detail.get("effect", "start-fields")
            elif key.get("param_name") in CAPTURED and oracle == "transparency":
                key["effect"] = "outer-function-name-capture"
            elif oracle not in ("transparency", "start-fields"):
                key["oracle"] = oracle
            return key
    return {"oracle": oracle}


def report(ctx, case, fails, msgs):
    done = set()
    for oracle, text, detail in fails:
        key = attribute(case, oracle, detail, msgs)
        ks = json.dumps(key, sort_keys=True)
        if ks in done:
            continue
        done.add(ks)
        ctx.violation("log_call not transparent/faithful [%s]: %s; def f(%s) %s called with %r %r" % (
            oracle, text, sig_source(case["sig"]), case["form"], case["pos"], dict((k, v) for k, v in case["kw"])), case, key=key)
        ctx.count("oracle-failed:" + ks)



# ---- log_call on top of an ordinary decorator ---------------------------------------------------------

WRAPPERS = {
    # name: (parameters of the wrapper itself, uses functools.wraps, forwards)
    "wraps-passthrough": ([dict(name="args", kind="varPos"), dict(name="kwargs", kind="varKw")], True, "fn(*args, **kwargs)"),
    "plain-passthrough": ([dict(name="args", kind="varPos"), dict(name="kwargs", kind="varKw")], False, "fn(*args, **kwargs)"),
    "wraps-extra": ([dict(name="extra", kind="posOrKw"), dict(name="args", kind="varPos"), dict(name="kwargs", kind="varKw")], True, "fn(*args, **kwargs)"),
    "renamed": ([dict(name="a", kind="varPos"), dict(name="k", kind="varKw")], False, "fn(*a, **k)"),
}


def gen_wrapped_case(rng):
    names = rng.sample(["x", "y", "user", "password", "n"], rng.randint(1, 4))
    kinds = sorted((rng.choice(["posOrKw", "posOrKw", "kwOnly"]) for _ in names), key=RANK.get)
    params = [dict(name=n, kind=k) for n, k in zip(names, kinds)]
    P = [p for p in params if p["kind"] == "posOrKw"]
    for p in P[len(P) - rng.randint(0, len(P)):]:
        p["default"] = gen_val(rng)
    for p in params:
        if p["kind"] == "kwOnly" and rng.random() < 0.5:
            p["default"] = gen_val(rng)
    wrapper = rng.choice(sorted(WRAPPERS))
    pos, kw, tag = gen_call(rng, params, "function", rng.random() < 0.85)
    if wrapper == "wraps-extra":
        pos = [gen_val(rng)] + pos
    wsig, uses_wraps, _ = WRAPPERS[wrapper]
    visible = [p["name"] for p in (params if uses_wraps else wsig)]   # what inspect.signature(target) shows
    opts = dict(action_type=rng.choice([None, "app:act"]), include_args=None, include_result=rng.random() < 0.7)
    if rng.random() < 0.7:
        opts["include_args"] = rng.sample(visible, rng.randint(0, len(visible)))
    return dict(kind="wrapped", wrapper=wrapper, sig=params, opts=opts, pos=pos, kw=kw,
                body={"raise": rng.random() < 0.15, "ret": gen_val(rng)}, call=tag)


def wrapped_source(case):
    wsig, uses_wraps, forward = WRAPPERS[case["wrapper"]]
    return "\n".join([
        "import functools",
        "def f(%s):" % sig_source(case["sig"]),
        "    'doc of f'",
        "    _l = dict(locals())",
        "    _H.rec.append(_l)",
        "    if _H.raise_: raise _H.exc",
        "    _H.last = ('ret', _H.ret, tuple(sorted(((k, _H.freeze(v)) for k, v in _l.items()), key=lambda kv: kv[0])))",
        "    return _H.last",
        "def deco(fn):",
        "    @functools.wraps(fn)" if uses_wraps else "    # no functools.wraps",
        "    def w(%s):" % sig_source(wsig),
        "        return %s" % forward,
        "    return w",
        "target = deco(f)",
        "decorated = %s(deco(f))" % deco_line(case["opts"])[1:],
    ]) + "\n"


def observe_wrapped(case, msgs):
    from eliot import log_call

    H = _Helper()
    g = {"__name__": MODNAME, "log_call": log_call, "_H": H}
    obs = {}
    try:
        exec(wrapped_source(case), g)
        obs["decorate"] = "ok"
    except BaseException as e:  # noqa
        obs["decorate"] = type(e).__name__
        return obs
    target, decorated = g["target"], g["decorated"]
    obs["und"] = run_call(H, (lambda pos, kw: target(*pos, **kw)), case, msgs)
    obs["dec"] = run_call(H, (lambda pos, kw: decorated(*pos, **kw)), case, msgs)
    try:
        b = inspect.signature(target, follow_wrapped=False).bind(*case["pos"], **dict((k, v) for k, v in case["kw"]))
        b.apply_defaults()
        obs["expected_bound"] = dict(b.arguments)
    except TypeError:
        obs["expected_bound"] = None
    return obs


def check_wrapped(case, obs):
    """log_call over an ordinary decorator: still transparent, and what it logs are the arguments as Python binds them to the
    callable it was given, never anything outside include_args"""
    fails = []
    if "dec" not in obs:
        return [("decoration", "log_call(%r) raised %s at decoration time although include_args names parameters inspect.signature shows" % (
            case["opts"], obs["decorate"]))]
    u, d = obs["und"], obs["dec"]
    if "ret" in u:
        if "raised" in d:
            fails.append(("transparency", "the callable returns, log_call'ed it raises %s (%s)" % (d["raised"], d["text"])))
        elif not same_value(u["ret"], d["ret"]) or not d.get("identical", True):
            fails.append(("transparency", "log_call'ed callable returns %r, the callable itself %r" % (d["ret"], u["ret"])))
    elif "ret" in d or u["raised"] != d["raised"] or (u["from_body"] and not d["from_body"]):
        fails.append(("transparency", "the callable raises %s, log_call'ed it %s" % (u["raised"], d.get("raised", "returns"))))
    if fails or obs["expected_bound"] is None:
        return fails
    m = d["msgs"]
    if len(m) != 2 or m[0].get("action_status") != "started":
        return [("one-action", "not exactly one start and one end message: %r" % [(x.get("action_status"), x.get("task_level")) for x in m])]
    start = {k: v for k, v in m[0].items() if k not in STRUCT_KEYS}
    inc = case["opts"]["include_args"]
    if inc is not None:
        outside = [k for k in start if k not in inc]
        if outside:
            fails.append(("include-args", "the start message has %r although include_args is %r (start fields: %r)" % (outside, inc, start)))
    want = {k: v for k, v in obs["expected_bound"].items() if k != "self" and (inc is None or k in inc)}
    if not fails and (set(start) != set(want) or any(not (start[k] is want[k] or same_value(start[k], want[k])) for k in want)):
        fails.append(("start-fields", "the start message holds %r, the call binds %r%s" % (start, want, "" if inc is None else " (restricted to %r)" % inc)))
    return fails


# ---- model side -----------------------------------------------------------------------------

def enc(v):
    if isinstance(v, tuple):
        return {"t": [enc(x) for x in v]}
    if isinstance(v, dict):
        return {"d": {k: enc(x) for k, x in v.items()}}
    if is_marker(v):
        return "<cls>" if isinstance(v, type) else "<self>"
    if v is None or isinstance(v, (int, str)) and not isinstance(v, bool):
        return v
    return {"other": type(v).__name__}


def enc_msg(m, position):
    position = 1 if m.get("action_status") in ("succeeded", "failed") else 0   # 1 = an end message (Eliot always writes action_status itself)
    out = {}
    for k, v in m.items():
        if k == "result" and position == 1:
            out[k] = {"res": None}
        elif k in ("action_status", "action_type") and isinstance(v, str) and (k == "action_type" or v in ("started", "succeeded", "failed")):
            out[k] = {"sys": v}
        elif k == "timestamp" and isinstance(v, float):
            out[k] = {"sys": "<time>"}
        elif k == "task_uuid" and isinstance(v, str) and len(v) == 36:
            out[k] = {"sys": "<uuid>"}
        elif k == "task_level" and isinstance(v, list):
            out[k] = {"sys": "<level>"}
        elif k == "exception" and position == 1:
            out[k] = {"sys": "<class>"}
        elif k == "reason" and position == 1:
            out[k] = {"sys": "<reason>"}
        else:
            out[k] = {"arg": enc(v)}
    return out


def enc_outcome(o):
    if "ret" in o:
        return {"ret": None}
    if o["from_body"]:
        return {"raised": "body"}
    return {"raised": o["raised"]}


def enc_run(o):
    return {"result": enc_outcome(o), "msgs": [enc_msg(m, i) for i, m in enumerate(o["msgs"])]}


def model_case(case):
    implicit = {"method": ["<self>"], "classmethod": ["<cls>"]}.get(case["form"], [])
    d = dict(sig=case["sig"], pos=implicit + list(case["pos"]), kw=case["kw"], opts=case["opts"],
             meta=dict(module=MODNAME, qualname="f" if case["form"] == "function" else "K.f"), body=case["body"])
    if case.get("outer_opts"):
        # boltons' generated function keeps __module__ and __name__ but not __qualname__
        d["outer_opts"], d["outer_meta"] = case["outer_opts"], dict(module=MODNAME, qualname="f")
    return d


def strip_model_run(r):
    """model result payloads are model-internal; messages: drop the result payload"""
    out = {"result": r["result"], "msgs": []}
    for m in r["msgs"]:
        out["msgs"].append({k: ({"res": None} if "res" in v else v) for k, v in m.items()})
    return out


def diff(ctx, case, obs, mo):
    """model vs real; returns True when everything agreed"""
    bad = []

    def cmp(name, real, model):
        if real != model:
            bad.append((name, real, model))

    if "bad" in mo:
        ctx.broken_tie("correspondence:log_call-model", "driver rejected the case: %s" % mo["bad"], case)
        return False
    if not mo["wf"]:
        bad.append(("wf", "python accepted the def", "model says ill-formed"))
    st = mo.get("stacked")
    if st is None:
        cmp("decorate", obs["decorate"], mo["decorate"])
    else:
        cmp("decorate", obs["decorate"], mo["decorate"] if mo["decorate"] != "ok" else st["decorate"])
    u = obs["und"]
    cmp("direct", enc_outcome(u), mo["direct"])
    if "ok" in mo["bind"]:
        cmp("bind", {k: enc(v) for k, v in u["rec"][0].items()} if u["rec"] else None, mo["bind"]["ok"])
    else:
        cmp("bind", (u.get("raised"), len(u["rec"])), ("TypeError", 0))
    g = obs["gca"]
    cmp("getcallargs", {k: enc(v) for k, v in g["ok"].items()} if "ok" in g else "TypeError",
        mo["gca"]["ok"] if "ok" in mo["gca"] else "TypeError")
    if "dec" in obs:
        d = obs["dec"]
        real_tr = (same_value(u["ret"], d["ret"]) if ("ret" in u and "ret" in d) else
                   ("raised" in u and "raised" in d and u["raised"] == d["raised"] and u["from_body"] == d["from_body"]))
        mdec = mo["decorated"] if st is None else st["run"]
        cmp("transparent", real_tr, mo["transparent"] if st is None else st["transparent"])
        cmp("decorated", enc_run(obs["dec"]), strip_model_run(mdec))
        rec = obs["dec"]["rec"]
        ib = mo["innerBound"] if st is None else st["innerBound"]
        reached = len(mdec["msgs"]) == (2 if st is None else 4)
        if reached and ib is not None and "ok" in ib:
            cmp("decorated-body-locals", {k: enc(v) for k, v in rec[0].items()} if rec else None, ib["ok"])
        else:
            cmp("decorated-body-locals", len(rec), 0)
        if "raw" in obs and st is None:
            cmp("logging_wrapper", enc_run(obs["raw"]), strip_model_run(mo["wrapper"]))
    if mo["wf"] and mo["posOnlyRespected"] and not mo["capturesCall"] and not (st or mo)["transparent"]:
        bad.append(("transparency-characterisation", "not transparent", "posOnlyRespected and no parameter called _call"))
    if mo["wf"] and mo["posOnlyRespected"] and not mo["bindingAgrees"]:
        bad.append(("binding-characterisation", "bindingAgrees=%s" % mo["bindingAgrees"], "posOnlyRespected=%s" % mo["posOnlyRespected"]))
    if bad:
        name, real, model = bad[0]
        ctx.broken_tie("correspondence:log_call-model", "real code and model differ on %s" % name,
                       dict(case=case, part=name, real=real, model=model, also=[b[0] for b in bad[1:]]))
        return False
    return True


# ---- driver ---------------------------------------------------------------------------------

def gen_cases(ctx):
    rng = ctx.rng("gen")
    nsig = ctx.budget(150, 7500)
    cases = []
    for _ in range(nsig):
        form, params, hot = gen_sig(rng)
        for j in range(4):
            valid = j < 3 or rng.random() < 0.3
            pos, kw, tag = gen_call(rng, params, form, valid)
            outer = None
            if j == 2 and rng.random() < 0.6:   # stacked: log_call(**outer)(log_call(**opts)(f))
                outer = gen_opts(rng, params, form)
                outer["action_type"] = "outer:act"
            cases.append(dict(form=form, sig=params, opts=gen_opts(rng, params, form), outer_opts=outer, pos=pos, kw=kw,
                              body=dict(**{"raise": rng.random() < 0.2}, ret=gen_val(rng)), call=tag, hot=hot))
    # the hand-found divergences of DESIGN.md section 4 are always part of the run
    base = dict(form="function", opts=dict(action_type=None, include_args=None, include_result=True), outer_opts=None, kw=[],
                body={"raise": False, "ret": 7}, call="valid", hot=None)
    cases += [
        dict(base, sig=[dict(name="action_type", kind="posOrKw"), dict(name="x", kind="posOrKw", default=1)], pos=[5], hot="action_type"),
        dict(base, sig=[dict(name="logger", kind="posOrKw")], pos=[7], hot="logger"),
        dict(base, sig=[dict(name="_call", kind="posOrKw")], pos=[5], hot="_call"),
        dict(base, sig=[dict(name="x", kind="posOrKw"), dict(name="_call", kind="kwOnly", default=1)], pos=[5], hot="_call"),
        dict(base, sig=[dict(name="_serializers", kind="posOrKw")], pos=[7], hot="_serializers"),
        dict(base, sig=[dict(name="a", kind="posOnly"), dict(name="kw", kind="varKw")], pos=[1], kw=[["a", 2]], call="valid-posonly-name-in-kwargs"),
        dict(base, sig=[dict(name="a", kind="posOnly")], pos=[], kw=[["a", 2]], call="invalid-posonly-by-keyword"),
        dict(base, sig=[dict(name="task_level", kind="posOrKw"), dict(name="y", kind="kwOnly", default=3)], pos=[4], hot="task_level"),
        dict(base, sig=[dict(name="x", kind="posOrKw"), dict(name="timestamp", kind="kwOnly", default=3)], pos=[4], hot="timestamp"),
        dict(base, sig=[dict(name="task_uuid", kind="posOrKw")], pos=[4], hot="task_uuid"),
        dict(base, sig=[dict(name="action_status", kind="posOrKw")], pos=[4], hot="action_status"),
        dict(base, sig=[dict(name="logger", kind="posOrKw", default=None)], pos=[], hot="logger"),
        dict(base, sig=[dict(name="_serializers", kind="posOrKw", default=None)], pos=[], hot="_serializers"),
        dict(base, form="method", sig=[dict(name="self", kind="posOrKw"), dict(name="x", kind="posOrKw")], pos=[4],
             opts=dict(action_type=None, include_args=["self", "x"], include_result=True)),
        # stacked decoration: the outer log_call binds against the function the inner one returned
        dict(base, sig=[dict(name="x", kind="posOrKw"), dict(name="y", kind="posOrKw", default=10), dict(name="rest", kind="varPos"),
                        dict(name="key", kind="kwOnly", default=None), dict(name="extra", kind="varKw")],
             pos=[1, 2, 3], kw=[["key", "v1"], ["more", 4]], outer_opts=dict(action_type="outer", include_args=None, include_result=True)),
        dict(base, form="method", sig=[dict(name="self", kind="posOrKw"), dict(name="x", kind="posOrKw"), dict(name="y", kind="posOrKw", default=1)],
             pos=[4], outer_opts=dict(action_type="outer", include_args=["x"], include_result=False)),
    ]
    return cases


def setup_dest():
    import eliot

    msgs = []
    dest = msgs.append
    eliot.add_destinations(dest)
    return msgs, dest


def run(ctx):
    import eliot

    cases = gen_cases(ctx)
    wrng = ctx.rng("wrapped")
    wcases = [gen_wrapped_case(wrng) for _ in range(ctx.budget(60, 3000))] + [
        # the documented use: keep a secret out of the log, on a function that already carries an ordinary decorator
        dict(kind="wrapped", wrapper="wraps-passthrough", sig=[dict(name="user", kind="posOrKw"), dict(name="password", kind="posOrKw")],
             opts=dict(action_type=None, include_args=["user"], include_result=True), pos=["v1", "v2"], kw=[], body={"raise": False, "ret": 1}, call="valid"),
        dict(kind="wrapped", wrapper="wraps-extra", sig=[dict(name="user", kind="posOrKw"), dict(name="password", kind="kwOnly", default=None)],
             opts=dict(action_type=None, include_args=["user"], include_result=False), pos=[0, "v1"], kw=[["password", "v2"]], body={"raise": False, "ret": 1}, call="valid"),
    ]
    msgs, dest = setup_dest()
    try:
        wobs = [observe_wrapped(c, msgs) for c in wcases]
    finally:
        eliot.remove_destination(dest)
    # the model sees the callable log_call was given: the wrapper's own parameters, and as its body whatever the wrapper did
    wmodel_cases = [dict(sig=WRAPPERS[c["wrapper"]][0], pos=c["pos"], kw=c["kw"], opts=c["opts"],
                         meta=dict(module=MODNAME, qualname="f" if WRAPPERS[c["wrapper"]][1] else "deco.<locals>.w"),
                         body={"raise": "raised" in o.get("und", {}), "ret": c["body"]["ret"]})
                    for c, o in zip(wcases, wobs)]
    model = lean_driver("Driver/C18.lean", [model_case(c) for c in cases] + wmodel_cases)
    wmodel = model[len(cases):]
    msgs, dest = setup_dest()
    try:
        for case, mo, obs in zip(wcases, wmodel, wobs):
            ctx.case(case, nontrivial=case["opts"]["include_args"] is not None,
                     tags=["form:wrapped-callable", "wrapper:" + case["wrapper"], "call:" + case["call"],
                           "include_args:%s" % (case["opts"]["include_args"] is not None)])
            if "dec" in obs and "bad" not in mo:
                def shape(r):   # which exception the wrapped callable raised is its own business
                    return dict(r, result={"raised": "*"} if "raised" in r["result"] else r["result"])
                if shape(enc_run(obs["dec"])) != shape(strip_model_run(mo["decorated"])):
                    ctx.broken_tie("correspondence:log_call-model", "log_call over an ordinary decorator differs from the model",
                                   dict(case=case, part="wrapped", real=enc_run(obs["dec"]), model=strip_model_run(mo["decorated"])))
                else:
                    ctx.traces += 1
            for oracle, text in check_wrapped(case, obs):
                ctx.violation("log_call over an ordinary decorator [%s]: %s; def f(%s) under %s, %r, called with %r %r" % (
                    oracle, text, sig_source(case["sig"]), case["wrapper"], case["opts"], case["pos"], dict((k, v) for k, v in case["kw"])),
                    case, key={"oracle": oracle, "form": "wrapped-callable"})
        for case, mo in zip(cases, model):
            core = {k: case.get(k) for k in ("form", "sig", "opts", "outer_opts", "pos", "kw", "body")}
            try:
                obs = observe(core, msgs)
            except Exception as e:  # noqa  (a generated def Python itself rejects would be a generator bug)
                ctx.broken_tie("correspondence:log_call-model", "harness could not build the case: %s: %s" % (type(e).__name__, e), core)
                continue
            kinds = {p["kind"] for p in case["sig"]}
            ctx.case(core, nontrivial=len(kinds) >= 2,
                     tags=["form:" + case["form"], "call:" + case["call"], "nparams:%d" % len(case["sig"]),
                           "hot:%s" % case["hot"], "stacked:%s" % bool(case.get("outer_opts")), "include_args:%s" % (case["opts"]["include_args"] is not None),
                           "include_result:%s" % case["opts"]["include_result"], "body-raises:%s" % case["body"]["raise"]]
                     + ["kind:" + k for k in sorted(kinds)])
            if diff(ctx, core, obs, mo):
                ctx.traces += 1
            fails = check_case(core, obs)
            if fails:
                report(ctx, core, fails, msgs)
    finally:
        try:
            eliot.remove_destination(dest)
        except Exception:  # noqa
            pass
    if "correspondence:log_call-model" not in ctx.broken:
        ctx.obligation("correspondence:log_call-model", "correspondence", True, "%d calls compared" % ctx.traces)


def replay(ctx, obj):
    import eliot

    case = obj.get("case") or {}
    if "case" in case and "part" in case:  # a recorded disagreement
        case = case["case"]
    msgs, dest = setup_dest()
    if case.get("kind") == "wrapped":
        try:
            obs = observe_wrapped(case, msgs)
            print(wrapped_source(case))
            print({k: v for k, v in obs.items()})
            for oracle, text in check_wrapped(case, obs):
                ctx.violation("log_call over an ordinary decorator [%s]: %s" % (oracle, text), case, key={"oracle": oracle, "form": "wrapped-callable"})
        finally:
            eliot.remove_destination(dest)
        return
    try:
        obs = observe(case, msgs)
        print("def f(%s)  [%s]  opts=%r  args=%r kw=%r" % (sig_source(case["sig"]), case["form"], case["opts"], case["pos"], case["kw"]))
        print("undecorated:", {k: v for k, v in obs["und"].items() if k != "msgs"})
        if "dec" in obs:
            print("decorated:  ", obs["dec"])
        else:
            print("decoration raised", obs["decorate"])
        fails = check_case(case, obs)
        if fails:
            report(ctx, case, fails, msgs)
    finally:
        eliot.remove_destination(dest)
