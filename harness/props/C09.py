"""C09 - parsing is order-independent and detects task completeness exactly.

Tie: histories (message lists) -> real eliot.parse.Parser, step by step, against the Lean trie
model (Driver/C09.lean): after every add the tasks handed back and the full state of every task
still in the parser must agree.  Oracles (model-free): final Task objects `==` across all tried
orders of one message set; a task is handed back exactly at the step that delivers its last
missing message; subsets never raise; parse_stream yields every task exactly once.
"""
import itertools

from ..framework import lean_driver, chash

PROP = "C09"
LEAN_TARGETS = ["Eliot.Properties.C09", "Eliot.Properties.C09Flat"]
AUDIT = "Eliot/Audit/C09.lean"
THEOREMS = [
    "PM.Tree.step", "PM.Tree.stepC", "PM.Task.add_step", "PM.Parser.add_step",
    "PM.C09.feed_ok", "PM.C09.subset_no_error", "PM.C09.parse_perm_invariant",
    "PM.C09.complete_iff_all_arrived", "PM.C09.never_early", "PM.C09.yield_exactly_once",
    "PM.C09.reconstruct",
    # the flat `_nodes` map and upward walk of parse.py (Model/ParseFlat.lean) refines the trie
    "PM.upward_seg", "PM.add_refines", "PM.C09Flat.flat_refines_trie", "PM.C09Flat.flat_sequence_refines_trie",
    "PM.C09Flat.flat_root_and_complete", "PM.C09Flat.spec_stream_in_domain", "PM.C09Flat.flat_single_message_task",
    "PM.C09Flat.flat_follows_spec", "PM.C09Flat.flat_complete_iff_all_arrived",
    # ... and Parser.add / parse_stream over flat tasks refine the trie parser (Proofs/ParseFlatParser.lean)
    "PM.FParser.add_refines", "PM.FParser.feed_refines", "PM.pdom_of_spec", "PM.C09Flat.flat_parse_stream_follows_spec",
    "PM.C09Flat.PInv.get", "PM.C09Flat.flat_perm_invariant", "PM.C09Flat.flat_error_agrees", "PM.C09Flat.handed_back_is_forgotten",
]
# theorems about the decisions of parse.py *translated from the current source* (extractor E12, lean/Eliot/Generated/ParseRule.lean)
RULE_THEOREMS = ["PM.C09Rule.completeNow_is_translated", "PM.C09Rule.visit_is_translated", "PM.C09Rule.shapes",
                 "PM.C09Rule.add_single_message_task", "PM.C09Rule.add_action_message"]
SKELETON_TARGETS = {"PM.C09Rule.translated_parse_decisions (E12: the `if` test of Task._insert_action, its loop, the order of effects, "
                    "_ensure_node_parents and the dispatch of Task.add, translated from eliot/parse.py)":
                    ("Eliot.Properties.C09Rule", "Eliot/Audit/C09Rule.lean", RULE_THEOREMS)}
RULE = ("histories = permutations / sub-multisets / task interleavings of the messages of generated well-formed forests "
        "(1-4 tasks, depth <= 4 quick / 6 thorough, nested actions standing for remote sub-tasks too), plus a malformed stream "
        "(duplicates, type clashes, wrong status, message under a message) used only to validate the model's error branches; "
        "non-trivial = well-formed history with >= 2 tasks or depth >= 2 that is not in emission order; distinct by canonical hash")
TRUSTED = ["pyrsistent (PClass/pmap equality) as used by eliot.parse", "message payloads are abstracted to an integer id (the parser never inspects other fields)"]
ASSUMPTIONS = ["the order in which parse_stream hands out the incomplete leftovers at the end of the stream is not compared (pmap hash order in the code, association-list order in the models)",
               "a message whose action_status is present but null is outside the models' message type (status = absent); the generator never writes a null status",
               "well-formed input: messages are a duplicate-free sub-list of the messages of a forest of action trees with distinct task uuids",
               "the model answers outOfDomain (error underMessage) where a message arrives below a plain message; no property quantifies over such streams"]
EXPLANATION = "theorems over the trie model of eliot.parse; model tied to the code by step-by-step state comparison"


# ---- generation -----------------------------------------------------------------------------

def gen_tree(rng, uuid, pre, depth, maxdepth, msgs, ctr, wide=None):
    t = rng.choice(["a", "b", "a", "b", ""])  # the default action type is the empty string
    msgs.append(dict(uuid=uuid, level=pre + [1], atype=t, status="started", body=next(ctr)))
    n = 2
    d = depth
    width = rng.randint(0, 3)
    if wide and (depth == 0 if wide[1] == 0 else (depth == 1 and not wide[2])):
        width = wide[0]  # one action (the root, or its first sub-action) with very many direct children
        wide[2] = True
    for _ in range(width):
        if depth < maxdepth and rng.random() < (0.4 if width <= 3 else (0.01 if not (wide and wide[1] == 1 and depth == 0) else 0.6)):
            d = max(d, gen_tree(rng, uuid, pre + [n], depth + 1, maxdepth, msgs, ctr, wide))
        else:
            msgs.append(dict(uuid=uuid, level=pre + [n], body=next(ctr)))
        n += 1
    msgs.append(dict(uuid=uuid, level=pre + [n], atype=t, status=rng.choice(["succeeded", "failed"]), body=next(ctr)))
    return d


WIDTHS = [40, 130, 254, 255, 256, 257, 258, 300, 520]


def gen_forest(rng, maxdepth, maxtasks, wide=False):
    ctr = itertools.count()
    msgs, depth = [], 0
    ntasks = rng.randint(1, 2 if wide else maxtasks)
    for u in range(ntasks):
        if rng.random() < 0.2 and not (wide and u == 0):
            msgs.append(dict(uuid="u%d" % u, level=[1], body=next(ctr)))
        else:
            w = [rng.choice(WIDTHS), rng.randint(0, 1), False] if (wide and u == 0) else None
            depth = max(depth, 1 + gen_tree(rng, "u%d" % u, [], 0, min(maxdepth, 2) if w else maxdepth, msgs, ctr, w))
    return msgs, ntasks, depth


def malform(rng, msgs):
    msgs = list(msgs)
    ctr = itertools.count(10000)
    for _ in range(rng.randint(1, 3)):
        m = dict(rng.choice(msgs)) if msgs else dict(uuid="u0", level=[1], body=0)
        m["body"] = next(ctr)
        r = rng.random()
        if r < 0.25 and "atype" in m:
            m["atype"] = "zz"
        elif r < 0.5 and "status" in m:
            m["status"] = rng.choice(["bogus", "started", "succeeded"])
        elif r < 0.75:
            m["level"] = m["level"] + [rng.randint(1, 3)]
        else:
            m["level"] = m["level"][:-1] + [rng.randint(1, 4)]
        msgs.insert(rng.randrange(len(msgs) + 1), m)
    return msgs


# ---- real side ------------------------------------------------------------------------------

ERRMAP = {"InvalidStartMessage": "invalidStart", "WrongActionType": "wrongActionType", "InvalidStatus": "invalidStatus"}
MODEL_ERR = {"PM.Err.invalidStart": "invalidStart", "PM.Err.wrongActionType": "wrongActionType",
             "PM.Err.invalidStatus": "invalidStatus", "PM.Err.underMessage": "underMessage"}


def to_dict(m):
    # timestamps are whatever the writers' wall clocks said: not monotonic, equal, negative (the parser never orders by them)
    d = {"task_uuid": m["uuid"], "task_level": list(m["level"]), "timestamp": float((m["body"] * 7919) % 13 - 4) / 2, "body": m["body"]}
    if "atype" in m:
        d["action_type"] = m["atype"]
        if m["body"] % 7 == 3:
            # an ordinary field of an action message that happens to be called `message_type` (`start_action(action_type=..,
            # message_type=..)`, a `log_call` parameter of that name): the parser tells action messages by `action_type` alone
            d["message_type"] = "app:note"
    if "status" in m:
        d["action_status"] = m["status"]
    return d


def dump_node(n):
    from eliot._message import WrittenMessage

    if isinstance(n, WrittenMessage):
        return {"m": n.contents["body"]}
    kids = sorted(n._children.items(), key=lambda kv: kv[0].as_list())
    return {"s": None if n.start_message is None else n.start_message.contents["body"],
            "e": None if n.end_message is None else n.end_message.contents["body"],
            "k": [[k.as_list()[-1], dump_node(v)] for k, v in kids]}


def lookup(root, lvl):
    n = root
    for x in lvl:
        n = {k.as_list()[-1]: v for k, v in n._children.items()}[x]
    return n


def dump_task(t, sync):
    if not hasattr(t, "_nodes"):
        return {"not-a-task": repr(t)[:80]}
    root = t._nodes.get(t._root_level)
    stale = False
    if sync and root is not None and hasattr(root, "_children"):
        for k, v in t._nodes.items():
            try:
                if lookup(root, k.as_list()) != v:
                    stale = True
            except (KeyError, AttributeError):
                stale = True
    d = {"root": None if root is None else dump_node(root), "completed": sorted(l.as_list() for l in t._completed)}
    if stale:
        d["stale_nodes"] = True
    return d


def flat_dump(t):
    """every `_nodes` entry and `_completed` of a real Task, as Driver/C09's `ftaskJ` prints the flat model's"""
    if not hasattr(t, "_nodes"):
        return {"not-a-task": repr(t)[:80]}
    return {"nodes": [[k, dump_node(v)] for k, v in sorted(((k.as_list(), v) for k, v in t._nodes.items()), key=lambda kv: kv[0])],
            "completed": sorted(l.as_list() for l in t._completed)}


def run_real(msgs, sync=True):
    from eliot.parse import Parser

    p = Parser()
    steps = []
    failed = False
    states = run_real.states = [p]
    fsteps = run_real.fsteps = []
    for m in msgs:
        try:
            done, p2 = p.add(to_dict(m))
        except Exception as e:  # noqa
            steps.append({"err": ERRMAP.get(type(e).__name__, "other:" + type(e).__name__)})
            fsteps.append(steps[-1])
            failed = True
            break
        p = p2
        steps.append({"y": [dump_task(t, sync) for t in done], "i": {u: dump_task(t, sync) for u, t in p._tasks.items()}})
        fsteps.append({"y": [flat_dump(t) for t in done], "i": {u: flat_dump(t) for u, t in p._tasks.items()}})
        states.append(p)
        if isinstance(done, list):
            # what `add` hands back is the caller's to keep and to change (an accumulator, say): that must not come back later
            done.append("the caller's own entry")
    return steps, (None if failed else p)


def continue_from(state, msgs):
    """Feed `msgs` to a parser state kept from earlier (the parser is a persistent value: keeping a state and continuing
    it in a second way is legitimate) -> (yield counts per step, final in-flight uuids, final completeness per task)"""
    p = state
    ys = []
    for m in msgs:
        done, p = p.add(to_dict(m))
        ys.append(sorted(chash(dump_task(t, False)) for t in done if not isinstance(t, str)))
    return ys, {u: chash(dump_task(t, False)) for u, t in p._tasks.items()}


def norm_model(steps):
    out = []
    for s in steps:
        if "err" in s:
            out.append({"err": MODEL_ERR.get(s["err"], "other")})
        else:
            out.append(s)
    return out


# ---- oracles --------------------------------------------------------------------------------

def oracle_wf(ctx, case, steps, parser):
    """Model-free checks on a well-formed history."""
    from eliot.parse import Parser

    msgs = case["msgs"]
    total = case["spec"]  # uuid -> number of messages of the whole task
    key = lambda what: None
    if any("err" in s for s in steps):
        i = [k for k, s in enumerate(steps) if "err" in s][0]
        ctx.violation("parser raised %s on a duplicate-free subset of well-formed tasks" % steps[i]["err"],
                      dict(case, msgs=msgs[: i + 1]), key=None)
        return None
    seen = {}
    for i, (m, s) in enumerate(zip(msgs, steps)):
        u = m["uuid"]
        seen[u] = seen.get(u, 0) + 1
        should = seen[u] == total[u]
        did = len(s["y"]) == 1
        if len(s["y"]) > 1 or should != did:
            ctx.violation("task %s handed back at step %d: %s, but %d of %d of its messages had arrived" % (u, i, did, seen[u], total[u]),
                          dict(case, msgs=msgs[: i + 1]), key=None)
            return None
        if did and u in s["i"]:
            ctx.violation("completed task %s still in the parser after being handed back" % u, dict(case, msgs=msgs[: i + 1]))
            return None
        for u2, n in seen.items():
            if 0 < n < total[u2] and u2 not in s["i"]:
                ctx.violation("incomplete task %s missing from the parser" % u2, dict(case, msgs=msgs[: i + 1]))
                return None
    # a kept parser state continued in a second way behaves like a fresh parser fed the same messages
    states = getattr(run_real, "states", None)
    if states and len(states) == len(msgs) + 1 and len(msgs) >= 2:
        k = (sum(m["body"] for m in msgs) * 31) % len(msgs)
        alt = [m for j, m in enumerate(msgs[k:]) if (m["body"] + j) % 3 != 0][::-1]
        try:
            a = continue_from(states[k], alt)
            b = continue_from(Parser(), msgs[:k] + alt)
            if a[0] != b[0][k:] or a[1] != b[1]:
                ctx.violation("a parser state kept after %d messages and continued with %d other messages does not behave like a fresh "
                              "parser fed the same %d messages (what it hands back / still holds differs)" % (k, len(alt), k + len(alt)), case)
                return None
        except Exception as e:  # noqa
            ctx.violation("continuing a kept parser state raised %s" % type(e).__name__, case)
            return None
    # parse_stream: completed once each as they complete, then the incomplete ones, nothing else
    try:
        stream = list(Parser.parse_stream([to_dict(m) for m in msgs]))
    except Exception as e:  # noqa
        ctx.violation("parse_stream raised %s on a well-formed history" % type(e).__name__, case)
        return None
    # ... and each completed task is reported when its last message has been pulled from the input, not later:
    # observable with a lazily produced input (a log that is still being written) or one that fails part-way
    class Truncated(Exception):
        pass
    cut = case.get("cut", len(msgs))
    pulled = [0]

    from pyrsistent import pmap

    def lazy():
        for m in msgs[:cut]:
            pulled[0] += 1
            # messages are mappings: plain dicts, or the persistent maps `WrittenMessage.as_dict()` hands out
            yield pmap(to_dict(m)) if m["body"] % 3 == 1 else to_dict(m)
        if cut < len(msgs):
            raise Truncated()
    events = []
    try:
        for t in Parser.parse_stream(lazy()):
            events.append([pulled[0], t.is_complete()])
    except Truncated:
        pass
    except Exception as e:  # noqa
        ctx.violation("parse_stream raised %s on a lazily produced well-formed history" % type(e).__name__, case)
        return None
    exp_events = [[i + 1, True] for i, s in enumerate(steps[:cut]) if s["y"]]
    if cut == len(msgs):
        exp_events += [[len(msgs), False]] * sum(1 for u, n in seen.items() if n < total[u])
    if events != exp_events:
        ctx.violation("parse_stream over a lazily produced input (truncated by an error after %d of %d messages) reported tasks at "
                      "(messages pulled, complete) = %s, expected %s" % (cut, len(msgs), events, exp_events), case)
        return None
    exp_done = [t for s in steps for t in s["y"]]
    got = [dump_task(t, False) for t in stream]
    n_inc = sum(1 for u, n in seen.items() if n < total[u])
    ok = got[: len(exp_done)] == [dict(t) for t in [ {k: v for k, v in t.items() if k != "stale_nodes"} for t in exp_done]]
    rest = got[len(exp_done):]
    if not ok or len(rest) != n_inc or any([] in t["completed"] for t in rest) or \
            sum(1 for t in stream if t.is_complete()) != len(exp_done):
        ctx.violation("parse_stream did not yield every completed task once (in order) followed by every incomplete task once", case)
        return None
    return parser


def late_messages(rng, base):
    """for one task of `base` whose root is an action: a plain message and a started, unfinished action below the root, at the
    positions after the root's end message"""
    roots = [m for m in base if len(m["level"]) == 1 and m.get("status") in ("succeeded", "failed")]
    if not roots:
        return []
    end = rng.choice(roots)
    n = end["level"][0]
    top = max(m["body"] for m in base) + 1000
    return [dict(uuid=end["uuid"], level=[n + 1], body=top),
            dict(uuid=end["uuid"], level=[n + 2, 1], atype="late", status="started", body=top + 1),
            dict(uuid=end["uuid"], level=[n + 2, 2], body=top + 2)]


def count_messages(node):
    from eliot._message import WrittenMessage
    if isinstance(node, WrittenMessage):
        return 1
    return (node.start_message is not None) + (node.end_message is not None) + sum(count_messages(c) for c in node._children.values())


def nothing_lost(ctx, case):
    """model-free: every message fed to parse_stream is in exactly one of the tasks it yields"""
    from eliot.parse import Parser
    try:
        tasks = list(Parser.parse_stream([to_dict(m) for m in case["msgs"]]))
    except Exception as e:  # noqa
        ctx.violation("parse_stream raised %s on a history whose tasks go on after their root action ended" % type(e).__name__, case)
        return
    foreign = [repr(t)[:60] for t in tasks if not hasattr(t, "_nodes")]
    if foreign:
        ctx.violation("parse_stream yielded something that is not a Task: %s" % foreign[:3], case)
        return
    got = sum(count_messages(t.root()) for t in tasks if t._nodes.get(t._root_level) is not None)
    if got != len(case["msgs"]):
        ctx.violation("parse_stream was fed %d messages (%d of them logged in a task after its root action had ended) but the tasks it "
                      "yielded hold %d" % (len(case["msgs"]), case.get("nlate", 0), got), case)


def many_in_flight(ctx):
    """more tasks pending at the same time than any bound an implementation might have picked (1100): every task is handed
    back exactly once, complete, at the step that delivers its last message, whatever the interleaving; oracle only"""
    from eliot.parse import Parser
    n = 1100
    starts = [dict(uuid="t%d" % i, level=[1], atype="a", status="started", body=2 * i) for i in range(n)]
    ends = [dict(uuid="t%d" % i, level=[2], atype="a", status="succeeded", body=2 * i + 1) for i in range(n)]
    case = dict(kind="many-in-flight", tasks=n, order="all starts, then all ends")
    ctx.case(case, nontrivial=True, tags=["kind:many-in-flight"])
    p = Parser()
    handed = []
    for k, m in enumerate(starts + ends):
        done, p = p.add(to_dict(m))
        for t in done:
            handed.append((k, t.root().task_uuid, t.is_complete()) if hasattr(t, "_nodes") else (k, repr(t)[:40], None))
    want = [(n + i, "t%d" % i, True) for i in range(n)]
    if handed != want or len(p._tasks) != 0:
        first = next((i for i, (a, b) in enumerate(zip(handed, want)) if a != b), min(len(handed), len(want)))
        ctx.violation("%d tasks pending at once: tasks were handed back at (step, uuid, complete) = %s ..., expected %s ...; %d left in the parser"
                      % (n, handed[first:first + 3], want[first:first + 3], len(p._tasks)), case)


def run(ctx):
    many_in_flight(ctx)
    rng = ctx.rng("gen")
    ngroups = ctx.budget(90, 2500)
    norders = ctx.budget(6, 14)
    maxdepth = ctx.budget(3, 5)
    cases = []
    for g in range(ngroups):
        wide = g % ctx.budget(15, 40) == 7
        base, ntasks, depth = gen_forest(rng, maxdepth, ctx.budget(3, 5), wide=wide)
        total = {}
        for m in base:
            total[m["uuid"]] = total.get(m["uuid"], 0) + 1
        # sub-multiset: sometimes drop messages (every single one for small sets, random subsets otherwise)
        variants = [("full", base)]
        r = rng.random()
        if r < 0.35:
            variants.append(("subset", [m for m in base if rng.random() < 0.75]))
        elif r < 0.5:
            variants.append(("no-starts", [m for m in base if m.get("status") != "started"]))
        elif r < 0.65:
            variants.append(("no-ends", [m for m in base if m.get("status") not in ("succeeded", "failed")]))
        elif r < 0.8 and base:
            k = rng.randrange(len(base))
            variants.append(("drop-one", base[:k] + base[k + 1:]))
        for vname, ms in variants:
            orders = [("emission", list(ms)), ("reversed", list(reversed(ms)))]
            if len(ms) <= 5 and not ctx.quick:
                orders += [("perm", list(p)) for p in itertools.permutations(ms)]
            else:
                for _ in range(2 if wide else norders):
                    p = list(ms)
                    rng.shuffle(p)
                    orders.append(("shuffle", p))
            for oname, p in orders:
                cases.append(dict(kind="wf", group="%d/%s" % (g, vname), order=oname, spec=total, msgs=p,
                                  ntasks=ntasks, depth=depth, wide=wide, cut=len(p) if rng.random() < 0.5 else rng.randint(0, len(p))))
        if g % 3 == 2:
            p = list(base)
            rng.shuffle(p)
            cases.append(dict(kind="malformed", group="%d/mal" % g, order="shuffle", spec=total, msgs=malform(rng, p),
                              ntasks=ntasks, depth=depth))
        if g % 4 == 1 and base:
            # messages logged in a task after its root action has ended (a background task that inherited the context, a
            # generator finalised later): they come after the task was handed back complete, and must not vanish
            late = late_messages(rng, base)
            cases.append(dict(kind="late", group="%d/late" % g, order="emission", spec=total, msgs=list(base) + late, nlate=len(late),
                              ntasks=ntasks, depth=depth))
    model = lean_driver("Driver/C09.lean", [{"msgs": c["msgs"]} for c in cases])
    finals = {}
    ood = 0
    flat_traces = 0
    for c, mo in zip(cases, model):
        wf = c["kind"] == "wf"
        steps, parser = run_real(c["msgs"], sync=wf)
        msteps = norm_model(mo.get("steps", []))
        if "bad" in mo:
            ctx.broken_tie("correspondence:parser-model", "model rejected the case: %s" % mo["bad"], c)
            continue
        nontriv = wf and (c["ntasks"] >= 2 or c["depth"] >= 2) and c["order"] != "emission"
        ctx.case(dict(msgs=c["msgs"]), nontrivial=nontriv, tags=["kind:" + c["kind"], "order:" + c["order"], "variant:" + c["group"].split("/")[1],
                                                                 "ntasks:%d" % c["ntasks"], "depth:%d" % c["depth"]] + (["wide"] if c.get("wide") else []))
        ctx.count("adds", n=len(steps))
        # out-of-domain: from the first underMessage on, the model does not claim to follow the code
        cut = None
        for i, s in enumerate(msteps):
            if s.get("err") == "underMessage":
                cut = i
                break
        rs, ms_ = steps, msteps
        if cut is not None:
            ood += 1
            rs, ms_ = steps[:cut], msteps[:cut]
            if wf:
                ctx.broken_tie("correspondence:parser-model", "model reports underMessage on a well-formed history", c)
        for s in rs:
            if "err" in s:
                ctx.count("err:" + s["err"])
        if rs != ms_:
            i = next((k for k, (a, b) in enumerate(zip(rs, ms_)) if a != b), min(len(rs), len(ms_)))
            ctx.broken_tie("correspondence:parser-model", "real parser and trie model differ at step %d" % i,
                           dict(msgs=c["msgs"][: i + 1], real=rs[i] if i < len(rs) else None, model=ms_[i] if i < len(ms_) else None))
        else:
            ctx.traces += 1
        # the code-shaped flat model (Model/ParseFlat.lean) follows the real `_nodes` / `_completed` entry by entry on EVERY
        # stream, malformed ones included (it is the same algorithm); an error must come at the same step (the three parser
        # exceptions by name, anything else - AttributeError on a WrittenMessage, KeyError - as "some error")
        fr, fm = run_real.fsteps, norm_model(mo.get("fsteps", []))
        fdiff = None
        for k in range(max(len(fr), len(fm))):
            a = fr[k] if k < len(fr) else None
            b = fm[k] if k < len(fm) else None
            if a is None or b is None:
                fdiff = k
                break
            if "err" in a or "err" in b:
                if not ("err" in a and "err" in b) or (a["err"] in ERRMAP.values() and a["err"] != b["err"]):
                    fdiff = k
                break
            if a != b:
                fdiff = k
                break
        if fdiff is not None:
            ctx.broken_tie("correspondence:parser-flat-model", "real Task._nodes/_completed and the flat-map model differ at step %d" % fdiff,
                           dict(msgs=c["msgs"][: fdiff + 1], real=fr[fdiff] if fdiff < len(fr) else None, model=fm[fdiff] if fdiff < len(fm) else None))
        else:
            flat_traces += 1
            ctx.count("flat_adds", n=len(fr))
        if c["kind"] == "late":
            nothing_lost(ctx, c)
        if wf:
            p = oracle_wf(ctx, c, steps, parser)
            if p is not None:
                # order independence: Task equality across orders of the same message set
                cur = dict(p._tasks.items())
                done = sorted((chash(t) for s in steps for t in s["y"]))
                prev = finals.get(c["group"])
                if prev is None:
                    finals[c["group"]] = (cur, done, c)
                else:
                    if prev[0] != cur or prev[1] != done:
                        ctx.violation("final parser result depends on arrival order", dict(first=prev[2]["msgs"], second=c["msgs"], spec=c["spec"]))
    ctx.count("out_of_domain", n=ood)
    if "correspondence:parser-flat-model" not in ctx.broken:
        ctx.obligation("correspondence:parser-flat-model", "correspondence", True,
                       "%d histories (well-formed and malformed) compared entry by entry with Task._nodes/_completed" % flat_traces)
    ctx.obligation("correspondence:parser-model", "correspondence",
                   "correspondence:parser-model" not in ctx.broken, "%d histories compared step by step" % ctx.traces) \
        if "correspondence:parser-model" not in ctx.broken else None


def replay(ctx, obj):
    case = obj.get("case") or {}
    if "first" in case:
        for ms in (case["first"], case["second"]):
            steps, p = run_real(ms)
            print(steps[-1] if steps else None)
        a = run_real(case["first"])[1]
        b = run_real(case["second"])[1]
        if a is None or b is None or dict(a._tasks.items()) != dict(b._tasks.items()):
            ctx.violation("final parser result depends on arrival order", case)
        return
    if case.get("kind") == "many-in-flight":
        many_in_flight(ctx)
        return
    if case.get("kind") == "late":
        nothing_lost(ctx, case)
        return
    c = dict(case)
    steps, parser = run_real(c["msgs"])
    for s in steps:
        print(s)
    if "spec" in c:
        # the replayed prefix ends at the failing step; re-run the oracle on it
        oracle_wf(ctx, c, steps, parser)
