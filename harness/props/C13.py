"""C13 - typed fields are serialized exactly once; serializer failures are contained."""
from .. import syscorr, sysinterp
from ..framework import canon

PROP = "C13"
LEAN_TARGETS = ["Eliot.Properties.C13"]
AUDIT = "Eliot/Audit/C13.lean"
SKELETON_TARGETS = {"Sys.C13.skeleton_E9": "Eliot.Properties.C13Skel",
                    "Eliot.ShapesSkel.serialize_shape (E16: _MessageSerializer.serialize is one pass over the declared fields)":
                    ("Eliot.Properties.ShapesSkel", "Eliot/Audit/ShapesSkel.lean", ["Eliot.ShapesSkel.serialize_shape"])}
THEOREMS = ["Sys.C13.serializeFields_eq", "Sys.C13.serializers_called_once", "Sys.C13.serialized_exactly_once",
            "Sys.C13.success_stages_serialized", "Sys.C13.serializer_failure_contained", "Sys.C13.per_kind_serializer",
            "Sys.C13.per_kind_serializer_success", "Sys.C13.per_kind_serializer_failure", "Sys.C13.logNoSer_healthy_exact",
            "Sys.buildLog_in_current", "Sys.buildLog_contextless"]
RULE = ("programs of the core language with generated ActionType / MessageType definitions (0-4 declared fields, serializers that "
        "tag their output with the global call index so that a second application would be visible, raisers by mask, declared-but-"
        "missing fields) for start, success, failure and stand-alone messages, destinations registered at the start, global fields "
        "present; non-trivial = at least one typed message delivered and at least one serializer failure reached, or >= 3 typed messages")
TRUSTED = ["the serializer's own output is treated as an opaque value", "JSON encoding of serialized values is C10's concern"]
ASSUMPTIONS = ["user field names do not collide with the structural keys", "declared field names are distinct (enforced by _MessageSerializer.__init__)"]
EXPLANATION = "serialization specified as a pure function applySers; Logger.write proved to stage exactly its result or exactly the two failure notices"
PROFILE = dict(p_typed=0.8, p_ser_fail=0.25, p_missing_field=0.12, p_late_add=0.0, p_remove=0.0, p_globals=0.4,
               p_dest_fail=0.05, p_handles=0.3, p_extractor=0.3, p_ext_fail=0.2)


def key_of(m):
    return canon([m.get("task_uuid"), m.get("task_level")])


def oracle(ctx, case, real, rt):
    for tag, what in rt.checks:
        if tag == "caller-dict":
            ctx.violation(what, case)
            return
    bad = [a for a in rt.api if a[1] != "ok"]
    if bad:
        ctx.violation("eliot API call %s %s" % bad[0], case)
        return
    for idx, cur in rt.typed_calls:
        # a typed message that failed to serialize: its notices belong to the context the logging call was made in
        # (`x.log(...)` / `Message.write(action=x)` from elsewhere: the caller's context, not x's)
        if idx < len(rt.writes) and rt.writes[idx][1] and key_of(rt.writes[idx][0]) not in {key_of(m) for d, m in real["offered"]}:
            j = idx + 1
            while j < len(rt.writes) and rt.writes[j][0].get("message_type") in ("eliot:traceback", "eliot:destination_failure", "eliot:serialization_failure"):
                w = rt.writes[j][0]
                j += 1
                if w.get("message_type") == "eliot:destination_failure":
                    continue
                wl = w.get("task_level")
                wu = w.get("task_uuid", {}).get("uuid") if isinstance(w.get("task_uuid"), dict) else None
                good = (wl == [1]) if cur is None else (isinstance(wl, list) and wu == cur[0] and wl[:-1] == cur[1])
                if not good:
                    ctx.violation("the %s notice for a typed message that failed to serialize was logged at %s/%s, not in the context "
                                  "the logging call was made in (%s)" % (w.get("message_type"), wu, wl, cur), case)
                    return
                if w.get("message_type") == "eliot:serialization_failure":
                    break
    for idx, cur in rt.typed_calls:
        if idx < len(rt.writes) and not rt.writes[idx][1]:
            ctx.violation("a message logged through a MessageType (spelling %s) reached Logger.write without the type's serializer: "
                          "its declared fields are delivered as logged" % ([a[0] for a in rt.api if "MessageType" in a[0] or "typed" in a[0]][-1:] or ["?"])[0], case)
            return
    prog = case["prog"]
    if not (prog and prog[0]["op"] == "addDests" and prog[0]["ds"]):
        return
    d0 = prog[0]["ds"][0]
    delivered = {}
    for d, m in real["offered"]:
        if d == d0:
            delivered.setdefault(key_of(m), []).append(m)
    writes = rt.writes
    seen_k = set()
    typed_delivered = failures = 0
    gl = set()
    def collect(b):
        for s in b:
            if s["op"] == "addGlobals":
                gl.update(k for k, _ in s["fs"])
            for kk in ("body", "handler"):
                if kk in s:
                    collect(s[kk])
    collect(prog)
    # every program serializer runs exactly once per declared field of a delivered message (and at most once per field of
    # one that failed)
    lo = hi = 0
    delivered_keys = set(delivered)
    for m, has_ser, declared, tagging in writes:
        if not has_ser or not tagging:
            continue
        n = sum(1 for k in tagging if k in m)
        if key_of(m) in delivered_keys:
            lo += n
            hi += n
        else:
            hi += n
    if not (lo <= rt.ser_calls <= hi):
        ctx.violation("the program's field serializers were called %d times; the typed messages written account for between %d and %d calls "
                      "(once per declared field of a delivered message)" % (rt.ser_calls, lo, hi), case)
        return
    i = 0
    while i < len(writes):
        m, has_ser, declared, tagging = writes[i]
        i += 1
        if not has_ser or m.get("message_type") == "eliot:traceback":
            continue
        got = delivered.get(key_of(m), [])
        if len(got) > 1:
            ctx.violation("a typed message was delivered %d times to one destination" % len(got), case)
            return
        if got and declared is not None and any(k not in m for k in declared):
            ctx.violation("a typed message lacking a declared field (%s) was delivered instead of being reported as a serialization failure"
                          % [k for k in declared if k not in m], case)
            return
        if got:
            typed_delivered += 1
            g = got[0]
            for k in tagging or []:
                gv = g.get(k)
                if k in m and k not in gl and not (isinstance(gv, dict) and "ser" in gv):  # (a global field of that name wins: C12)
                    ctx.violation("declared field %r of a typed message was delivered as logged (%s), not as its serializer's output" % (k, canon(gv)), case)
                    return
            extra_keys = [k for k in g if k not in m and k not in gl]
            if extra_keys:
                ctx.violation("a typed message was delivered with keys %s it was not logged with" % extra_keys, case)
                return
            for k, v in m.items():
                if k in gl:
                    continue
                gv = g.get(k)
                if isinstance(gv, dict) and "ser" in gv:
                    sid, kk, inner = gv["ser"]
                    if canon(inner) != canon(v) or (isinstance(inner, dict) and "ser" in inner):
                        ctx.violation("declared field %r was not the serializer's output applied once to the logged value: logged %s delivered %s" % (k, canon(v), canon(gv)), case)
                        return
                    if kk in seen_k:
                        ctx.violation("one serializer call's output appears in two places", case)
                        return
                    seen_k.add(kk)
                elif canon(gv) != canon(v):
                    ctx.violation("undeclared field %r changed between the logging call and delivery: %s -> %s" % (k, canon(v), canon(gv)), case)
                    return
        else:
            # not delivered: the next writes must be >= 1 eliot:traceback then exactly one eliot:serialization_failure
            # (further tracebacks can be about exception extractors that failed while the first one was written; that the
            # message's own serializers account for one failure only is checked after the loop)
            failures += 1
            j = i
            ntb = 0
            # reports about failing destinations may be interleaved; they are C08's business
            while j < len(writes) and writes[j][0].get("message_type") in ("eliot:traceback", "eliot:destination_failure"):
                ntb += writes[j][0].get("message_type") == "eliot:traceback"
                j += 1
            ok = ntb >= 1 and j < len(writes) and writes[j][0].get("message_type") == "eliot:serialization_failure"
            if not ok:
                ctx.violation("a typed message was not delivered but was not followed by eliot:traceback + eliot:serialization_failure", case)
                return
            # "logged in the current context": the end message of a `with action:` block is written after the block's
            # context was left, so its failure notices belong to the enclosing context, never inside the finished action
            lvl = m.get("task_level")
            if m.get("action_status") in ("succeeded", "failed") and isinstance(lvl, list) and isinstance(m.get("task_uuid"), dict):
                own = [m["task_uuid"].get("uuid"), lvl[:-1]]
                # i - 1 is the index of the failed write; it must have been made by that action's own __exit__
                for tag, n0, n1, before in rt.with_exits:
                    if not (isinstance(tag, (list, tuple)) and list(tag) == own and n0 <= i - 1 < n1):
                        continue
                    for jj in range(i, j + 1):
                        w = writes[jj][0]
                        if w.get("message_type") not in ("eliot:traceback", "eliot:serialization_failure"):
                            continue
                        wl, wu = w.get("task_level"), (w.get("task_uuid") or {}).get("uuid") if isinstance(w.get("task_uuid"), dict) else None
                        if before is None:
                            good = wl == [1]
                        else:
                            good = isinstance(wl, list) and wu == before[0] and wl[:-1] == before[1]
                        if not good:
                            ctx.violation("the failure notices for the END message of a `with action:` block were logged at %s/%s, not in the context "
                                          "that is current once the block is left (%s)" % (wu, wl, before), case)
                            return
            i = j + 1
    if rt.ser_failed > failures:
        # serialization of a message stops at its first failing field: one failed write, one failing call, one traceback about it
        ctx.violation("%d serializer calls raised but only %d typed messages were withheld: a message went on serializing after a field had "
                      "failed (one eliot:traceback per failing field instead of exactly one per message)" % (rt.ser_failed, failures), case)
        return
    ctx.count("typed_delivered", n=typed_delivered)
    ctx.count("serializer_failures", n=failures)
    real["_typed"] = (typed_delivered, failures)


def direct_writes(ctx, i):
    """Model-free: dictionaries handed directly to Logger.write / MemoryLogger.write must never be modified,
    neither during the call nor later (buffering, global fields and re-delivery must all work on copies)."""
    import copy
    import eliot
    from eliot import _output

    rng = ctx.rng("direct:%d" % i)
    dst = _output.Logger._destinations
    saved = (dst._destinations, dst._any_added, dst._globalFields)
    dst.__init__()
    held = []
    problems = []
    got = []
    try:
        logger = eliot.Logger()
        mem = eliot.MemoryLogger()
        mt = eliot.MessageType("d:typed", [eliot.Field("k", lambda v: {"ser": v}, "")])
        n = rng.randint(3, 10)
        add_at = rng.randrange(n + 1)
        for step in range(n + 1):
            if step == add_at:
                eliot.add_destinations(got.append)
            r = rng.random()
            if r < 0.25:
                eliot.add_global_fields(**{rng.choice(["g1", "g2", "k"]): step})
            d = {"message_type": "d:typed", "k": [step, {"nested": step}], "task_uuid": "u", "task_level": [step + 1], "timestamp": 1.0}
            snap = copy.deepcopy(d)
            held.append((d, snap))
            which = rng.random()
            try:
                if which < 0.3:
                    logger.write(d)
                elif which < 0.5:
                    logger.write(d, mt._serializer)
                elif which < 0.6:
                    mem.write(d)
                elif which < 0.7:
                    mem.write(d, mt._serializer)
                else:
                    # the caller's dictionary handed to the (older) Message class itself
                    import warnings
                    with warnings.catch_warnings():
                        warnings.simplefilter("ignore")
                        m = eliot.Message(d, mt._serializer) if which < 0.85 else eliot.Message(d)
                        if rng.random() < 0.3:
                            m = m.bind(extra=step)
                        m.write(rng.choice([None, logger, mem]))
            except BaseException as e:  # noqa
                problems.append("write raised %s" % type(e).__name__)
            if rng.random() < 0.35:
                # the test logger validates (and thereby serializes) what it holds: that must not reach the callers' dictionaries
                try:
                    mem.validate()
                except BaseException:  # noqa: a ValidationError is the business of C14
                    pass
            for dd, ss in held:
                if dd != ss:
                    problems.append("a dictionary passed to a logger's write was modified (step %d)" % step)
                    break
            if problems:
                break
    finally:
        dst._destinations, dst._any_added, dst._globalFields = saved
    return problems, len(got)


def run(ctx):
    for i in range(ctx.budget(150, 4000)):
        problems, delivered = direct_writes(ctx, i)
        ctx.case({"direct": i, "seed": ctx.seed}, nontrivial=delivered > 0, tags=["direct-write"], sample=(i < 1))
        if problems:
            ctx.violation(problems[0], {"direct": i, "seed": ctx.seed})
            break
    syscorr.run_programs(ctx, ctx.budget(450, 15000), PROFILE, oracle,
                         nontrivial=lambda c, r, s: r.get("_typed", (0, 0))[0] >= 1 and (r["_typed"][1] >= 1 or r["_typed"][0] >= 3),
                         compare=["outcome", "offered", "accepted"])


def replay(ctx, obj):
    case = obj["case"]
    if "direct" in case:
        ctx.seed = case["seed"]
        problems, _ = direct_writes(ctx, case["direct"])
        print(problems)
        if problems:
            ctx.violation(problems[0], case)
        return
    real, rt = sysinterp.run_case(case)
    print(real["outcome"], rt.checks[:3])
    oracle(ctx, case, real, rt)
