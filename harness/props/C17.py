"""C17 - test helpers reconstruct the same action tree as the parser.

Tie: generated logging programs (harness/sysgen.py, structured profile) run on the real eliot with
ONE `MemoryLogger` swapped in as the default logger; on `mem.messages` the real
`LoggedAction.of_type` (every action type present, recursive dump + `descendants()` + `type_tree()`),
`LoggedMessage.of_type` and `assertHasAction` / `assertHasMessage` (generated expectations) are
compared with the Lean model (Driver/C17.lean).

Oracles (model-free): the real `eliot.parse.Parser` tree of the same messages, restricted to the type
by an independent traversal, equals the helper tree (own start/end, success flag, children
recursively in emission order; entries in emission order); `descendants()` / `type_tree()` are the
pre-order of that tree; `LoggedMessage.of_type` = the messages of the type; the assert helpers pass
exactly when the first entry of the type has the expected outcome and a superset of the fields
(computed from the raw dictionaries).
"""
import itertools
import unittest

from .. import sysgen, sysinterp
from ..framework import lean_driver, canon

PROP = "C17"
LEAN_TARGETS = ["Eliot.Properties.C17", "Eliot.Properties.C17Flat"]
AUDIT = "Eliot/Audit/C17.lean"
SKELETON_TARGETS = {"Eliot.ShapesSkel.C17_shapes (E16: LoggedAction.fromMessages / of_type / descendants, LoggedMessage.of_type, assertContainsFields, assertHasMessage, assertHasAction as statement lists)": ("Eliot.Properties.ShapesSkel", "Eliot/Audit/ShapesSkel.lean", ["Eliot.ShapesSkel.loggedActionFromMessages_shape", "Eliot.ShapesSkel.loggedActionOfType_shape", "Eliot.ShapesSkel.loggedActionDescendants_shape", "Eliot.ShapesSkel.loggedMessageOfType_shape", "Eliot.ShapesSkel.assertContainsFieldsBody_shape", "Eliot.ShapesSkel.assertHasMessageBody_shape", "Eliot.ShapesSkel.assertHasActionBody_shape"])}
THEOREMS = [
    "PM.C17.parser_builds_same_flat",  # the same against the parser as the code runs it (flat `_nodes` tasks)
    "PM.Testing.fromMessages_node", "PM.Testing.containsFields_eq_issuperset",
    "PM.C17.of_type_eq_parser_subtrees", "PM.C17.interleaving_concat", "PM.C17.of_type_concat",
    "PM.C17.parser_builds_same", "PM.C17.parser_task_same", "PM.C17.preorderActions_eq",
    "PM.C17.descendants_preorder", "PM.C17.type_tree_preorder", "PM.C17.logged_message_of_type",
    "PM.C17.assert_has_action_iff", "PM.C17.assert_has_message_iff",
    "PM.Testing.fromMessages_node_any", "PM.Testing.toLoggedIn_eq_toLogged", "PM.Testing.children_perm", "PM.Testing.sim_tree",
    "PM.C17.of_type_any_order",
]
RULE = ("first a fixed corpus of 3 hand-written programs (same-type nesting in one task, the same types at the same levels in later tasks, "
        "sequential and interleaved); then programs of the core language, structured profile (with-blocks, start_task inside actions, try/except, tracebacks, "
        "serialize_task_id + continue_task in the same logger, immediately or delayed, typed and untyped actions/messages), 3 action "
        "types + eliot:remote_task and 2 message types so that repeated types, equal-typed siblings and equal-typed descendants are "
        "the norm; 1 program in 6 is widened (10-14, sometimes 20-26, extra children in one action, some with grand-children: two-digit level components); all logged through one "
        "MemoryLogger; per program: of_type for every action type present and one absent, LoggedMessage.of_type for every message "
        "type and always for the empty type (1 message in 10 is logged untyped), 6-14 assertHasAction / assertHasMessage expectations (matching subsets, perturbed value, missing key, wrong outcome, "
        "absent key expected as None / 0 / empty string / False, present key expected as None, the fields of a later entry of the same type); about 1 logged "
        "field value in 8 is None; in 30% of the programs a later top-level task repeats the shape of an earlier one under a root of "
        "another type; 1 untyped action in 5 adds a success field (1 in 10 a start field) named exception / reason / status "
        "/ succeeded; in 15% of the programs one or two actions are started explicitly and never finished (the log a "
        "test sees while an action is running); type arguments alternate between names and ActionType / MessageType objects, empty "
        "expectations between {}, None and the default; non-trivial = log with depth >= 2 and (>= 2 tasks or a type with >= 2 "
        "entries); distinct by canonical hash of the program")
TRUSTED = ["harness/sysgen.py + harness/sysinterp.py (program generator and interpreter against the real API)",
           "field values are compared by the model through an injective rendering; the expectations generated here only use values "
           "copied from the log or fresh strings, for which Python == and equality of renderings coincide",
           "eliot.parse.Parser as the reference tree in the oracle (its own correctness: C09)"]
ASSUMPTIONS = ["theorems: every action of the log is finished (the log is the set of messages of a forest of finished action trees and "
               "one-message tasks, distinct uuids). Pre-order / level-order statements: per task the messages appear in level order "
               "(Interleaving). When a remote continuation is logged after later siblings of its reserved position (about 1 program in "
               "10 here) only of_type_any_order applies: children ordered by emission, the parser's tree up to child order; the oracle "
               "orders the parser's children by emission for exactly this reason",
               "unfinished actions: for a type one of whose actions (or a descendant of one) has no end message, of_type raises "
               "ValueError for the whole call instead of returning the finished ones - recorded as a known finding (KNOWN_FINDINGS.jsonl, "
               "printed as KNOWN-FINDING); on such a log every other type, LoggedMessage.of_type and the assert helpers on other types "
               "are judged as usual, and the model (which has the same error branch) is compared on everything",
               "(task_uuid, task_level) identifies a message of one logger (C02)"]
EXPLANATION = ("theorems over a list-scan model of eliot/testing.py related to the spec trees of the parser proofs (C09); model tied to "
               "the code by comparing every helper's result on logs of generated programs")

PROFILE = dict(p_handles=0.0, p_ser_fail=0.0, p_missing_field=0.0, p_dest_fail=0.0, p_remote=0.45, p_task=0.15, p_raise=0.3,
               p_probe=0.0, p_globals=0.0, p_remove=0.0, max_stmts=20, n_dests=(1, 1))

UNFINISHED_KEY = {"helper": "LoggedAction.of_type", "log": "contains-unfinished-action-of-type-or-descendant"}
ERR_MODEL = {"PM.Testing.Err.missingStart": "missingStart", "PM.Testing.Err.missingEnd": "missingEnd",
             "PM.Testing.Err.keyError": "keyError", "PM.Testing.Err.fuel": "fuel"}


# ---- generation -----------------------------------------------------------------------------

def widen(rng, prog):
    """Insert 10-14 (one time in three: 20-26) extra children at the front of one action's body, so that level
    components get two digits; some of the extra children are actions with a child action of their own
    (levels like [2, 2, 1] and [21, 2, 1] in one task)."""
    targets = []

    def walk(block):
        for s in block:
            if s["op"] in ("with", "continueWith"):
                targets.append(s)
            for k in ("body", "handler"):
                if k in s:
                    walk(s[k])

    walk(prog)
    if not targets:
        prog.insert(0, dict(op="with", task=False, spec=dict(atype="app:a", fields=[], sers=None), body=[]))
        targets.append(prog[0])
    t = rng.choice(targets)

    def action(body):
        return dict(op="with", task=False, spec=dict(atype=rng.choice(["app:a", "app:b", "app:c"]),
                                                     fields=[["x", {"n": rng.randint(0, 3)}]], sers=None), body=body)

    def log():
        return dict(op="log", ms=dict(mtype=rng.choice(["app:m1", "app:m2"]), fields=[["k1", {"n": rng.randint(0, 3)}]], sers=None))

    big = rng.random() < 1 / 3
    extra = []
    for _ in range(rng.randint(20, 26) if big else rng.randint(10, 14)):
        r = rng.random()
        if r < 0.5:
            extra.append(log())
        elif r < 0.75:
            extra.append(action([log()] if rng.random() < 0.5 else []))
        else:
            extra.append(action([log(), action([])] if rng.random() < 0.5 else [action([log()])]))
    if big:
        extra[0] = action([action([])])
        extra[-1] = action([log(), action([])])
    t["body"][0:0] = extra


def repeat_types(prog):
    """Repeated action types are the point here: drop the per-action suffix ("app:a#7" -> "app:a") that
    sysgen.py may add to make types unique for other properties."""
    for s in prog:
        if isinstance(s.get("spec"), dict) and isinstance(s["spec"].get("atype"), str):
            s["spec"]["atype"] = s["spec"]["atype"].split("#")[0]
        for k in ("body", "handler"):
            if k in s:
                repeat_types(s[k])


def none_values(rng, prog):
    """Some logged fields get the value None ({"z": null}), so that "key present with value None" and "key absent"
    both occur in the captured dictionaries."""
    for s in prog:
        for fs in ((s.get("spec") or {}).get("fields"), (s.get("ms") or {}).get("fields"), s.get("fs")):
            for f in fs or []:
                if rng.random() < 0.12:
                    f[1] = {"z": None}
        for k in ("body", "handler"):
            if k in s:
                none_values(rng, s[k])


def untyped_messages(rng, prog):
    """About one message in ten is logged with the empty message type (what the untyped `Message.log(...)` /
    `Message.new(...).write()` spellings produce); action messages have no message_type key at all."""
    for s in prog:
        if s.get("op") in ("log", "logTo") and rng.random() < 0.1:
            s["ms"]["mtype"] = ""
            s["ms"]["sers"] = None
        for k in ("body", "handler"):
            if k in s:
                untyped_messages(rng, s[k])


def leave_open(rng, prog):
    """Turn one or two `with start_action(...)` blocks into an explicit start that is never finished
    (`a = start_action(...)`; `with a.context(): body`): the log is then what a test sees that inspects the logger while
    an action is still running, or after an action was started and never finished."""
    for n in range(rng.randint(1, 2)):
        places = []

        def walk(block):
            for i, s in enumerate(block):
                if s["op"] == "with":
                    places.append((block, i))
                for k in ("body", "handler"):
                    if k in s:
                        walk(s[k])

        walk(prog)
        if not places:
            return
        block, i = rng.choice(places)
        s = block[i]
        x = 1000 + n
        block[i:i + 1] = [dict(op="startAs", x=x, task=s["task"], spec=s["spec"]), dict(op="inContext", x=x, body=s["body"])]


CLASH = ["exception", "reason", "status", "succeeded"]


def clash_fields(rng, prog):
    """Untyped actions sometimes get success fields (and start fields) named like the fields of a failed action's end
    message - `exception`, `reason` (a retry wrapper recording the error it swallowed) - or like the outcome itself."""
    for s in prog:
        if s.get("op") == "with" and s["spec"].get("sers") is None:
            if rng.random() < 0.2:
                name = rng.choice(CLASH)
                s["body"].insert(0, dict(op="addSuccess", x=None, fs=[[name, rng.choice([{"s": "ValueError"}, {"s": "boom"}, {"n": 0}, {"z": None}])]]))
            if rng.random() < 0.1:
                name = rng.choice(CLASH)
                if name not in [f[0] for f in s["spec"]["fields"]]:
                    s["spec"]["fields"].append([name, rng.choice([{"s": "KeyError"}, {"n": 1}])])
        for k in ("body", "handler"):
            if k in s:
                clash_fields(rng, s[k])


def skeleton(s):
    """The with / log structure of a statement (everything else dropped), as a fresh copy."""
    if s["op"] == "log":
        return dict(op="log", ms=dict(mtype=s["ms"]["mtype"], fields=[list(f) for f in s["ms"]["fields"]], sers=None))
    if s["op"] == "with":
        return dict(op="with", task=False, spec=dict(atype=s["spec"]["atype"], fields=[list(f) for f in s["spec"]["fields"]], sers=None),
                    body=[k for k in (skeleton(c) for c in s["body"]) if k])
    return None


def echo_task(rng, prog):
    """A later top-level task repeats the shape of an earlier one (same action types at the same levels), once under a
    root of another type and sometimes once more unchanged: equal (level, type) pairs in different tasks of one logger."""
    tops = [s for s in prog if s["op"] == "with" and any(c["op"] == "with" for c in s["body"])]
    if not tops:
        return
    t = rng.choice(tops)
    other = skeleton(t)
    other["spec"]["atype"] = rng.choice([a for a in ("app:a", "app:b", "app:c") if a != t["spec"]["atype"].split("#")[0]])
    prog.append(other)
    if rng.random() < 0.5:
        prog.append(skeleton(t))


def corpus():
    """Hand-written programs run first on every seed: same-type nesting in the first task, actions of that type at the
    same levels in later tasks (under roots of the same and of other types), sequential and interleaved."""
    import random

    env = sysgen.gen_env(random.Random(0), dict(sysgen.DEFAULT_PROFILE, **PROFILE))

    def act(t, *body, task=False):
        return dict(op="with", task=task, spec=dict(atype=t, fields=[], sers=None), body=list(body))

    def log(t="app:m1"):
        return dict(op="log", ms=dict(mtype=t, fields=[], sers=None))

    progs = [
        # sequential: a[a[m]] ; b[a[m]] ; c[a[]] ; a[a[a[]]]
        [act("app:a", act("app:a", log())), act("app:b", act("app:a", log("app:m2"))), act("app:c", act("app:a")),
         act("app:a", act("app:a", act("app:a")))],
        # interleaved: the second and third task start (start_task) while the first is open
        [act("app:a", act("app:a", log()), act("app:b", act("app:a", log()), log(), task=True), log(),
             act("app:c", log(), act("app:a", act("app:a")), task=True), act("app:a"))],
        # the nesting comes second, deeper levels, a failing copy
        [act("app:b", log(), act("app:a", act("app:b"))), act("app:a", log(), act("app:a", act("app:a"), log())),
         act("app:c", log(), act("app:b", act("app:a"), log())),
         dict(op="try", body=[act("app:b", log(), act("app:a", act("app:a")), dict(op="raise", e=0))], handler=[])],
    ]
    return [dict(env=env, prog=p) for p in progs]


def gen_program(rng):
    case = sysgen.gen_case(rng, PROFILE)
    if rng.random() < 0.3:
        echo_task(rng, case["prog"])
    clash_fields(rng, case["prog"])
    untyped_messages(rng, case["prog"])
    if rng.random() < 0.15:
        leave_open(rng, case["prog"])
    repeat_types(case["prog"])
    none_values(rng, case["prog"])
    wide = rng.random() < 1 / 6
    if wide:
        widen(rng, case["prog"])
    return case, wide


# ---- real side ------------------------------------------------------------------------------

def run_program(case):
    """Run the program with a MemoryLogger as the default logger; returns its message list."""
    from eliot import _output

    mem = _output.MemoryLogger(json_default=repr)
    saved = _output._DEFAULT_LOGGER
    _output._DEFAULT_LOGGER = mem
    value = sysinterp.Runtime.value
    sysinterp.Runtime.value = lambda self, fv: None if "z" in fv else value(self, fv)  # {"z": null} is the value None
    try:
        result, rt = sysinterp.run_case(case)
    finally:
        _output._DEFAULT_LOGGER = saved
        sysinterp.Runtime.value = value
    return mem, result


class Renderer:
    """Injective rendering of field values; objects compared by identity are numbered."""

    def __init__(self):
        self.ids = {}
        self.keep = []

    def __call__(self, v):
        if isinstance(v, bool):
            return "b:%r" % v
        if isinstance(v, int):
            return "i:%d" % v
        if isinstance(v, float):
            return "f:%r" % v
        if isinstance(v, str):
            return "s:" + v
        if v is None:
            return "n"
        if isinstance(v, (list, tuple)):
            return "l:[" + ",".join(self(x) for x in v) + "]"
        if isinstance(v, sysinterp.Obj):
            return "o:%d" % v.i
        if id(v) not in self.ids:
            self.ids[id(v)] = len(self.ids)
            self.keep.append(v)
        return "x:%d" % self.ids[id(v)]


def model_input(msgs, atypes, mtypes, asserts, render):
    ms, info = [], []
    for i, m in enumerate(msgs):
        d = dict(uuid=str(m.get("task_uuid")), level=list(m.get("task_level") or []), body=i)
        if isinstance(m.get("action_type"), str):
            d["atype"] = m["action_type"]
        if isinstance(m.get("action_status"), str):
            d["status"] = m["action_status"]
        ms.append(d)
        row = dict(fields=[[str(k), render(v)] for k, v in m.items()])
        if isinstance(m.get("message_type"), str):
            row["mtype"] = m["message_type"]
        info.append(row)
    aj = []
    for a in asserts:
        if a["k"] == "action":
            aj.append(dict(k="action", ty=a["ty"], succ=a["succ"], start=[[k, render(v)] for k, v in a["start"].items()],
                           end=[[k, render(v)] for k, v in a["end"].items()]))
        else:
            aj.append(dict(k="message", ty=a["ty"], fields=[[k, render(v)] for k, v in a["fields"].items()]))
    return dict(msgs=ms, info=info, atypes=atypes, mtypes=mtypes, asserts=aj)


def classify(e):
    s = ""
    try:
        s = str(e)
    except Exception:  # noqa
        pass
    if isinstance(e, ValueError) and s.startswith("Missing start message"):
        return "missingStart"
    if isinstance(e, ValueError) and s.startswith("Missing end message"):
        return "missingEnd"
    if isinstance(e, KeyError):
        return "keyError"
    return "other:" + type(e).__name__


def as_type(t, n, action):
    """The type argument of the helpers: the name, or (odd n) an ActionType / MessageType object with that name."""
    if n % 2 == 0:
        return t
    import eliot

    return eliot.ActionType(t, [], [], "") if action else eliot.MessageType(t, [], "")


def observe(msgs):
    """Everything the helpers say about `msgs`, as plain data (same shape as the Lean driver)."""
    from eliot.testing import LoggedAction, LoggedMessage

    idx = {id(m): i for i, m in enumerate(msgs)}

    def body(d):
        return idx.get(id(d), -1)

    def item(x):
        if isinstance(x, LoggedMessage):
            return {"m": body(x.message)}
        return {"s": body(x.startMessage), "e": body(x.endMessage), "ok": bool(x.succeeded), "k": [item(c) for c in x.children]}

    def head(x):
        if isinstance(x, LoggedMessage):
            return {"m": body(x.message)}
        return {"a": body(x.startMessage)}

    atypes = sorted({m.get("action_type") for m in msgs if isinstance(m.get("action_type"), str)}) + ["app:absent"]
    # the empty type is always queried: a dictionary without message_type is not a message of type ""
    mtypes = sorted({m.get("message_type") for m in msgs if isinstance(m.get("message_type"), str)} | {""}) + ["app:absent"]
    of_type = {}
    for n, t in enumerate(atypes):
        try:
            # every other type is asked for through an ActionType object instead of its name
            entries = LoggedAction.of_type(msgs, as_type(t, n, True))
            out = []
            for a in entries:
                d = item(a)
                try:
                    d["desc"] = [head(x) for x in a.descendants()]
                except Exception as e:  # noqa
                    d["desc"] = {"err": classify(e)}
                try:
                    d["tt"] = a.type_tree()
                except Exception as e:  # noqa
                    d["tt"] = {"err": classify(e)}
                out.append(d)
            of_type[t] = {"ok": out}
        except Exception as e:  # noqa
            of_type[t] = {"err": classify(e)}
    lm = {}
    for n, t in enumerate(mtypes):
        try:
            lm[t] = [body(x.message) for x in LoggedMessage.of_type(msgs, as_type(t, n, False))]
        except Exception as e:  # noqa
            lm[t] = {"err": classify(e)}
    return atypes, mtypes, of_type, lm, head


class Probe(unittest.TestCase):
    """A TestCase that counts the assertions made on it."""

    def runTest(self):
        pass

    def __init__(self):
        unittest.TestCase.__init__(self)
        self.calls = 0

    def assertTrue(self, *a, **kw):
        self.calls += 1
        return unittest.TestCase.assertTrue(self, *a, **kw)

    def assertEqual(self, *a, **kw):
        self.calls += 1
        return unittest.TestCase.assertEqual(self, *a, **kw)


def run_asserts(mem, asserts, head):
    from eliot.testing import assertHasAction, assertHasMessage

    out = []
    for n, a in enumerate(asserts):
        tc = Probe()
        try:
            # the type as a name or as a type object; empty expectations as {} / None / left out (the defaults)
            if a["k"] == "action":
                kw = {}
                for name, d in (("startFields", a["start"]), ("endFields", a["end"])):
                    if d or n % 3 == 0:
                        kw[name] = dict(d)
                    elif n % 3 == 1:
                        kw[name] = None
                r = assertHasAction(tc, mem, as_type(a["ty"], n // 2, True), a["succ"], **kw)
            elif a["fields"] or n % 3 == 0:
                r = assertHasMessage(tc, mem, as_type(a["ty"], n // 2, False), dict(a["fields"]))
            elif n % 3 == 1:
                r = assertHasMessage(tc, mem, as_type(a["ty"], n // 2, False), None)
            else:
                r = assertHasMessage(tc, mem, as_type(a["ty"], n // 2, False))
            out.append({"ok": head(r)})
        except AssertionError:
            stages = ["noneOfType", "wrongStatus", "startFields", "endFields"] if a["k"] == "action" else ["noneOfType", "fields"]
            out.append({"fail": stages[tc.calls - 1] if 1 <= tc.calls <= len(stages) else "assert#%d" % tc.calls})
        except Exception as e:  # noqa
            out.append({"fail": {"raised": classify(e)}})
    return out


# ---- the independent reference: the parser's tree ---------------------------------------------

class Reference:
    """The action trees `eliot.parse.Parser` builds from the same messages, traversed independently
    of eliot.testing; children ordered by emission index."""

    def __init__(self, msgs):
        from eliot.parse import Parser
        from eliot._action import WrittenAction

        self.msgs = msgs
        self.WA = WrittenAction
        self.place = {}
        self.ambiguous = False
        for i, m in enumerate(msgs):
            k = (m.get("task_uuid"), tuple(m.get("task_level") or ()))
            if k in self.place:
                self.ambiguous = True
            self.place[k] = i
        self.tasks = list(Parser.parse_stream(msgs))
        self.actions = []  # (start index, node) of every action with a start message
        self.unfinished = False
        self.open = {}  # id(node) -> the sub-tree contains an action without start or end message
        self.level_order_differs = False
        for t in self.tasks:
            self.walk(t.root())

    def ix(self, wm):
        return self.place[(wm.task_uuid, tuple(wm.task_level.as_list()))]

    def first(self, n):
        if isinstance(n, self.WA):
            return None if n.start_message is None else self.ix(n.start_message)
        return self.ix(n)

    def walk(self, n):
        if not isinstance(n, self.WA):
            return False
        op = n.start_message is None or n.end_message is None
        if n.start_message is not None:
            self.actions.append((self.ix(n.start_message), n))
        for c in n.children:
            op = self.walk(c) or op
        self.open[id(n)] = op
        self.unfinished = self.unfinished or op
        return op

    def tainted(self, t):
        """Some action of type `t` is unfinished or has an unfinished descendant."""
        return any(self.open[id(n)] for i, n in self.actions if self.msgs[i].get("action_type") == t)

    def kids(self, n):
        ks = [(self.first(c), c) for c in n.children]
        order = [k for k, _ in ks]
        if None not in order and order != sorted(order):
            self.level_order_differs = True
        return [c for _, c in sorted(ks, key=lambda p: (-1 if p[0] is None else p[0]))]

    def item(self, n):
        if isinstance(n, self.WA):
            return {"s": self.ix(n.start_message), "e": self.ix(n.end_message),
                    "ok": self.msgs[self.ix(n.end_message)].get("action_status") == "succeeded",
                    "k": [self.item(c) for c in self.kids(n)]}
        return {"m": self.ix(n)}

    def desc(self, n):
        out = []
        for c in self.kids(n):
            if isinstance(c, self.WA):
                out.append({"a": self.ix(c.start_message)})
                out.extend(self.desc(c))
            else:
                out.append({"m": self.ix(c)})
        return out

    def type_tree(self, n):
        out = []
        for c in self.kids(n):
            if isinstance(c, self.WA):
                out.append(self.type_tree(c))
            else:
                out.append(self.msgs[self.ix(c)]["message_type"])
        return {self.msgs[self.ix(n.start_message)]["action_type"]: out}

    def of_type(self, t):
        """Entries for the actions of type `t` whose whole sub-tree is finished, in emission order."""
        out = []
        for i, n in sorted(self.actions, key=lambda p: p[0]):
            if self.msgs[i].get("action_type") == t and not self.open[id(n)]:
                d = self.item(n)
                d["desc"] = self.desc(n)
                d["tt"] = self.type_tree(n)
                out.append(d)
        return out

    def node_of_start(self, i):
        for j, n in self.actions:
            if j == i:
                return n
        return None


def superset(d, exp):
    return all(k in d and d[k] == v for k, v in exp.items())


def gen_asserts(rng, msgs, atypes, mtypes):
    """Expectations for the assert helpers, built from the raw dictionaries only, in a replayable symbolic
    form: a field is [key, ["copy", i]] (the value msgs[i][key]) or [key, ["lit", json value]]."""
    out = []
    index = {id(m): i for i, m in enumerate(msgs)}

    def subset(d):
        if not d:
            return []
        ks = [k for k in d if k != "timestamp"]
        n = rng.randint(0, min(3, len(ks)))
        return [[k, ["copy", index[id(d)]]] for k in rng.sample(ks, n)]

    def perturb(exp, d):
        exp = [list(p) for p in exp]
        r = rng.random()
        if r < 0.3:
            # a key the dictionary does not have, expected with None or another falsy value: absent is not "present with None"
            exp.append(["absent_key", ["lit", rng.choice([None, None, None, 0, "", False])]])
        elif r < 0.4 and d:
            # a key the dictionary has, expected to be None (matches only if the logged value is None)
            ks = [k for k in d if k not in [p[0] for p in exp] and k != "timestamp"]
            exp.append([rng.choice(ks), ["lit", None]] if ks else ["absent_key", ["lit", None]])
        elif exp and r < 0.65:
            rng.choice(exp)[1] = ["lit", "¬not-this-value"]
        elif r < 0.85:
            exp.append(["absent_key", ["lit", 1]])
        else:
            ks = [k for k in (d or {}) if k not in [p[0] for p in exp]]
            exp.append([rng.choice(ks), ["lit", "¬not-this-value"]] if ks else ["absent_key", ["lit", 1]])
        return exp

    for t in atypes:
        starts = [m for m in msgs if m.get("action_type") == t and m.get("action_status") == "started"]
        if not starts:
            out.append(dict(k="action", ty=t, succ=rng.random() < 0.5, start=[], end=[]))
            continue
        ends = {}
        for m in msgs:
            if m.get("action_type") == t and m.get("action_status") in ("succeeded", "failed"):
                ends[(m.get("task_uuid"), tuple(m["task_level"][:-1]))] = m

        def end_of(s):
            return ends.get((s.get("task_uuid"), tuple(s["task_level"][:-1])))

        for which in ([starts[0]] + ([starts[-1]] if len(starts) > 1 else []) + ([rng.choice(starts)] if len(starts) > 2 else [])):
            e = end_of(which)
            succ = (e or {}).get("action_status") == "succeeded"
            base = dict(k="action", ty=t, succ=succ, start=subset(which), end=subset(e))
            out.append(base)
            r = rng.random()
            if r < 0.3:
                out.append(dict(base, succ=not succ))
            elif r < 0.6:
                out.append(dict(base, start=perturb(base["start"], which)))
            elif r < 0.9:
                out.append(dict(base, end=perturb(base["end"], e)))
    for t in mtypes:
        ms = [m for m in msgs if m.get("message_type") == t]
        if not ms:
            out.append(dict(k="message", ty=t, fields=[]))
            continue
        for which in [ms[0]] + ([ms[-1]] if len(ms) > 1 else []):
            base = dict(k="message", ty=t, fields=subset(which))
            out.append(base)
            if rng.random() < 0.5:
                out.append(dict(base, fields=perturb(base["fields"], which)))
    rng.shuffle(out)
    return out[:14]


def materialize(msgs, a):
    """Symbolic expectation -> the dictionaries handed to the assert helper."""
    def fields(fs):
        d = {}
        for k, (how, v) in fs:
            d[k] = msgs[v][k] if how == "copy" else v
        return d

    if a["k"] == "action":
        return dict(k="action", ty=a["ty"], succ=a["succ"], start=fields(a["start"]), end=fields(a["end"]))
    return dict(k="message", ty=a["ty"], fields=fields(a["fields"]))


def expected_assert(ref, msgs, a):
    """Independent statement of the property for one expectation: True (passes) / False (AssertionError)."""
    if a["k"] == "message":
        ms = [m for m in msgs if m.get("message_type") == a["ty"]]
        return bool(ms) and superset(ms[0], a["fields"])
    starts = [i for i, m in enumerate(msgs) if m.get("action_type") == a["ty"] and m.get("action_status") == "started"]
    if not starts:
        return False
    if ref.tainted(a["ty"]):
        return None  # of_type raises for the whole type (known finding, judged in `oracles`)
    n = ref.node_of_start(starts[0])
    if n is None or n.end_message is None:
        return None
    e = msgs[ref.ix(n.end_message)]
    return (e.get("action_status") == "succeeded") == a["succ"] and superset(msgs[starts[0]], a["start"]) and superset(e, a["end"])


# ---- one case ---------------------------------------------------------------------------------

def real_side(case, rng, sym=None):
    """Runs the program and the helpers; everything the real code does is data."""
    try:
        mem, result = run_program(case)
        msgs = mem.messages
    except Exception as e:  # noqa
        return dict(crash="program run raised %s: %s" % (type(e).__name__, e))
    try:
        atypes, mtypes, of_type, lm, head = observe(msgs)
    except Exception as e:  # noqa
        return dict(crash="observation raised %s: %s" % (type(e).__name__, e))
    try:
        sym = gen_asserts(rng, msgs, atypes, mtypes) if sym is None else sym
        asserts = [materialize(msgs, a) for a in sym]
    except Exception as e:  # noqa
        return dict(crash="expectations could not be built from the log: %s: %s" % (type(e).__name__, e))
    try:
        ares = run_asserts(mem, asserts, head)
    except Exception as e:  # noqa
        return dict(crash="assert helpers: %s: %s" % (type(e).__name__, e))
    return dict(mem=mem, msgs=msgs, outcome=result.get("outcome"), atypes=atypes, mtypes=mtypes, of_type=of_type, lm=lm,
                asserts=asserts, ares=ares, sym=sym)


def depth_of(msgs):
    return max([len(m.get("task_level") or []) for m in msgs] or [0])


def oracles(ctx, case, r):
    """Model-free checks of the property statement. Returns tags."""
    msgs = r["msgs"]
    rcase = dict(prog=case)
    try:
        ref = Reference(msgs)
    except Exception as e:  # noqa
        ctx.count("oracle:parser-raised:" + type(e).__name__)
        return ["parser-raised"]
    if ref.ambiguous:
        ctx.count("oracle:ambiguous-place")
        return ["ambiguous-place"]
    tags = ["unfinished"] if ref.unfinished else []
    for t in r["atypes"]:
        try:
            exp = ref.of_type(t)
        except Exception as e:  # noqa
            ctx.count("oracle:reference-raised:" + type(e).__name__)
            return ["reference-raised"]
        got = r["of_type"][t]
        if ref.tainted(t):
            # Some action of the type (or a descendant of one) has no end message.  The statement promises one entry per
            # started-and-finished action; the code raises ValueError for the whole call.  Only this type is affected: the
            # other types, LoggedMessage.of_type and the assert helpers on other types are judged as usual below.
            tags.append("unfinished-type")
            ctx.count("of_type on a type with an unfinished action: " + ("raises" if "err" in got else "returns"))
            if got.get("err") == "missingEnd":
                ctx.violation("LoggedAction.of_type(%r) raises ValueError('Missing end message') for the whole call because one action of "
                              "that type, or a descendant of one, is not finished; the %d finished action(s) of the type are not returned"
                              % (t, len(exp)), rcase, key=UNFINISHED_KEY)
            elif "err" in got:
                ctx.violation("LoggedAction.of_type(%r) raised %s on a log with an unfinished action" % (t, got["err"]), rcase,
                              key=dict(oracle="of_type-raises", err=got["err"]))
                return tags
            else:
                done = {e["s"] for e in exp}
                if [e for e in got["ok"] if e.get("s") in done] != exp:
                    ctx.violation("LoggedAction.of_type(%r) does not list the finished actions of the type (sub-tree finished too) as the "
                                  "parser's tree has them" % t, rcase, key=dict(oracle="of_type-vs-parser", what="finished entries"))
                    return tags
            continue
        if "err" in got:
            ctx.violation("LoggedAction.of_type(%r) raised %s on a log in which every action is finished" % (t, got["err"]), rcase,
                          key=dict(oracle="of_type-raises", err=got["err"]))
            return tags
        got = got["ok"]
        strip = lambda es: [{k: v for k, v in e.items() if k not in ("desc", "tt")} for e in es]
        if strip(got) != strip(exp):
            what = "entries"
            if [e.get("s") for e in got] == [e.get("s") for e in exp]:
                what = "an entry's end message / success flag / children"
            elif sorted(e.get("s") for e in got) == sorted(e.get("s") for e in exp):
                what = "the order of the entries (not emission order)"
            ctx.violation("LoggedAction.of_type(%r) differs from the parser's tree restricted to that type: %s" % (t, what), rcase,
                          key=dict(oracle="of_type-vs-parser", what=what))
            return tags
        for g, e in zip(got, exp):
            if g.get("desc") != e["desc"]:
                ctx.violation("descendants() of an action of type %r is not the pre-order of its tree" % t, rcase,
                              key=dict(oracle="descendants-preorder"))
                return tags
            if g.get("tt") != e["tt"]:
                ctx.violation("type_tree() of an action of type %r is not the tree of types in child order" % t, rcase,
                              key=dict(oracle="type_tree"))
                return tags
        if len(exp) >= 2:
            tags.append("repeated-type")
    if ref.level_order_differs:
        tags.append("delayed-remote")
    for t in r["mtypes"]:
        exp = [i for i, m in enumerate(msgs) if m.get("message_type") == t]
        if r["lm"][t] != exp:
            ctx.violation("LoggedMessage.of_type(%r) is not exactly the messages of that type, in order" % t, rcase,
                          key=dict(oracle="logged-message-of_type"))
            return tags
    for a, res, sym in zip(r["asserts"], r["ares"], r["sym"]):
        exp = expected_assert(ref, msgs, a)
        if exp is None:
            continue
        passed = "ok" in res
        ctx.count("assert:%s:%s" % (a["k"], "pass" if exp else "fail"))
        if passed != exp:
            ctx.violation("%s %s although the first %s of type %r %s the expected outcome/fields" % (
                "assertHasAction" if a["k"] == "action" else "assertHasMessage", "passed" if passed else "failed (%s)" % (res.get("fail"),),
                a["k"], a["ty"], "does not have" if not exp else "has"), dict(rcase, asserts=[sym]),
                key=dict(oracle="assert", kind=a["k"], expected=exp))
            return tags
        if passed:
            first = [i for i, m in enumerate(msgs) if (m.get("message_type") == a["ty"] if a["k"] == "message" else
                                                       (m.get("action_type") == a["ty"] and m.get("action_status") == "started"))][0]
            if list(res["ok"].values()) != [first]:
                ctx.violation("%s returned something else than the first %s of the type" % (a["k"], a["k"]), rcase, key=dict(oracle="assert-return"))
                return tags
    return sorted(set(tags))


def norm_model(mo):
    of_type = {}
    for t, v in mo.get("ofType", {}).items():
        of_type[t] = {"err": ERR_MODEL.get(v["err"], v["err"])} if "err" in v else v
        if "ok" in of_type[t]:
            for e in of_type[t]["ok"]:
                if isinstance(e.get("tt"), dict) and "err" in e["tt"] and isinstance(e["tt"]["err"], str):
                    e["tt"] = {"err": ERR_MODEL.get(e["tt"]["err"], e["tt"]["err"])}
    ares = []
    for a in mo.get("asserts", []):
        if "fail" in a and isinstance(a["fail"], dict):
            a = {"fail": {"raised": ERR_MODEL.get(a["fail"].get("raised"), a["fail"].get("raised"))}}
        ares.append(a)
    return of_type, mo.get("lm", {}), ares


def structured_field_asserts(ctx):
    """oracle only: expectations about fields whose values are dictionaries / lists.  "Has the fields" means every expected key is
    there with an EQUAL value: a part of a logged dictionary (or the empty one) is not equal to it."""
    import unittest
    from eliot import MemoryLogger, start_action
    from eliot.testing import assertHasAction, assertHasMessage

    mem = MemoryLogger()
    payload = {"a": 1, "b": {"c": 2, "d": [1, 2]}}
    with start_action(mem, "app:dact", conf={"x": 1, "y": {"z": 0}}) as act:
        act.log("app:dmsg", payload=payload, n=1)
        act.add_success_fields(result={"ok": True, "items": [1, 2, 3]})
    cases = [("message", {"payload": payload}, True), ("message", {"payload": {"a": 1, "b": {"c": 2, "d": [1, 2]}}, "n": 1}, True),
             ("message", {"payload": {"a": 1}}, False), ("message", {"payload": {}}, False), ("message", {"payload": {"a": 1, "b": {"c": 2}}}, False),
             ("message", {"payload": {"a": 1, "b": {}}}, False), ("message", {"n": 1}, True),
             ("start", {"conf": {"x": 1, "y": {"z": 0}}}, True), ("start", {"conf": {"x": 1}}, False), ("start", {"conf": {"y": {}}}, False),
             ("end", {"result": {"ok": True, "items": [1, 2, 3]}}, True), ("end", {"result": {"ok": True}}, False), ("end", {"result": {}}, False),
             ("end", {"result": {"ok": True, "items": [1, 2]}}, False)]
    for kind, exp, want in cases:
        tc = unittest.TestCase()
        try:
            if kind == "message":
                assertHasMessage(tc, mem, "app:dmsg", exp)
            elif kind == "start":
                assertHasAction(tc, mem, "app:dact", True, startFields=exp)
            else:
                assertHasAction(tc, mem, "app:dact", True, endFields=exp)
            got = True
        except AssertionError:
            got = False
        except Exception as e:  # noqa
            got = "raised %s" % type(e).__name__
        case = dict(kind="structured-fields", where=kind, expected=exp)
        ctx.case(case, nontrivial=not want, tags=["structured-fields"])
        if got is not want:
            ctx.violation("assert helper on a %s with dictionary-valued fields: expectation %r %s, but every expected key must be present with "
                          "an equal value (so it should %s)" % (kind, exp, "passed" if got is True else "failed" if got is False else got,
                                                                "pass" if want else "fail"), case, key=None)
            return


def run(ctx):
    structured_field_asserts(ctx)
    rng = ctx.rng("gen")
    arng = ctx.rng("asserts")
    n = ctx.budget(300, 10000)
    cases, reals, inputs = [], [], []
    fixed = corpus()
    for k in range(n):
        case, wide = (fixed[k], False) if k < len(fixed) else gen_program(rng)
        r = real_side(case, arng)
        r["wide"] = wide
        cases.append(case)
        reals.append(r)
        if "crash" in r:
            inputs.append(dict(msgs=[], info=[], atypes=[], mtypes=[], asserts=[]))
        else:
            inputs.append(model_input(r["msgs"], r["atypes"], r["mtypes"], r["asserts"], Renderer()))
    model = []
    CH = 500
    for i in range(0, len(inputs), CH):
        model += lean_driver("Driver/C17.lean", inputs[i:i + CH])
    name = "correspondence:testing-model"
    for case, r, mo in zip(cases, reals, model):
        if "crash" in r:
            ctx.case(dict(prog=case), nontrivial=False, tags=["crash"])
            ctx.violation("the real code raised outside the helpers' documented errors: %s" % r["crash"], dict(prog=case),
                          key=dict(oracle="crash"))
            continue
        if "bad" in mo:
            ctx.broken_tie(name, "model rejected the case: %s" % mo["bad"], dict(prog=case))
            continue
        msgs = r["msgs"]
        tags = oracles(ctx, case, r)
        ntasks = len({m.get("task_uuid") for m in msgs})
        depth = depth_of(msgs)
        nontriv = "parser-raised" not in tags and depth >= 2 and (ntasks >= 2 or "repeated-type" in tags)
        failed = any(m.get("action_status") == "failed" for m in msgs)
        remote = any(m.get("action_type") == "eliot:remote_task" for m in msgs)
        nested_same = False
        for t in r["atypes"]:
            v = r["of_type"][t]
            if "ok" in v:
                starts = {e.get("s") for e in v["ok"]}
                if any(d.get("a") in starts for e in v["ok"] if isinstance(e.get("desc"), list) for d in e["desc"]):
                    nested_same = True
        ctx.case(dict(prog=case["prog"]), nontrivial=nontriv,
                 tags=["tasks:%d" % min(ntasks, 6), "depth:%d" % min(depth, 6), "outcome:%s" % ("ok" if r["outcome"] == "ok" else
                                                                                              ("stuck" if r["outcome"] == "stuck" else "raised"))]
                 + tags + (["failed-action"] if failed else []) + (["remote"] if remote else []) + (["equal-typed-descendant"] if nested_same else [])
                 + (["wide"] if r["wide"] else []) + (["two-digit-level"] if any(x >= 10 for m in msgs for x in (m.get("task_level") or [])) else []))
        ctx.count("messages", n=len(msgs))
        ctx.count("of_type calls", n=len(r["atypes"]))
        ctx.count("assert calls", n=len(r["asserts"]))
        m_of, m_lm, m_as = norm_model(mo)
        diff = None
        if m_of != r["of_type"]:
            t = next(t for t in r["atypes"] if m_of.get(t) != r["of_type"][t])
            diff = "LoggedAction.of_type(%r) (with descendants / type_tree): real %s, model %s" % (t, canon(r["of_type"][t])[:400], canon(m_of.get(t))[:400])
        elif m_lm != r["lm"]:
            diff = "LoggedMessage.of_type: real %s, model %s" % (canon(r["lm"])[:300], canon(m_lm)[:300])
        elif m_as != r["ares"]:
            i = next(i for i, (a, b) in enumerate(itertools.zip_longest(m_as, r["ares"])) if a != b)
            diff = "assert helper on %s: real %s, model %s" % (canon(r["sym"][i])[:300] if i < len(r["sym"]) else None,
                                                                       r["ares"][i] if i < len(r["ares"]) else None, m_as[i] if i < len(m_as) else None)
        if diff:
            ctx.broken_tie(name, diff, dict(prog=case))
        else:
            ctx.traces += 1
    if name not in ctx.broken:
        ctx.obligation(name, "correspondence", True, "%d logs: every helper result equal to the model's" % ctx.traces)


def replay(ctx, obj):
    c = obj.get("case") or {}
    if c.get("kind") == "structured-fields":
        structured_field_asserts(ctx)
        return
    case = c.get("prog")
    r = real_side(case, ctx.rng("replay"), c.get("asserts"))
    if "crash" in r:
        print(r["crash"])
        ctx.violation("the real code raised outside the helpers' documented errors: %s" % r["crash"], dict(prog=case), key=dict(oracle="crash"))
        return
    for i, m in enumerate(r["msgs"]):
        print(i, {k: m[k] for k in ("task_uuid", "task_level", "action_type", "action_status", "message_type") if k in m})
    for t in r["atypes"]:
        print("of_type", t, canon(r["of_type"][t]))
    for a, res in zip(r["sym"], r["ares"]):
        print("assert", canon(a), "->", res)
    oracles(ctx, case, r)
