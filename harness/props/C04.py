"""C04 - the current action is scoped to its block and always restored on exit."""
from .. import syscorr

PROP = "C04"
LEAN_TARGETS = ["Eliot.Properties.C04", "Eliot.Properties.C04Place"]
AUDIT = "Eliot/Audit/C04.lean"
SKELETON_TARGETS = {"Sys.C04.skeleton_E6": "Eliot.Properties.C04Skel",
                    "Sys.UuidSkel.skeleton_E11_task_uuids_are_uuid4": "Eliot.Properties.UuidSkel",
                    # E14: the bodies of start_action / startTask / log_message / Action.child as the source has them now
                    "Sys.C03Fin.placement_shapes (E14: where a new action or message goes)":
                    ("Eliot.Properties.C03Fin", "Eliot/Audit/C03Fin.lean", ["Sys.C03Fin.placement_shapes"])}
THEOREMS = ["Sys.C04.execS_good", "Sys.C04.execB_good", "Sys.C04.exec_restores_ctx", "Sys.C04.program_ends_contextless",
            "Sys.C04.inside_is_current", "Sys.C04.probe_in_body_sees_action", "Sys.C04.start_task_fresh",
            "Sys.C04.contextless_msg_own_task",
            "Sys.C04.log_untyped_in_action", "Sys.C04.log_typed_in_action", "Sys.C04.child_of_current",
            "Sys.C04.body_statement_context", "Sys.C04.block_body_world", "Sys.C04.execB_append",
            "Sys.C04.logged_in_block_is_direct_item", "Sys.C04.started_in_block_is_child"]
RULE = ("random programs over the full statement language of the core model (with-blocks, explicit handles with `with x:` / "
        "`x.context()` / `x.run()`, re-entry while inside, tasks, remote continuation, try/except, raises of generated exception "
        "classes incl. BaseException/GeneratorExit/KeyboardInterrupt/CancelledError subclasses, failing destinations/serializers/"
        "extractors); non-trivial = nesting depth >= 2 with at least one scoping construct exited by an exception or one "
        "context()/run() block; distinct by canonical hash of the case")
TRUSTED = ["CPython's contextvars (ContextVar.set/reset tokens) — modelled as a saved value restored on exit",
           "generator close is represented by raising a GeneratorExit-derived exception inside the block"]
ASSUMPTIONS = ["one thread (other threads/tasks: C05)", "an Action object is not entered with `with` while already entered with `with` (documented misuse)"]
EXPLANATION = "exec_restores_ctx by mutual structural induction over all programs of the core model"
PROFILE = dict(p_handles=0.6, p_probe=0.6, p_raise=0.45, p_typed=0.15, p_dest_fail=0.1, max_depth=5)


def nontrivial(case, real, st):
    ops = st["ops"]
    return st["depth"] >= 2 and (ops.get("inContext", 0) + ops.get("runIn", 0) > 0 or ops.get("raise", 0) > 0)


def oracle(ctx, case, real, rt):
    if real["outcome"] == "stuck":
        return  # the program misused the API (unbound handle ...): it was abandoned mid-block by the harness
    for tag, what in rt.checks:
        if tag in ("ctx", "placement"):
            ctx.violation(what, case)
            return
    ctx.count("ctx_checks", n=rt.nchecks.get("ctx", 0))
    ctx.count("placement_checks", n=rt.nchecks.get("placement", 0))
    if real.get("ctx") is not None:
        ctx.violation("current_action() is not None after the whole program finished", case)


def faulty_exit_case(ctx, i):
    """Model-free: a destination (or ILogger) raising a BaseException while a block's END message is written must not
    keep the context from being restored: whatever escapes `with action:`, current_action() afterwards is what it was."""
    import contextvars
    import eliot
    from eliot import _output, _action

    rng = ctx.rng("faulty-exit:%d" % i)
    dst = _output.Logger._destinations
    saved = (dst._destinations, dst._any_added, dst._globalFields)
    dst.__init__()
    problems = []
    calls = [0]
    fail_at = set(rng.sample(range(12), rng.randint(1, 4)))

    def dest(message):
        k = calls[0]
        calls[0] += 1
        if k in fail_at:
            raise rng.choice([KeyboardInterrupt, SystemExit, GeneratorExit])("destination interrupted")

    def block(depth):
        before = _action.current_action()
        kind = rng.random()
        try:
            if kind < 0.6:
                with eliot.start_action(action_type="f:act%d" % depth) as a:
                    if _action.current_action() is not a:
                        problems.append("inside `with action:` current_action() is not that action")
                    body(depth)
            elif kind < 0.8:
                a = eliot.start_action(action_type="f:ctx%d" % depth)
                try:
                    with a.context():
                        body(depth)
                finally:
                    a.finish()
            else:
                a = eliot.start_action(action_type="f:run%d" % depth)
                try:
                    a.run(body, depth)
                finally:
                    a.finish()
        except BaseException:  # noqa: the injected interruption, or the body's own exception
            pass
        finally:
            if _action.current_action() is not before:
                problems.append("after a block left by an exception raised while its end message was written, "
                                "current_action() is not what it was before entry")

    def body(depth):
        for _ in range(rng.randint(0, 2)):
            r = rng.random()
            if r < 0.4 and depth < 3:
                block(depth + 1)
            elif r < 0.8:
                eliot.log_message("f:msg", d=depth)
            else:
                raise ValueError("body")

    def main():
        eliot.add_destinations(dest)
        for _ in range(rng.randint(1, 3)):
            block(0)
        if _action.current_action() is not None:
            problems.append("current_action() is not None at the end")

    try:
        contextvars.Context().run(main)
    except BaseException as e:  # noqa
        problems.append("unexpected %s escaped the harness" % type(e).__name__)
    finally:
        dst._destinations, dst._any_added, dst._globalFields = saved
    return problems, calls[0]


def run(ctx):
    from .. import uuidfresh
    uuidfresh.check(ctx)
    for i in range(ctx.budget(150, 3000)):
        problems, ncalls = faulty_exit_case(ctx, i)
        ctx.case({"faulty_exit": i, "seed": ctx.seed}, nontrivial=ncalls >= 3, tags=["faulty-exit"], sample=(i < 1))
        if problems:
            ctx.violation(problems[0], {"faulty_exit": i, "seed": ctx.seed})
            break
    syscorr.run_programs(ctx, ctx.budget(400, 12000), PROFILE, oracle, nontrivial=nontrivial,
                          compare=["outcome", "probeTypes", "ctxType"])


def replay(ctx, obj):
    if (obj.get("case") or {}).get("kind") == "uuid-fresh":
        from .. import uuidfresh
        return uuidfresh.check(ctx, [obj["case"]["scenario"]])
    from .. import sysinterp
    case = obj["case"]
    if "faulty_exit" in case:
        ctx.seed = case["seed"]
        problems, _ = faulty_exit_case(ctx, case["faulty_exit"])
        print(problems)
        if problems:
            ctx.violation(problems[0], case)
        return
    real, rt = sysinterp.run_case(case)
    print(real["outcome"], rt.checks[:3])
    oracle(ctx, case, real, rt)
