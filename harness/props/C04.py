"""C04 - the current action is scoped to its block and always restored on exit."""
from .. import syscorr

PROP = "C04"
LEAN_TARGETS = ["Eliot.Properties.C04"]
AUDIT = "Eliot/Audit/C04.lean"
SKELETON_TARGETS = {"Sys.C04.skeleton_E6": "Eliot.Properties.C04Skel"}
THEOREMS = ["Sys.C04.execS_good", "Sys.C04.execB_good", "Sys.C04.exec_restores_ctx", "Sys.C04.program_ends_contextless",
            "Sys.C04.inside_is_current", "Sys.C04.probe_in_body_sees_action", "Sys.C04.start_task_fresh",
            "Sys.C04.contextless_msg_own_task"]
RULE = ("random programs over the full statement language of the core model (with-blocks, explicit handles with `with x:` / "
        "`x.context()` / `x.run()`, re-entry while inside, tasks, remote continuation, try/except, raises of generated exception "
        "classes incl. BaseException/GeneratorExit/KeyboardInterrupt/CancelledError subclasses, failing destinations/serializers/"
        "extractors); non-trivial = nesting depth >= 2 with at least one scoping construct exited by an exception or one "
        "context()/run() block; distinct by canonical hash of the case")
TRUSTED = ["CPython's contextvars (ContextVar.set/reset tokens) — modelled as a saved value restored on exit",
           "generator close is represented by raising a GeneratorExit-derived exception inside the block"]
ASSUMPTIONS = ["one thread (other threads/tasks: C05)", "an Action object is not entered with `with` while already entered with `with` (documented misuse)"]
EXPLANATION = "exec_restores_ctx by mutual structural induction over all programs of the core model"
PROFILE = dict(p_handles=0.6, p_probe=0.6, p_raise=0.45, p_typed=0.15, p_dest_fail=0.1, max_depth=5)


def nontrivial(case, real, st):
    ops = st["ops"]
    return st["depth"] >= 2 and (ops.get("inContext", 0) + ops.get("runIn", 0) > 0 or ops.get("raise", 0) > 0)


def oracle(ctx, case, real, rt):
    if real["outcome"] == "stuck":
        return  # the program misused the API (unbound handle ...): it was abandoned mid-block by the harness
    for tag, what in rt.checks:
        if tag in ("ctx", "placement"):
            ctx.violation(what, case)
            return
    ctx.count("ctx_checks", n=rt.nchecks.get("ctx", 0))
    ctx.count("placement_checks", n=rt.nchecks.get("placement", 0))
    if real.get("ctx") is not None:
        ctx.violation("current_action() is not None after the whole program finished", case)


def run(ctx):
    syscorr.run_programs(ctx, ctx.budget(400, 12000), PROFILE, oracle, nontrivial=nontrivial,
                          compare=["outcome", "probeTypes", "ctxType"])


def replay(ctx, obj):
    from .. import sysinterp
    case = obj["case"]
    real, rt = sysinterp.run_case(case)
    print(real["outcome"], rt.checks[:3])
    oracle(ctx, case, real, rt)
